"""Preference functions of device_kit/functions.py that the Lean `Fn` embedding has NO constructor for
(oracle-only: there is no model side, hence no T2 op for these descriptions).

`vk.gen.gen_fn` / `vk.build.build_fn` cover NullFunction, SumFunction (>= 2 parts), ReflectedFunction, Poly2D,
Poly2DOffset, HLQuadraticCost (vector), X2D([HLQuadraticCost]) (flag), ABCCost (integer exponents),
InnerSumFunction(HLQuadraticCost), RangesFunction, DemandFunction.  This module adds, description-first
(JSON-serialisable, exact dyadic rationals as strings, so replay files rebuild the same objects):

  {'k': 'x2d', 'fs': [scalar, ...]}      X2D of n scalar functions; scalar is one of
        {'k': 'hlq1', 'pl', 'ph', 'xl', 'xh'}        HLQuadraticCost with scalar parameters
        {'k': 'abc1', 'a', 'b', 'c', 'xl', 'xh'}     ABCCost with scalar parameters (any real exponent b > 0)
        {'k': 'poly1', 'cs': [...]}                  Poly1D(np.poly1d(cs))
  {'k': 'poly1d', 'cs': [...]}           Poly1D over the whole vector (sum of one polynomial over the slots)
  {'k': 'inner', 'f': scalar | {'k': 'poly2d1', 'cs': [...]}}   InnerSumFunction of a scalar outer function
        (np.poly1d itself is NOT a valid outer function: it has no `hess` and its `deriv(m)` means "m-th derivative")
  {'k': 'abcx', 'a', 'b', 'c', 'xl', 'xh'}   ABCCost with vector parameters and real (non-integer) exponents
  {'k': 'entropy', 'c'} / {'k': 'tvar', 'c'} / {'k': 'cobb', 'a': [...], 'c'}
        InformationEntropy / TemporalVariance / CobbDouglas: deriv / hess are numdifftools output ("numeric")
  {'k': 'sum', 'fs': [...]}              SumFunction of 0, 1 or more parts (parts: any description here)
  {'k': 'reflect', 'f': ...}             ReflectedFunction of a description here
  {'k': 'ranges', 'at': k, 'f': ..., 'g': ...}   RangesFunction([((0,k), f), ((k,n), g)])
  {'k': 'base', 'f': <gen.gen_fn description>, 'cvx': bool}   anything vk.gen.gen_fn builds
  shared OBJECTS (build_fn / build_fnx otherwise make a fresh object per slot): {'k': 'x2d', 'fs': [scalar], 'shared': n} = X2D([f]*n);
  {'k': 'sum', 'fs': [g], 'shared': m} = SumFunction([g]*m);  {'k': 'rangesN', 'cuts': [...], 'fs': [...]} = RangesFunction of 4-6 ranges,
  with 'shared': m the first m (equal-length) ranges are served by ONE function object (+ optional 'tail')

Public: gen_fnx, build_fnx, build_adevice, fnx_case_dev, numeric, exponents, convex, kink_free, kinds."""
from fractions import Fraction
from . import common as C, gen, build
from .common import F, fs, dy

L = lambda v: [fs(x) for x in v]
NUMERIC_KINDS = ('entropy', 'tvar', 'cobb')
REAL_B = ['1', '2', '2', '3', '3/2', '5/2', '5/4', '1/2', '65/64']


def _np():
  import numpy
  return numpy


# ------------------------------------------------------------------ generation
def gen_poly_cs(rng, maxdeg=5):
  deg = rng.choice([d for d in (0, 1, 2, 3, 3, 4, 5) if d <= maxdeg])
  return L([dy(rng, 0 if j == 0 else -2, 2) for j in range(deg + 1)])


def gen_scalar(rng, lo, hi, kind=None):
  """a scalar function on [lo, hi] (lo == hi: zero-width, the kernels return the int literal 0 there)."""
  kind = kind or rng.choice(['hlq1', 'abc1', 'poly1'])
  if kind == 'hlq1':
    pl = dy(rng, -3, 0); q = rng.random()
    ph = pl if q < 0.15 else dy(rng, pl, 0)
    return {'k': 'hlq1', 'pl': fs(pl), 'ph': fs(ph), 'xl': fs(lo), 'xh': fs(hi)}
  if kind == 'abc1':
    return {'k': 'abc1', 'a': fs(rng.choice([F(0), F(0), dy(rng, 0, 1), F(1)])), 'b': rng.choice(REAL_B), 'c': fs(dy(rng, 0, 2)),
            'xl': fs(lo), 'xh': fs(hi)}
  if kind == 'poly1':
    return {'k': 'poly1', 'cs': gen_poly_cs(rng)}
  raise ValueError(kind)


def gen_fnx(rng, n, lb, hb, depth=0, allow_numeric=True):
  """a description of a function of n variables over the box [lb, hb] (lists of Fractions)."""
  positive = all(x > 0 for x in lb)
  kinds = ['x2d', 'x2d', 'x2d', 'poly1d', 'inner', 'inner', 'abcx', 'sum0', 'sum1']
  if positive and allow_numeric:
    kinds += ['entropy', 'tvar', 'cobb'] * 2
  if depth < 2:
    kinds += ['sumN', 'reflect', 'base'] + (['ranges'] if n >= 2 else [])
  if depth == 0:      # one function OBJECT shared by every slot / summand / range; wide sums and range lists
    kinds += ['x2d_shared', 'sum_shared', 'sumW'] + (['rangesN', 'rangesN_shared'] if n >= 4 else [])
  k = rng.choice(kinds)
  if k == 'x2d_shared':      # X2D([f]*n): the same scalar function object in every slot
    return {'k': 'x2d', 'fs': [gen_scalar(rng, min(lb), max(hb) if max(hb) > min(lb) else min(lb) + 1, rng.choice(['hlq1', 'abc1', 'poly1', 'poly1']))], 'shared': n}
  if k == 'sum_shared':      # SumFunction([g]*m)
    return {'k': 'sum', 'fs': [gen_fnx(rng, n, lb, hb, 2, allow_numeric)], 'shared': rng.randint(2, 6)}
  if k == 'sumW':            # 5-6 different summands
    return {'k': 'sum', 'fs': [gen_fnx(rng, n, lb, hb, 2, allow_numeric) for _ in range(rng.randint(5, 6))]}
  if k in ('rangesN', 'rangesN_shared'):
    if k == 'rangesN_shared':      # equal-length ranges served by ONE function object
      w = rng.choice([w_ for w_ in (1, 2, 3) if n // w_ >= 4] or [1])
      m = min(n // w, rng.randint(4, 6))
      cuts = [w*i for i in range(1, m)] + ([] if w*m == n else [w*m])
      g = gen_fnx(rng, w, [min(lb)]*w, [max(hb)]*w, 2, False)
      return {'k': 'rangesN', 'cuts': cuts, 'fs': [g], 'shared': m, 'tail': None if w*m == n else gen_fnx(rng, n - w*m, lb[w*m:], hb[w*m:], 2, False)}
    cuts = sorted(rng.sample(range(1, n), min(n - 1, rng.randint(3, 5))))
    pts = [0] + cuts + [n]
    return {'k': 'rangesN', 'cuts': cuts, 'fs': [gen_fnx(rng, b - a, lb[a:b], hb[a:b], 2, allow_numeric) for a, b in zip(pts[:-1], pts[1:])]}
  if k == 'x2d':
    mode = rng.choice(['hlq1', 'hlq1', 'abc1', 'poly1', 'hlq+abc', 'hlq+abc', 'any'])
    pick = {'hlq+abc': ['hlq1', 'abc1'], 'any': ['hlq1', 'abc1', 'poly1']}.get(mode, [mode])
    return {'k': 'x2d', 'fs': [gen_scalar(rng, lb[i], hb[i], rng.choice(pick)) for i in range(n)]}
  if k == 'poly1d':
    return {'k': 'poly1d', 'cs': gen_poly_cs(rng)}
  if k == 'inner':
    lo, hi = sum(lb, F(0)), sum(hb, F(0))
    if rng.random() < 0.2:
      return {'k': 'inner', 'f': {'k': 'poly2d1', 'cs': gen_poly_cs(rng)}}
    return {'k': 'inner', 'f': gen_scalar(rng, lo, hi)}
  if k == 'abcx':
    vec = lambda f: [fs(f()) for _ in range(n)] if rng.random() < 0.5 else fs(f())
    return {'k': 'abcx', 'a': vec(lambda: rng.choice([F(0), dy(rng, 0, 1)])), 'b': [rng.choice(REAL_B) for _ in range(n)] if rng.random() < 0.5 else rng.choice(REAL_B),
            'c': vec(lambda: dy(rng, 0, 2)), 'xl': L(lb), 'xh': L(hb)}
  if k == 'entropy':
    return {'k': 'entropy', 'c': fs(dy(rng, Fraction(1, 4), 2))}
  if k == 'tvar':
    return {'k': 'tvar', 'c': fs(dy(rng, Fraction(1, 4), 2))}
  if k == 'cobb':
    return {'k': 'cobb', 'a': L([dy(rng, Fraction(1, 4), 3) for _ in range(n)]), 'c': fs(dy(rng, Fraction(1, 4), 2))}
  if k == 'sum0':
    return {'k': 'sum', 'fs': []}
  if k == 'sum1':
    return {'k': 'sum', 'fs': [gen_fnx(rng, n, lb, hb, depth + 1, allow_numeric)]}
  if k == 'sumN':
    return {'k': 'sum', 'fs': [gen_fnx(rng, n, lb, hb, depth + 1, allow_numeric) for _ in range(rng.randint(2, 3))]}
  if k == 'reflect':
    return {'k': 'reflect', 'f': gen_fnx(rng, n, [-x for x in hb], [-x for x in lb], depth + 1, allow_numeric)}
  if k == 'ranges':
    at = rng.randint(1, n - 1)
    return {'k': 'ranges', 'at': at, 'f': gen_fnx(rng, at, lb[:at], hb[:at], depth + 1, allow_numeric),
            'g': gen_fnx(rng, n - at, lb[at:], hb[at:], depth + 1, allow_numeric)}
  if k == 'base':
    f = gen.gen_fn(rng, n, lb, hb, 1)
    cvx = rng.random() < 0.5
    if cvx:
      from .props.c07 import convex_fn
      convex_fn(f, lb, hb)
    return {'k': 'base', 'f': f, 'cvx': cvx}
  raise AssertionError(k)


# ------------------------------------------------------------------ construction of the real objects
def _num(x):
  return C.pf(x)


def build_scalar(f):
  np = _np(); C.repo()
  from device_kit import functions as Fm
  k = f['k']
  if k == 'hlq1':
    return Fm.HLQuadraticCost(_num(f['pl']), _num(f['ph']), _num(f['xl']), _num(f['xh']))
  if k == 'abc1':
    return Fm.ABCCost(_num(f['a']), _num(f['b']), _num(f['c']), _num(f['xl']), _num(f['xh']))
  if k == 'poly1':
    return Fm.Poly1D(np.poly1d([_num(x) for x in f['cs']]))
  if k == 'poly2d1':
    return Fm.Poly2D([[_num(x) for x in f['cs']]])
  raise ValueError('unknown scalar function kind ' + k)


def build_fnx(f, n):
  np = _np(); C.repo()
  from device_kit import functions as Fm
  k = f['k']
  vec = lambda v: np.array([_num(x) for x in v]) if isinstance(v, list) else _num(v)
  if k == 'x2d':
    if f.get('shared'):
      g = build_scalar(f['fs'][0])
      return Fm.X2D([g]*int(f['shared']))      # the SAME object in every slot
    return Fm.X2D([build_scalar(g) for g in f['fs']])
  if k == 'poly1d':
    return Fm.Poly1D(np.poly1d([_num(x) for x in f['cs']]))
  if k == 'inner':
    return Fm.InnerSumFunction(build_scalar(f['f']))
  if k == 'abcx':
    return Fm.ABCCost(vec(f['a']), vec(f['b']), vec(f['c']), vec(f['xl']), vec(f['xh']))
  if k == 'entropy':
    return Fm.InformationEntropy(_num(f['c']))
  if k == 'tvar':
    return Fm.TemporalVariance(_num(f['c']))
  if k == 'cobb':
    return Fm.CobbDouglas(vec(f['a']), _num(f['c']))
  if k == 'sum':
    if f.get('shared'):
      g = build_fnx(f['fs'][0], n)
      return Fm.SumFunction([g]*int(f['shared']))
    return Fm.SumFunction([build_fnx(g, n) for g in f['fs']])
  if k == 'rangesN':
    pts = [0] + list(f['cuts']) + [n]
    spans = list(zip(pts[:-1], pts[1:]))
    if f.get('shared'):
      m = int(f['shared']); g = build_fnx(f['fs'][0], spans[0][1] - spans[0][0])
      fns = [g]*m + ([build_fnx(f['tail'], spans[-1][1] - spans[-1][0])] if f.get('tail') else [])
    else:
      fns = [build_fnx(g, b - a) for g, (a, b) in zip(f['fs'], spans)]
    return Fm.RangesFunction([(sp, fn) for sp, fn in zip(spans, fns)])
  if k == 'reflect':
    return Fm.ReflectedFunction(build_fnx(f['f'], n))
  if k == 'ranges':
    at = f['at']
    return Fm.RangesFunction([((0, at), build_fnx(f['f'], at)), ((at, n), build_fnx(f['g'], n - at))])
  if k == 'base':
    import copy
    return build.build_fn(build.annotate_fn(copy.deepcopy(f['f']), n))
  raise ValueError('unknown function kind ' + k)


def fnx_case_dev(rng, n, lb, hb, allow_numeric=True):
  """an ADevice description whose preference function is `prm['fx']` (built by build_adevice)."""
  same = len(set(lb)) == 1 and len(set(hb)) == 1
  return {'cls': 'ADevice', 'n': n, 'lb': L(lb), 'hb': L(hb), 'cbs': [], 'prm': {'fx': gen_fnx(rng, n, lb, hb, 0, allow_numeric)},
          '_py': {'bform': rng.choice((['pair'] if n != 2 else []) + ['table'] + (['scalar'] if same else [])), 'cform': None}}


def build_adevice(d, id=None):
  dk = C.repo()
  return dk.ADevice(id or 'adevice', d['n'], build.py_bounds(d), build.py_cbounds(d), f=build_fnx(d['prm']['fx'], d['n']))


# ------------------------------------------------------------------ facts about a description
def _children(f):
  k = f['k']
  if k in ('sum',):
    return list(f['fs'])
  if k == 'x2d':
    return list(f['fs'])
  if k in ('reflect', 'inner'):
    return [f['f']]
  if k == 'ranges':
    return [f['f'], f['g']]
  if k == 'rangesN':
    return list(f['fs']) + ([f['tail']] if f.get('tail') else [])
  return []


def kinds(f, acc=None):
  acc = set() if acc is None else acc
  acc.add(f['k'])
  if f['k'] == 'base':
    def walk(g):
      acc.add('base:' + g['k'])
      for x in ('f', 'g'):
        if x in g: walk(g[x])
    walk(f['f'])
  for g in _children(f):
    kinds(g, acc)
  return acc


def numeric(f):
  """some part is numerically differentiated by the source (numdifftools)."""
  return bool(kinds(f) & set(NUMERIC_KINDS))


def exponents(f):
  out = []
  if f['k'] in ('abc1', 'abcx'):
    out += [F(x) for x in (f['b'] if isinstance(f['b'], list) else [f['b']])]
  if f['k'] == 'base':
    def walk(g):
      if g['k'] == 'abc':
        out.extend(F(x) for x in (g['b'] if isinstance(g['b'], list) else [g['b']]))
      for x in ('f', 'g'):
        if x in g: walk(g[x])
    walk(f['f'])
  for g in _children(f):
    out += exponents(g)
  return out


def _poly_convex(cs, lo, hi):
  """PROVABLY convex on [lo, hi]: exact up to degree 4, the sufficient bound of c07.curvature_need beyond (a False answer only means
  positive semidefiniteness is not demanded)."""
  from .props.c07 import curvature_need
  need = curvature_need(cs, lo, hi)
  return True if need is None else F(cs[-3]) >= need


def wide_cbounds(rng, d):
  """CDevice2 with 4-5 contiguous cumulative ranges covering the horizon (vk.gen.gen_cbounds draws at most 3): in place."""
  n = d['n']
  if d['cls'] != 'CDevice2' or n < 4:
    return False
  lb = [F(x) for x in d['lb']]; hb = [F(x) for x in d['hb']]
  cuts = sorted(rng.sample(range(1, n), min(n - 1, rng.randint(3, 4))))
  pts = [0] + cuts + [n]
  cbs = []
  for a, b in zip(pts[:-1], pts[1:]):
    lo, hi = sum(lb[a:b], F(0)), sum(hb[a:b], F(0))
    w = hi - lo
    l = lo + w*Fraction(rng.randint(-2, 3), 8)
    h = max(l, lo) + (w if w > 0 else 1)*Fraction(rng.randint(1, 6), 8)
    if h <= l:
      h = l + 1
    cbs.append([fs(l), fs(h), a, b])
  d['cbs'] = cbs
  d['_py']['cform'] = '4tuples'
  return True


def rich_coeffs(rng, n, lb, hb, convex=False):
  """GDevice cost_coeffs beyond what vk.gen.gen_leaf draws (degree <= 3, non-negative): degree 4-5, signed lower-order coefficients,
  one curve or one per slot.  `convex`: repaired to be convex in the generated quantity q = -s over [-hb, -lb]."""
  from .props.c07 import convexify
  def one(lo, hi):
    deg = rng.choice([2, 3, 4, 4, 5])
    c = [dy(rng, 0, 1)] + [dy(rng, -2, 2) for _ in range(deg)]
    return L(convexify(c, lo, hi, tight=rng.random() < 0.5) if convex else c)      # tight: convex only thanks to the leading terms
  if rng.random() < 0.5:
    return one(-max(hb), -min(lb))
  deg = rng.choice([3, 4, 5])
  rows = [[dy(rng, 0, 1)] + [dy(rng, -2, 2) for _ in range(deg)] for _ in range(n)]
  return [L(convexify(r, -hb[i], -lb[i], tight=rng.random() < 0.5) if convex else r) for i, r in enumerate(rows)]


def _scalar_convex(f, lo, hi):
  k = f['k']
  if k == 'hlq1':
    return F(f['pl']) <= F(f['ph'])
  if k == 'abc1':
    return F(f['b']) >= 1 and F(f['c']) >= 0 and F(f['a']) >= 0
  if k in ('poly1', 'poly2d1'):
    return _poly_convex(f['cs'], lo, hi)
  return False


def convex(f, lb, hb):
  """the description lies in the documented-convex family over the box (then the Hessian must be PSD)."""
  k = f['k']
  if k == 'x2d':
    if f.get('shared'):
      return _scalar_convex(f['fs'][0], min(lb), max(hb))
    return all(_scalar_convex(g, lb[i], hb[i]) for i, g in enumerate(f['fs']))
  if k == 'rangesN':
    pts = [0] + list(f['cuts']) + [len(lb)]
    spans = list(zip(pts[:-1], pts[1:]))
    if f.get('shared'):
      m = int(f['shared'])
      return all(convex(f['fs'][0], lb[a:b], hb[a:b]) for a, b in spans[:m]) and (not f.get('tail') or convex(f['tail'], lb[spans[-1][0]:], hb[spans[-1][0]:]))
    return all(convex(g, lb[a:b], hb[a:b]) for g, (a, b) in zip(f['fs'], spans))
  if k == 'poly1d':
    return _poly_convex(f['cs'], min(lb), max(hb))
  if k == 'inner':
    return _scalar_convex(f['f'], sum(lb, F(0)), sum(hb, F(0)))
  if k == 'abcx':
    g = lambda v: [F(x) for x in (v if isinstance(v, list) else [v])]
    return all(b >= 1 for b in g(f['b'])) and all(c >= 0 for c in g(f['c'])) and all(a >= 0 for a in g(f['a']))
  if k == 'sum':
    return all(convex(g, lb, hb) for g in f['fs'])
  if k == 'reflect':
    return convex(f['f'], [-x for x in hb], [-x for x in lb])
  if k == 'ranges':
    at = f['at']
    return convex(f['f'], lb[:at], hb[:at]) and convex(f['g'], lb[at:], hb[at:])
  if k == 'base':
    return bool(f.get('cvx')) and 'demand' not in {x[5:] for x in kinds(f) if x.startswith('base:')}
  return False     # entropy / temporal variance / Cobb-Douglas: no convexity documented


def kink_free(f, s, margin=Fraction(1, 4)):
  """the flow `s` (Fractions) keeps clear of the kinks / singularities of the description:
  numerically differentiated parts need every |s_i| > margin (|r| kink, r ** alpha, weights summing to 0);
  a DemandFunction inside a `base` part needs a unique maximum."""
  k = f['k']
  if k in NUMERIC_KINDS:
    return all(abs(x) > margin for x in s) and abs(sum(s, F(0))) > margin
  if k == 'sum':
    return all(kink_free(g, s, margin) for g in f['fs'])
  if k == 'reflect':
    return kink_free(f['f'], [-x for x in s], margin)
  if k == 'ranges':
    at = f['at']
    return kink_free(f['f'], s[:at], margin) and kink_free(f['g'], s[at:], margin)
  if k == 'rangesN':
    pts = [0] + list(f['cuts']) + [len(s)]
    spans = list(zip(pts[:-1], pts[1:]))
    if f.get('shared'):
      m = int(f['shared'])
      return all(kink_free(f['fs'][0], s[a:b], margin) for a, b in spans[:m]) and (not f.get('tail') or kink_free(f['tail'], s[spans[-1][0]:], margin))
    return all(kink_free(g, s[a:b], margin) for g, (a, b) in zip(f['fs'], spans))
  if k == 'base':
    if 'base:demand' in kinds(f):
      srt = sorted(s)
      return all(b - a > Fraction(1, 100) for a, b in zip(srt, srt[1:]))
    return True
  return True
