"""Preference functions of device_kit/functions.py that the Lean `Fn` embedding has NO constructor for
(oracle-only: there is no model side, hence no T2 op for these descriptions).

`vk.gen.gen_fn` / `vk.build.build_fn` cover NullFunction, SumFunction (>= 2 parts), ReflectedFunction, Poly2D,
Poly2DOffset, HLQuadraticCost (vector), X2D([HLQuadraticCost]) (flag), ABCCost (integer exponents),
InnerSumFunction(HLQuadraticCost), RangesFunction, DemandFunction.  This module adds, description-first
(JSON-serialisable, exact dyadic rationals as strings, so replay files rebuild the same objects):

  {'k': 'x2d', 'fs': [scalar, ...]}      X2D of n scalar functions; scalar is one of
        {'k': 'hlq1', 'pl', 'ph', 'xl', 'xh'}        HLQuadraticCost with scalar parameters
        {'k': 'abc1', 'a', 'b', 'c', 'xl', 'xh'}     ABCCost with scalar parameters (any real exponent b > 0)
        {'k': 'poly1', 'cs': [...]}                  Poly1D(np.poly1d(cs))
  {'k': 'poly1d', 'cs': [...]}           Poly1D over the whole vector (sum of one polynomial over the slots)
  {'k': 'inner', 'f': scalar | {'k': 'poly2d1', 'cs': [...]}}   InnerSumFunction of a scalar outer function
        (np.poly1d itself is NOT a valid outer function: it has no `hess` and its `deriv(m)` means "m-th derivative")
  {'k': 'abcx', 'a', 'b', 'c', 'xl', 'xh'}   ABCCost with vector parameters and real (non-integer) exponents
  {'k': 'entropy', 'c'} / {'k': 'tvar', 'c'} / {'k': 'cobb', 'a': [...], 'c'}
        InformationEntropy / TemporalVariance / CobbDouglas: deriv / hess are numdifftools output ("numeric")
  {'k': 'sum', 'fs': [...]}              SumFunction of 0, 1 or more parts (parts: any description here)
  {'k': 'reflect', 'f': ...}             ReflectedFunction of a description here
  {'k': 'ranges', 'at': k, 'f': ..., 'g': ...}   RangesFunction([((0,k), f), ((k,n), g)])
  {'k': 'base', 'f': <gen.gen_fn description>, 'cvx': bool}   anything vk.gen.gen_fn builds

Public: gen_fnx, build_fnx, build_adevice, fnx_case_dev, numeric, exponents, convex, kink_free, kinds."""
from fractions import Fraction
from . import common as C, gen, build
from .common import F, fs, dy

L = lambda v: [fs(x) for x in v]
NUMERIC_KINDS = ('entropy', 'tvar', 'cobb')
REAL_B = ['1', '2', '2', '3', '3/2', '5/2', '5/4', '1/2', '65/64']


def _np():
  import numpy
  return numpy


# ------------------------------------------------------------------ generation
def gen_poly_cs(rng, maxdeg=3):
  deg = rng.randint(0, maxdeg)
  return L([dy(rng, 0 if j == 0 else -2, 2) for j in range(deg + 1)])


def gen_scalar(rng, lo, hi, kind=None):
  """a scalar function on [lo, hi] (lo == hi: zero-width, the kernels return the int literal 0 there)."""
  kind = kind or rng.choice(['hlq1', 'abc1', 'poly1'])
  if kind == 'hlq1':
    pl = dy(rng, -3, 0); q = rng.random()
    ph = pl if q < 0.15 else dy(rng, pl, 0)
    return {'k': 'hlq1', 'pl': fs(pl), 'ph': fs(ph), 'xl': fs(lo), 'xh': fs(hi)}
  if kind == 'abc1':
    return {'k': 'abc1', 'a': fs(rng.choice([F(0), F(0), dy(rng, 0, 1), F(1)])), 'b': rng.choice(REAL_B), 'c': fs(dy(rng, 0, 2)),
            'xl': fs(lo), 'xh': fs(hi)}
  if kind == 'poly1':
    return {'k': 'poly1', 'cs': gen_poly_cs(rng)}
  raise ValueError(kind)


def gen_fnx(rng, n, lb, hb, depth=0, allow_numeric=True):
  """a description of a function of n variables over the box [lb, hb] (lists of Fractions)."""
  positive = all(x > 0 for x in lb)
  kinds = ['x2d', 'x2d', 'x2d', 'poly1d', 'inner', 'inner', 'abcx', 'sum0', 'sum1']
  if positive and allow_numeric:
    kinds += ['entropy', 'tvar', 'cobb'] * 2
  if depth < 2:
    kinds += ['sumN', 'reflect', 'base'] + (['ranges'] if n >= 2 else [])
  k = rng.choice(kinds)
  if k == 'x2d':
    mode = rng.choice(['hlq1', 'hlq1', 'abc1', 'poly1', 'hlq+abc', 'hlq+abc', 'any'])
    pick = {'hlq+abc': ['hlq1', 'abc1'], 'any': ['hlq1', 'abc1', 'poly1']}.get(mode, [mode])
    return {'k': 'x2d', 'fs': [gen_scalar(rng, lb[i], hb[i], rng.choice(pick)) for i in range(n)]}
  if k == 'poly1d':
    return {'k': 'poly1d', 'cs': gen_poly_cs(rng)}
  if k == 'inner':
    lo, hi = sum(lb, F(0)), sum(hb, F(0))
    if rng.random() < 0.2:
      return {'k': 'inner', 'f': {'k': 'poly2d1', 'cs': gen_poly_cs(rng)}}
    return {'k': 'inner', 'f': gen_scalar(rng, lo, hi)}
  if k == 'abcx':
    vec = lambda f: [fs(f()) for _ in range(n)] if rng.random() < 0.5 else fs(f())
    return {'k': 'abcx', 'a': vec(lambda: rng.choice([F(0), dy(rng, 0, 1)])), 'b': [rng.choice(REAL_B) for _ in range(n)] if rng.random() < 0.5 else rng.choice(REAL_B),
            'c': vec(lambda: dy(rng, 0, 2)), 'xl': L(lb), 'xh': L(hb)}
  if k == 'entropy':
    return {'k': 'entropy', 'c': fs(dy(rng, Fraction(1, 4), 2))}
  if k == 'tvar':
    return {'k': 'tvar', 'c': fs(dy(rng, Fraction(1, 4), 2))}
  if k == 'cobb':
    return {'k': 'cobb', 'a': L([dy(rng, Fraction(1, 4), 3) for _ in range(n)]), 'c': fs(dy(rng, Fraction(1, 4), 2))}
  if k == 'sum0':
    return {'k': 'sum', 'fs': []}
  if k == 'sum1':
    return {'k': 'sum', 'fs': [gen_fnx(rng, n, lb, hb, depth + 1, allow_numeric)]}
  if k == 'sumN':
    return {'k': 'sum', 'fs': [gen_fnx(rng, n, lb, hb, depth + 1, allow_numeric) for _ in range(rng.randint(2, 3))]}
  if k == 'reflect':
    return {'k': 'reflect', 'f': gen_fnx(rng, n, [-x for x in hb], [-x for x in lb], depth + 1, allow_numeric)}
  if k == 'ranges':
    at = rng.randint(1, n - 1)
    return {'k': 'ranges', 'at': at, 'f': gen_fnx(rng, at, lb[:at], hb[:at], depth + 1, allow_numeric),
            'g': gen_fnx(rng, n - at, lb[at:], hb[at:], depth + 1, allow_numeric)}
  if k == 'base':
    f = gen.gen_fn(rng, n, lb, hb, 1)
    cvx = rng.random() < 0.5
    if cvx:
      from .props.c07 import convex_fn
      convex_fn(f, lb, hb)
    return {'k': 'base', 'f': f, 'cvx': cvx}
  raise AssertionError(k)


# ------------------------------------------------------------------ construction of the real objects
def _num(x):
  return C.pf(x)


def build_scalar(f):
  np = _np(); C.repo()
  from device_kit import functions as Fm
  k = f['k']
  if k == 'hlq1':
    return Fm.HLQuadraticCost(_num(f['pl']), _num(f['ph']), _num(f['xl']), _num(f['xh']))
  if k == 'abc1':
    return Fm.ABCCost(_num(f['a']), _num(f['b']), _num(f['c']), _num(f['xl']), _num(f['xh']))
  if k == 'poly1':
    return Fm.Poly1D(np.poly1d([_num(x) for x in f['cs']]))
  if k == 'poly2d1':
    return Fm.Poly2D([[_num(x) for x in f['cs']]])
  raise ValueError('unknown scalar function kind ' + k)


def build_fnx(f, n):
  np = _np(); C.repo()
  from device_kit import functions as Fm
  k = f['k']
  vec = lambda v: np.array([_num(x) for x in v]) if isinstance(v, list) else _num(v)
  if k == 'x2d':
    return Fm.X2D([build_scalar(g) for g in f['fs']])
  if k == 'poly1d':
    return Fm.Poly1D(np.poly1d([_num(x) for x in f['cs']]))
  if k == 'inner':
    return Fm.InnerSumFunction(build_scalar(f['f']))
  if k == 'abcx':
    return Fm.ABCCost(vec(f['a']), vec(f['b']), vec(f['c']), vec(f['xl']), vec(f['xh']))
  if k == 'entropy':
    return Fm.InformationEntropy(_num(f['c']))
  if k == 'tvar':
    return Fm.TemporalVariance(_num(f['c']))
  if k == 'cobb':
    return Fm.CobbDouglas(vec(f['a']), _num(f['c']))
  if k == 'sum':
    return Fm.SumFunction([build_fnx(g, n) for g in f['fs']])
  if k == 'reflect':
    return Fm.ReflectedFunction(build_fnx(f['f'], n))
  if k == 'ranges':
    at = f['at']
    return Fm.RangesFunction([((0, at), build_fnx(f['f'], at)), ((at, n), build_fnx(f['g'], n - at))])
  if k == 'base':
    import copy
    return build.build_fn(build.annotate_fn(copy.deepcopy(f['f']), n))
  raise ValueError('unknown function kind ' + k)


def fnx_case_dev(rng, n, lb, hb, allow_numeric=True):
  """an ADevice description whose preference function is `prm['fx']` (built by build_adevice)."""
  same = len(set(lb)) == 1 and len(set(hb)) == 1
  return {'cls': 'ADevice', 'n': n, 'lb': L(lb), 'hb': L(hb), 'cbs': [], 'prm': {'fx': gen_fnx(rng, n, lb, hb, 0, allow_numeric)},
          '_py': {'bform': rng.choice((['pair'] if n != 2 else []) + ['table'] + (['scalar'] if same else [])), 'cform': None}}


def build_adevice(d, id=None):
  dk = C.repo()
  return dk.ADevice(id or 'adevice', d['n'], build.py_bounds(d), build.py_cbounds(d), f=build_fnx(d['prm']['fx'], d['n']))


# ------------------------------------------------------------------ facts about a description
def _children(f):
  k = f['k']
  if k in ('sum',):
    return list(f['fs'])
  if k == 'x2d':
    return list(f['fs'])
  if k in ('reflect', 'inner'):
    return [f['f']]
  if k == 'ranges':
    return [f['f'], f['g']]
  return []


def kinds(f, acc=None):
  acc = set() if acc is None else acc
  acc.add(f['k'])
  if f['k'] == 'base':
    def walk(g):
      acc.add('base:' + g['k'])
      for x in ('f', 'g'):
        if x in g: walk(g[x])
    walk(f['f'])
  for g in _children(f):
    kinds(g, acc)
  return acc


def numeric(f):
  """some part is numerically differentiated by the source (numdifftools)."""
  return bool(kinds(f) & set(NUMERIC_KINDS))


def exponents(f):
  out = []
  if f['k'] in ('abc1', 'abcx'):
    out += [F(x) for x in (f['b'] if isinstance(f['b'], list) else [f['b']])]
  if f['k'] == 'base':
    def walk(g):
      if g['k'] == 'abc':
        out.extend(F(x) for x in (g['b'] if isinstance(g['b'], list) else [g['b']]))
      for x in ('f', 'g'):
        if x in g: walk(g[x])
    walk(f['f'])
  for g in _children(f):
    out += exponents(g)
  return out


def _poly_convex(cs, lo, hi):
  cs = [F(c) for c in cs]
  if len(cs) < 3:
    return True
  c3 = cs[-4] if len(cs) >= 4 else F(0)
  return all(6*c3*t + 2*cs[-3] >= 0 for t in (lo, hi))


def _scalar_convex(f, lo, hi):
  k = f['k']
  if k == 'hlq1':
    return F(f['pl']) <= F(f['ph'])
  if k == 'abc1':
    return F(f['b']) >= 1 and F(f['c']) >= 0 and F(f['a']) >= 0
  if k in ('poly1', 'poly2d1'):
    return _poly_convex(f['cs'], lo, hi)
  return False


def convex(f, lb, hb):
  """the description lies in the documented-convex family over the box (then the Hessian must be PSD)."""
  k = f['k']
  if k == 'x2d':
    return all(_scalar_convex(g, lb[i], hb[i]) for i, g in enumerate(f['fs']))
  if k == 'poly1d':
    return _poly_convex(f['cs'], min(lb), max(hb))
  if k == 'inner':
    return _scalar_convex(f['f'], sum(lb, F(0)), sum(hb, F(0)))
  if k == 'abcx':
    g = lambda v: [F(x) for x in (v if isinstance(v, list) else [v])]
    return all(b >= 1 for b in g(f['b'])) and all(c >= 0 for c in g(f['c'])) and all(a >= 0 for a in g(f['a']))
  if k == 'sum':
    return all(convex(g, lb, hb) for g in f['fs'])
  if k == 'reflect':
    return convex(f['f'], [-x for x in hb], [-x for x in lb])
  if k == 'ranges':
    at = f['at']
    return convex(f['f'], lb[:at], hb[:at]) and convex(f['g'], lb[at:], hb[at:])
  if k == 'base':
    return bool(f.get('cvx')) and 'demand' not in {x[5:] for x in kinds(f) if x.startswith('base:')}
  return False     # entropy / temporal variance / Cobb-Douglas: no convexity documented


def kink_free(f, s, margin=Fraction(1, 4)):
  """the flow `s` (Fractions) keeps clear of the kinks / singularities of the description:
  numerically differentiated parts need every |s_i| > margin (|r| kink, r ** alpha, weights summing to 0);
  a DemandFunction inside a `base` part needs a unique maximum."""
  k = f['k']
  if k in NUMERIC_KINDS:
    return all(abs(x) > margin for x in s) and abs(sum(s, F(0))) > margin
  if k == 'sum':
    return all(kink_free(g, s, margin) for g in f['fs'])
  if k == 'reflect':
    return kink_free(f['f'], [-x for x in s], margin)
  if k == 'ranges':
    at = f['at']
    return kink_free(f['f'], s[:at], margin) and kink_free(f['g'], s[at:], margin)
  if k == 'base':
    if 'base:demand' in kinds(f):
      srt = sorted(s)
      return all(b - a > Fraction(1, 100) for a, b in zip(srt, srt[1:]))
    return True
  return True
