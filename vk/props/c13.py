"""C13 — row labelling: map() pairs each flow row with the leaf that owns it."""
import os, re, json, copy
from fractions import Fraction
from .. import common as C, gen, build
from .. import gen_treex as X
from ..check import Prop, Op
short, close = X.short, X.close

FIND_THEOREMS = ['findLabels_mem', 'findLabels_sorted', 'findLabels_head_least', 'findLabels_row_lt', 'findLabels_owner', 'getCandidates_mem']
THEOREMS = ['labels_length', 'label_get', 'mapRows_get', 'row_owner', 'row_owner_unique', 'ofLeaf_labels', 'ofMF_labels']


def labels_of(t, pre=''):
  """labels straight from the description (used only to decide non-triviality / duplicates)."""
  if t['k'] == 'leaf':
    return [pre + t['id']]
  if t['k'] == 'mf':
    return [pre + t['id'] + '.' + f for f in t['flows']]
  out = []
  for c in t['ch']:
    out += labels_of(c, pre + t['id'] + '.')
  return out


def make_duplicate(rng, t):
  """give two sibling blocks the same id (DeviceSet accepts that). Returns True when done."""
  nodes = []
  def walk(x):
    if x['k'] == 'node':
      if sum(c['k'] != 'node' for c in x['ch']) >= 2:
        nodes.append(x)
      for c in x['ch']:
        walk(c)
  walk(t)
  if not nodes:
    return False
  nd = rng.choice(nodes)
  a, b = rng.sample([c for c in nd['ch'] if c['k'] != 'node'], 2)
  b['id'] = a['id']
  return True


SPECIAL = ['+x', '(1)', '[2]', '+', '(a)b', '[0]x', '+(b)', ']', '(', '[a-z]']


def decorate_ids(rng, t, rate=0.35):
  """leaf / wrapped-device ids with characters that Device accepts and that are special in regular
  expressions: + ( ) [ ]   (DeviceSet ids stay [a-z0-9_-]). Ids stay unique (the counter stays inside)."""
  k = 0
  for b in gen.tree_leaves(t):
    if rng.random() < rate:
      b['id'] = b['id'] + rng.choice(SPECIAL); k += 1
  return k


def mix_case(rng, t, rate=0.4):
  """ids are accepted case-insensitively ((?i) in both id patterns) and must come back exactly: upper-case some letters of
  set, leaf, wrapped-device and conduit ids. Returns the number of ids changed."""
  k = [0]
  def up(s_):
    r = ''.join(c.upper() if c.isalpha() and rng.random() < 0.5 else c for c in s_)
    k[0] += r != s_
    return r
  def walk(x, top):
    if rng.random() < rate and not (top and x['k'] != 'node'):
      x['id'] = up(x['id'])
    if x['k'] == 'mf' and rng.random() < rate/2:
      fl = [up(f) for f in x['flows']]
      if len(set(fl)) == len(fl):
        x['flows'] = fl
    for c in x.get('ch', []):
      walk(c, False)
  walk(t, True)
  return k[0]


def case_sibling(rng, t):
  """two siblings whose ids differ only in case (`Load` next to `load`): distinct devices, distinct labels. The variant
  is placed before the original most of the time (a case-blind lookup then finds the wrong one first)."""
  cands = []
  def walk(x):
    if x['k'] != 'node':
      return
    for j, c in enumerate(x['ch']):
      if c['k'] == 'leaf' and c['id'].swapcase() != c['id']:
        cands.append((x, j))
      walk(c)
  walk(t)
  if not cands:
    return False
  x, j = rng.choice(cands)
  new_id = x['ch'][j]['id'].swapcase() if rng.random() < 0.5 else (x['ch'][j]['id'].upper() if x['ch'][j]['id'].upper() != x['ch'][j]['id'] else x['ch'][j]['id'].lower())
  if any(c['id'] == new_id for c in x['ch']):
    return False
  sib = [i for i, c in enumerate(x['ch']) if c['k'] == 'leaf' and i != j]
  before = [i for i in sib if i < j]
  if before and rng.random() < 0.8:
    x['ch'][rng.choice(before)]['id'] = new_id
  elif len(x['ch']) < 3 or not sib:
    leaf = copy.deepcopy(x['ch'][j]); leaf['id'] = new_id
    x['ch'].insert(j if rng.random() < 0.8 else j + 1, leaf)
  else:
    x['ch'][rng.choice(sib)]['id'] = new_id
  return True


def _leaf(rng, tier, id, n):
  return {'k': 'leaf', 'id': id, 'dev': gen.gen_leaf(rng, tier, ['Device', 'CDevice', 'IDevice2', 'PVDevice'], n=n)}


def deep_chain(rng, tier, depth, n=2):
  """a chain of `depth` nested sets (far deeper than the random trees) with leaves hanging off several levels and two
  leaves at the bottom."""
  t = {'k': 'node', 'id': 'd%d' % depth, 'sb': None, 'ch': [_leaf(rng, tier, 'x', n), _leaf(rng, tier, 'y', n)], 'sub': False}
  for lvl in range(depth - 1, 0, -1):
    kids = [t]
    if lvl % 3 == 0:
      kids = [_leaf(rng, tier, 'k%d' % lvl, n)] + kids
    if lvl % 2 == 1:
      kids = kids + [_leaf(rng, tier, 'l%d' % lvl, n)]
    t = {'k': 'node', 'id': 'root' if lvl == 1 else 'd%d' % lvl, 'sb': None, 'ch': kids, 'sub': False}
  return t, n


def wide_set(rng, tier, width, n=1):
  """one set with `width` leaves that all share the suffix `_e`, inserted in an order that is not the lexicographic
  order of their ids, next to a nested set with a few more."""
  nums = list(range(1, width + 1))
  rng.shuffle(nums)
  if nums == sorted(nums):
    nums.reverse()
  if nums[0] == 1:
    nums[0], nums[-1] = nums[-1], nums[0]
  kids = [_leaf(rng, tier, 'z%02d_e' % k, n) for k in nums]
  inner = {'k': 'node', 'id': 'in', 'sb': None, 'ch': [_leaf(rng, tier, 'q9_e', n), _leaf(rng, tier, 'q1_e', n)], 'sub': False}
  return {'k': 'node', 'id': 'root', 'sb': None, 'ch': [_leaf(rng, tier, 'first', n)] + kids[:width//2] + [inner] + kids[width//2:], 'sub': False}, n


class UserPair:
  """a minimal user-defined composite: what leaf_devices() documents as the discriminator is support for iteration
  (its children are iterated and their `.id` read); a parent DeviceSet additionally reads len() and .shape."""
  def __init__(self, id, kids):
    self.id = id; self.kids = kids
  def __len__(self):
    return len(self.kids[0])
  def __iter__(self):
    return iter(self.kids)
  @property
  def shape(self):
    return (sum(int(k.shape[0]) for k in self.kids), len(self))


def separator_sibling(rng, t):
  """make a sibling leaf whose id is `<child id><sep><grandchild id>` with sep in '_' '-', next to a nested set /
  adaptor `<child id>` that has a leaf / conduit `<grandchild id>`: `root.load_e` and `root.load.e` both exist and
  differ only in the separator. Returns True when done."""
  cands = []
  def walk(x):
    if x['k'] != 'node':
      return
    for ci, c in enumerate(x['ch']):
      subs = list(c['flows']) if c['k'] == 'mf' else ([g['id'] for g in c['ch'] if g['k'] != 'node'] if c['k'] == 'node' else [])
      if subs:
        cands.append((x, ci, subs))
      walk(c)
  walk(t)
  if not cands:
    return False
  x, ci, subs = rng.choice(cands)
  new_id = x['ch'][ci]['id'] + rng.choice(['_', '_', '-']) + rng.choice(subs)
  if any(c['id'] == new_id for c in x['ch']):
    return False
  sib = [i for i, c in enumerate(x['ch']) if c['k'] == 'leaf' and i != ci]
  before = [i for i in sib if i < ci]
  if before and rng.random() < 0.8:
    x['ch'][rng.choice(before)]['id'] = new_id
  elif len(x['ch']) < 3 or not sib:
    leaf = copy.deepcopy(rng.choice([b for b in gen.tree_leaves(t) if b['k'] == 'leaf'] or [None]))
    if leaf is None:
      return False
    leaf['id'] = new_id
    x['ch'].insert(ci if rng.random() < 0.8 else ci + 1, leaf)
  else:
    x['ch'][rng.choice(sib)]['id'] = new_id
  return True


def lookup_names(labels):
  """names to look up: every dot-boundary suffix of every label, plus tails that start inside a component."""
  out = []
  for lab in labels:
    parts = lab.split('.')
    for j in range(len(parts)):
      out.append('.'.join(parts[j:]))
    for m in (1, 2, 3, 5, 8):
      if m < len(lab):
        out.append(lab[-m:])
  seen, res = set(), []
  for x in out:
    if x not in seen:
      seen.add(x); res.append(x)
  return res


class C13(Prop):
  id = 'C13'
  lean_module = 'DK.Props.C13'
  uses_t1 = True      # T1s regenerates DK/Gen/Sets/*.lean from the current source before the bridge is audited
  bridge_sets = ['DK.BridgeSets.DeviceSet_shape', 'DK.BridgeSets.DeviceSet_partition', 'DK.BridgeSets.DeviceSet_slices',
                 'DK.BridgeSets.BaseDevice_map', 'DK.BridgeSets.BaseDevice_map_tree']      # T1s: set-level glue (vk/translate_sets.py, DK/Lemmas/BridgeSets/*.lean)
  bridge = bridge_sets
  theorems = {'DK.Props.C13': ['DK.C13.' + t for t in THEOREMS],
              'DK.Props.C13find': ['DK.C13.' + t for t in FIND_THEOREMS],
              # map() is total, ordered, reads row k only; re-rooting a subtree only prepends the path
              'DK.Props.C13b': ['DK.C13.' + t for t in ('mapRows_length', 'mapRows_labels', 'mapRows_row', 'mapRows_total', 'mapRows_ext',
                                                       'labels_prefix', 'labelsL_prefix', 'labels_node')]}
  rule = ('random rooted ordered trees (depth <= 3 quick / 4 thorough, fan-out <= 3, nested sets, MFDeviceSet / TwoRatioMFDeviceSet adaptors with 1..3 '
          'conduits, SubBalancedDeviceSet nodes), horizon 1..6 (..10); once per run a chain of 7-8 nested sets, a set of 16-20 leaves sharing a suffix and a user-defined iterable composite; '
          'mixed-case ids and siblings differing only in case; leaf ids with the regex-special characters Device accepts (+ ( ) [ ]); sibling pairs '
          '`x_e` / `x.e` that differ only in the separator; flow matrices flat and shaped; non-trivial: some node has children with '
          'different row counts, at least one adaptor, all rows of the flow matrix pairwise different')
  sizes = {'quick': 400, 'thorough': 8000}
  assumptions = ['find(regexp) is checked by the oracle only (the model keeps the predicate abstract: Tree.findLabels; no regular expressions); get(name) is tied to '
                 'Tree.getCandidates (plain string suffix) by T2 ops treex.find / treex.get',
                 'oracle: labels and leaf objects recomputed by own recursion over .devices; row ownership observed by perturbing one row and '
                 'watching which block cost, evaluated on the rows map() returned, changes']
  dup_rate = float(os.environ.get('VERIF_C13_DUP', '0.05'))

  def __init__(self):
    self.stats = {'cases': 0, 'mf': 0, 'asymmetric': 0, 'distinct_rows': 0, 'duplicate_ids': 0, 'special_ids': 0, 'separator_siblings': 0, 'get_lookups': 0, 'get_ambiguous': 0, 'depth': {}, 'rows': {},
                  'ownership_rows_perturbed': 0, 'ownership_rows_observed': 0}

  def special_cases(self, rng, tier):
    """shapes the random trees never reach, once per run: a deep chain (7 or 8 nested sets), a wide set (16-20 leaves
    sharing a suffix, inserted out of lexicographic order) and a user-defined iterable composite (oracle only)."""
    out = []
    for t, n in [deep_chain(rng, tier, rng.choice([7, 8]))] + ([deep_chain(rng, tier, 8, 3)] if tier == 'thorough' else []) + [wide_set(rng, tier, rng.randint(16, 20))]:
      if rng.random() < 0.5:
        mix_case(rng, t, 0.3)
      out.append({'tree': t, 'n': n, 'S': X.perm_flow(gen.tree_rows(t), n), 'hist': True, 'shape_family': 'deep' if gen.tree_depth(t) > 4 else 'wide',
                  '_layout': {'mat': rng.choice(X.MAT_FORMS), 'flat': 'flat'}})
    out.append({'user_composite': True, 'n': rng.choice([1, 2, 3])})
    return out

  def cases(self, rng, tier, count):
    out = self.special_cases(rng, tier)
    for _ in range(max(0, count - len(out))):
      t, n = X.gen_shape_tree(rng, tier, want_mf=(True if rng.random() < 0.8 else None))
      if rng.random() < 0.12:
        # the root itself is an adaptor (or, rarely, a nested set taken as the root): `MFDeviceSet(dev, flows).map(...)`
        subs = [b for b in gen.tree_leaves(t) if b['k'] == 'mf' and len(b['flows']) >= 2] or [b for b in gen.tree_leaves(t) if b['k'] == 'mf']
        if subs:
          t = copy.deepcopy(rng.choice(subs))
      R = gen.tree_rows(t)
      q = rng.random()
      if q < 0.3:
        S = X.perm_flow(R, n)
      elif q < 0.8:
        S, seen = [], set()
        for r in range(R):
          row = tuple(C.dy(rng, -4, 4, 3) for _ in range(n))
          while row in seen:
            row = tuple(C.dy(rng, -4, 4, 3) for _ in range(n))
          seen.add(row); S.append([C.fs(x) for x in row])
      else:
        S = gen.tree_flow(rng, t, n)
      case = {'tree': t, 'n': n, 'S': S, 'hist': rng.random() < 0.5,
              '_layout': {'mat': rng.choice(X.MAT_FORMS), 'flat': rng.choice(['flat', 'flat-strided'])}}
      if rng.random() < 0.6 and mix_case(rng, t, rng.choice([0.3, 0.7])):
        case['mixed_case'] = True
      if t['k'] == 'node' and rng.random() < 0.45 and separator_sibling(rng, t):
        case['sep'] = True
        if len(case['S']) != gen.tree_rows(t):     # a leaf was inserted: one more row
          case['S'] = X.perm_flow(gen.tree_rows(t), n)
      if decorate_ids(rng, t, rng.choice([0.0, 0.3, 0.6])):
        case['special'] = True
      if t['k'] == 'node' and rng.random() < 0.35 and case_sibling(rng, t):
        case['case_sibling'] = True
        if len(case['S']) != gen.tree_rows(t):
          case['S'] = X.perm_flow(gen.tree_rows(t), n)
      if t['k'] == 'node' and rng.random() < self.dup_rate and make_duplicate(rng, t):
        ls = labels_of(t)
        if len(set(ls)) != len(ls):      # same sibling ids, same qualified ids (a leaf next to an adaptor of the same id stays distinct)
          case['dup'] = True
      out.append(case)
    return out

  def _note(self, case):
    t = case['tree']; st = self.stats
    st['mixed_case'] = st.get('mixed_case', 0) + bool(case.get('mixed_case')); st['case_siblings'] = st.get('case_siblings', 0) + bool(case.get('case_sibling'))
    st['cases'] += 1; st['mf'] += gen.tree_has(t, 'mf'); st['asymmetric'] += X.asymmetric(t); st['distinct_rows'] += X.distinct_rows(case['S'])
    st['duplicate_ids'] += bool(case.get('dup')); st['special_ids'] += bool(case.get('special')); st['separator_siblings'] += bool(case.get('sep'))
    for k, v in (('depth', gen.tree_depth(t)), ('rows', gen.tree_rows(t))):
      st[k][str(v)] = st[k].get(str(v), 0) + 1

  def extra_evidence(self):
    return {'input_distribution': self.stats}

  # ------------------------------------------------------------------ T2
  def ops(self, case):
    if case.get('user_composite'):
      return []            # oracle only: the model has no user-defined composites
    self._note(case)
    t, n = case['tree'], case['n']
    dev = build.build_tree(t)
    ops = [
      Op({'op': 'tree.rows', 'tree': t, 'n': n}, lambda: [len(dev.leaf_devices())], 1e-9, 'number of leaf entries vs rows'),
      Op({'op': 'treex.labels', 'tree': t, 'n': n}, lambda: X.enc_labels([k for k, _ in dev.leaf_devices()]), 1e-9, 'labels (character codes, in order)'),
    ]
    lay = case.get('_layout', {'mat': 'C', 'flat': 'flat'})
    for shp in ('mat', 'flat'):
      S = X.relayout(build.arr(case['S']), lay[shp])     # same logical matrix, another memory layout
      ops += [
        Op({'op': 'treex.map', 'tree': t, 'n': n, 'S': case['S']}, lambda S=S: X.enc_map(list(dev.map(S))), 1e-9, 'map (%s flow, %s layout): label codes + row' % (shp, lay[shp])),
        Op({'op': 'treex.map', 'tree': t, 'n': n, 'S': case['S']}, lambda S=S: X.enc_map([(l, r) for l, _, r in dev.mapDevices(S)]), 1e-9,
           'mapDevices (%s flow, %s layout): label codes + row' % (shp, lay[shp])),
      ]
    # lookup by qualified-id suffix: candidate rows (Tree.getCandidates) and the row get() returns (their head)
    names = lookup_names(labels_of(t))
    pick = names[::max(1, len(names)//5)][:5] + [x for x in names if '.' in x and not x.startswith(t['id'])][:1]
    for name in pick:
      ops.append(Op({'op': 'treex.find', 'tree': t, 'n': n, 'name': name},
                    lambda name=name: [i for i, (k, _) in enumerate(dev.leaf_devices()) if k.endswith(name)], 1e-9, 'rows whose label ends with %r' % name))
      if not case.get('dup'):
        def got_row(name=name):
          g = dev.get(name)
          return [i for i, (_, o) in enumerate(dev.leaf_devices()) if o is g][:1]
        ops.append(Op({'op': 'treex.get', 'tree': t, 'n': n, 'name': name}, got_row, 1e-9, 'row of the leaf get(%r) returns' % name))
    return ops

  # ------------------------------------------------------------------ oracle (implementation only)
  def _user_composite(self, case):
    """root[a, P[x, Q[y, z]], b] where P and Q are user-defined composites that only support what leaf_devices() documents
    (iteration over children with ids): one label per row, dot-joined, map pairs them with the rows, get/find return the leaves."""
    n_ = X.np(); dk = C.repo()
    n = case['n']
    a, x, y, z, b = [dk.Device(i, n, (0, 1)) for i in ('a', 'x', 'y', 'z', 'b')]
    root = dk.DeviceSet('root', [a, UserPair('P', [x, UserPair('Q', [y, z])]), b])
    exp = ['root.a', 'root.P.x', 'root.P.Q.y', 'root.P.Q.z', 'root.b']; objs = [a, x, y, z, b]
    self.stats['user_composite_cases'] = self.stats.get('user_composite_cases', 0) + 1
    def bad(detail):
      return [{'key': {'cls': 'BaseDevice', 'kind': 'user-composite'}, 'detail': detail + ' | tree: DeviceSet(root, [Device a, P[Device x, Q[Device y, Device z]], Device b]) with P, Q '
               'user-defined iterable composites (id, __len__, __iter__, shape), n=%d' % n}]
    try:
      L = root.leaf_devices()
      if [k for k, _ in L] != exp or any(o is not e for (_, o), e in zip(L, objs)) or len(L) != int(root.shape[0]):
        return bad('leaf_devices() gives %s for %d rows; iterating the composites gives %s' % ([k for k, _ in L], int(root.shape[0]), exp))
      S = n_.arange(5*n, dtype=float).reshape(5, n)
      M = list(root.map(S.reshape(-1)))
      if [k for k, _ in M] != exp or any(not (n_.array(r) == S[i]).all() for i, (_, r) in enumerate(M)):
        return bad('map() gives %s' % [(k, n_.array(r).tolist()) for k, r in M])
      if root.get('Q.z') is not z or root.get('P.x') is not x or [o for o in root.find('root\\.P\\..*')] != [x, y, z]:
        return bad('get/find do not return the leaves under the user-defined composites')
    except Exception as e:
      return bad('raised %s: %s' % (type(e).__name__, str(e)[:160]))
    return []

  def oracle(self, case):
    if case.get('user_composite'):
      return self._user_composite(case)
    t = case['tree']
    fails = self._check(build.build_tree(t), case, '', '')
    if not fails and case.get('hist'):
      dev = build.build_tree(t)
      note = self._history(dev, case)
      self.stats['history_cases'] = self.stats.get('history_cases', 0) + 1
      fails = self._check(dev, case, 'history-', note)
    return fails[:2]

  def _history(self, dev, case):
    """use the parts before the whole, and mutate what the library handed back: every leaf / wrapped device / conduit,
    then every adaptor and nested set (bottom-up), then the root are enumerated, mapped and looked up; each returned
    list is reversed and shortened, each dict(map) cleared. Nothing of this may change what is answered afterwards."""
    n_ = X.np()
    n = case['n']
    blocks = X.impl_blocks(dev)
    objs = []
    for off, k, blk, path in blocks:
      if X.is_adaptor(blk):
        objs += [blk.to_dict()['device']] + list(blk.devices) + [blk]
      else:
        objs.append(blk)
    objs += [node for _, _, node in reversed(X.impl_nodes(dev))]
    for o in objs:
      k = int(o.shape[0])
      x = n_.arange(k*n, dtype=float).reshape(k, n) + 1
      L = o.leaf_devices()
      list(o.map(x)); list(o.mapDevices(x.reshape(-1)))
      o.find('.*')
      if L:
        o.get(L[0][0])
      L.reverse()
      if L:
        L.pop()
      L.append(('zz', None))
      d = dict(o.map(x)); d.clear()
    return (' | after every leaf, wrapped device, conduit, adaptor and nested set (bottom-up) and then the root had been enumerated / mapped / looked up once '
            'and each list returned by leaf_devices() had been reversed, shortened and appended to by the caller')

  def _check(self, dev, case, kp, note):
    n_ = X.np()
    t, n = case['tree'], case['n']
    blocks = X.impl_blocks(dev)
    R = sum(k for _, k, _, _ in blocks)
    where = note + ' | n=%d tree=%s' % (n, short(t))
    fails = []

    def fail(kind, detail):
      fails.append({'key': {'cls': 'BaseDevice', 'kind': kp + kind}, 'detail': detail + where})

    # every nested set / adaptor taken on its own enumerates its own rows (labels relative to itself, same leaf objects)
    for sub in [node for _, _, node in X.impl_nodes(dev)[1:]] + [b[2] for b in blocks if X.is_adaptor(b[2]) and b[2] is not dev]:
      el = X.impl_labels(sub)
      eo = []
      for _, _, blk, _ in X.impl_blocks(sub):
        eo += list(blk.devices) if X.is_adaptor(blk) else [blk]
      try:
        Ls = sub.leaf_devices()
        Ms = list(sub.map(n_.arange(len(el)*n, dtype=float).reshape(len(el), n)))
      except Exception as e:
        fail('labels', 'leaf_devices()/map() of the nested %s %r raised %s: %s' % (type(sub).__name__, sub.id, type(e).__name__, str(e)[:120])); return fails
      if [k for k, _ in Ls] != el or len(Ls) != int(sub.shape[0]) or any(a[1] is not b for a, b in zip(Ls, eo)) or [k for k, _ in Ms] != el:
        fail('labels', 'the nested %s %r (%d rows) enumerates %s / maps %s; by recursion over .devices its rows are %s'
             % (type(sub).__name__, sub.id, int(sub.shape[0]), [k for k, _ in Ls], [k for k, _ in Ms], el))
        return fails

    # expected labels and leaf objects by own recursion
    exp_labels = X.impl_labels(dev)
    exp_objs = []
    for off, k, blk, path in blocks:
      exp_objs += list(blk.devices) if X.is_adaptor(blk) else [blk]
    L = dev.leaf_devices()
    got_labels = [k for k, _ in L]
    if len(L) != int(dev.shape[0]) or len(L) != R:
      fail('labels', 'leaf_devices() has %d entries for %d flow rows (%d by own recursion)' % (len(L), int(dev.shape[0]), R))
      return fails
    if got_labels != exp_labels:
      k = [a != b for a, b in zip(got_labels, exp_labels)].index(True)
      fail('labels', 'label of row %d is %r, expected %r (dot-joined ids from the root); all: %s' % (k, got_labels[k], exp_labels[k], got_labels))
      return fails
    for k, ((_, o), e) in enumerate(zip(L, exp_objs)):
      if o is not e:
        fail('labels', 'leaf_devices()[%d] (%s) is not the object found at that row by recursion over .devices' % (k, got_labels[k]))
        return fails

    # map / mapDevices: label k <-> row k
    S = build.arr(case['S']) if len(case['S']) == R else build.arr(X.perm_flow(R, n))
    for shp, Sx in X.flow_variants(S) + ([('as built (%s)' % S.dtype, S)] if S.dtype != float else []):
      keep = Sx.copy()
      try:
        M = list(dev.map(Sx)); MD = list(dev.mapDevices(Sx))
      except Exception as e:
        fail('map', 'map/mapDevices raised %s: %s on a flow of shape %s given in %s' % (type(e).__name__, str(e)[:120], S.shape, shp))
        return fails
      if not (Sx == keep).all():
        fail('map', 'map/mapDevices changed the caller\'s flow array (%s)' % shp); return fails
      if len(M) != R or len(MD) != R:
        fail('map', 'map yields %d and mapDevices %d entries for %d rows' % (len(M), len(MD), R)); return fails
      for k in range(R):
        for nm, lab, row in (('map', M[k][0], M[k][1]), ('mapDevices', MD[k][0], MD[k][2])):
          row = n_.array(row, dtype=float)
          if lab != exp_labels[k] or row.shape != (n,) or not (row == S[k]).all():
            fail('map', '%s entry %d is (%r, %s); expected (%r, %s) = row %d of S=%s given in %s' % (nm, k, lab, row.tolist(), exp_labels[k], S[k].tolist(), k, json.dumps(case['S']), shp))
            return fails
        if MD[k][1] is not exp_objs[k]:
          fail('map', 'mapDevices entry %d (%s) does not carry the leaf object of row %d' % (k, exp_labels[k], k)); return fails

    # the row map() returns for label k is the row the owner's cost reads: perturb row k only
    Pf = n_.array([[(r + 1)/4.0 + i/32.0 for i in range(n)] for r in range(R)])
    def block_costs(Sx):
      rows = [r for _, r in dev.map(Sx)]
      return n_.array([float(blk.cost(n_.vstack(rows[off:off + k]), Pf[off:off + k, :])) for off, k, blk, _ in blocks])
    try:
      base_total = float(dev.cost(S, Pf)); base = block_costs(S)
      for k in range(R):
        S2 = S.astype(float); S2[k, :] += n_.array([0.25 + i/16.0 for i in range(n)])
        tot = float(dev.cost(S2, Pf)); bc = block_costs(S2)
        if not (n_.isfinite(tot) and n_.isfinite(base_total) and n_.isfinite(bc).all() and n_.isfinite(base).all()):
          continue
        d_tot = tot - base_total; d = bc - base
        self.stats['ownership_rows_perturbed'] += 1; self.stats['ownership_rows_observed'] += bool(abs(d_tot) > 1e-9)
        owner = [j for j, b in enumerate(blocks) if b[0] <= k < b[0] + b[1]][0]
        scale = max(1.0, abs(tot), abs(base_total))
        others = [j for j in range(len(blocks)) if j != owner and abs(d[j]) > 1e-9*scale]
        if others or abs(d_tot - d[owner]) > 1e-8*scale:
          fail('ownership', 'perturbing row %d (label %s) changes the tree cost by %.10g; evaluated on the rows map() returns, its owner %s changes by %.10g%s'
               % (k, exp_labels[k], d_tot, '.'.join(blocks[owner][3]), d[owner], (' and other blocks change too: %s' % ['.'.join(blocks[j][3]) for j in others]) if others else ''))
          return fails
    except Exception as e:
      fail('ownership', 'evaluating the tree / block costs on the rows map() returned raised %s: %s' % (type(e).__name__, str(e)[:160]))
      return fails

    # get / find return those same leaf objects
    dup_labels = {l for l in exp_labels if exp_labels.count(l) > 1}
    def kind_for(rows):
      """a lookup failure is the known duplicate-id finding only when a row it should have returned carries a duplicated label."""
      return 'lookup-duplicate-id' if any(exp_labels[i] in dup_labels for i in rows) else 'lookup'
    def ids(objs): return [getattr(o, 'id', '?') for o in objs]
    def rows_of(objs): return [[i for i, o in enumerate(exp_objs) if o is x] for x in objs]

    def check_find(pattern, why):
      """find(pattern) == the leaf objects of the rows whose label re.match-es the pattern (anchored at the start), in row order."""
      hits = [i for i, l in enumerate(exp_labels) if re.match(pattern, l)]
      self.stats['find_lookups'] = self.stats.get('find_lookups', 0) + 1
      try:
        fnd = dev.find(pattern)
      except Exception as e:
        fail(kind_for(hits), 'find(%r) raised %s: %s (labels %s)' % (pattern, type(e).__name__, str(e)[:100], exp_labels)); return False
      if len(fnd) != len(hits) or any(a is not exp_objs[i] for a, i in zip(fnd, hits)):
        fail(kind_for(hits), 'find(%r) returns the leaves of rows %s %s; the rows whose label matches from its first character are %s %s (%s; all labels: %s)'
             % (pattern, rows_of(fnd), ids(fnd), hits, [exp_labels[i] for i in hits], why, exp_labels))
        return False
      return True

    ok = check_find('.*', 'every leaf')
    seen_pat = set()
    for k, lab in enumerate(exp_labels):
      if not ok:
        break
      parts = lab.split('.')
      pats = [(re.escape(lab) + '$', 'the full qualified id')]
      for j in range(len(parts)):
        suf = '.'.join(parts[j:])
        pats.append(('.*' + re.escape(suf) + '$', 'qualified-id suffix'))
        if j > 0:
          # not anchored at the start of the label: must NOT match (re.match semantics) unless the label itself starts like that
          pats.append((re.escape(suf) + '$', 'a path relative to an inner node: matches mid-label only'))
          pats.append((re.escape(parts[j]), 'an inner / leaf id alone: occurs mid-label only'))
      for pat, why in pats:
        if pat in seen_pat:
          continue
        seen_pat.add(pat)
        ok = check_find(pat, why)
        if not ok:
          break
    # get(name): plain qualified-id suffix (str.endswith), first match in leaf order -- names with '.', '+', '(', '[' ... included
    for name in lookup_names(exp_labels):
      if fails:
        break
      hits = [i for i, l in enumerate(exp_labels) if l.endswith(name)]
      self.stats['get_lookups'] += 1; self.stats['get_ambiguous'] += len(hits) > 1
      try:
        got = dev.get(name)
      except Exception as e:
        fail(kind_for(hits[:1]), 'get(%r) raised %s: %s although the label(s) of row(s) %s %s end with it (all labels: %s)'
             % (name, type(e).__name__, str(e)[:80], hits, [exp_labels[i] for i in hits], exp_labels))
        break
      if got is not exp_objs[hits[0]]:
        where_got = [i for i, o in enumerate(exp_objs) if o is got]
        fail(kind_for(hits[:1]), 'get(%r) returns the leaf of row %s (%s); the first leaf whose qualified id ends with %r is row %d (%s) (all labels: %s)'
             % (name, where_got, [exp_labels[i] for i in where_got], name, hits[0], exp_labels[hits[0]], exp_labels))
    return fails[:2]

  def nontrivial(self, case):
    if case.get('user_composite'):
      return False
    t = case['tree']
    return X.asymmetric(t) and gen.tree_has(t, 'mf') and X.distinct_rows(case['S'])


PROP = C13()
