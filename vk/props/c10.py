"""C10 — every accepted device is usable: finite values, contract shapes, all in-bounds.

Two halves (DESIGN.md §4 C10).
(A) finite values: `lean/DK/Props/C10.lean` discharges the side-conditions T1 regenerates from
    functions.py (`Gen.*_defined`) — proof obligations, re-checked against the source on every run.
(B) shapes / no exception: numpy glue, observed.  T2 runs `usable.leaf.cost / .deriv / .hess`,
    `usable.leafcons`, `usable.tree.cost / .deriv`, `usable.treecons`, `usable.accept` on both sides and
    compares ONLY what C10 depends on: the number of entries (shape) and, per entry, definedness — the
    model's {1, undef} pattern against the implementation's {finite, non-finite / ZeroDivisionError}
    pattern (`defined`).  Values are never compared (they are tied by C01/C06/C14/C15), so a
    value-changing but usable edit leaves this tie intact.  The oracle IS the property (0-d finite cost —
    every shipped class returns a 0-d float64 —, R·n finite gradient, (n, n) finite Hessian, finite size-1
    constraint values for every constraint with or without a `jac`, R·n finite Jacobians, flat and shaped
    flows, no exception).  Constraint values are required to have size 1, not to be 0-d: SDevice's state-of-
    charge closures return a (1,) array for a device-shaped flow on the unchanged tree.

Which divisions / powers are covered by THEOREMS, and which are only observed:
  proved (Props/C10.lean)   every `/` and general `**` of the eight scalar kernels T1 translates — `ABCCost.s, q,
                            _cost, _deriv, _hess`, `HLQuadraticCost._cost, _deriv, _hess` — through `Gen.*_defined`
                            (IDevice, IDevice2, CDevice2, TDevice's `ABCCost(0, 2, c, t_min, t_optimal)`, and the
                            `hlq` / `abc` / `innerHlq` preference functions of ADevice); the `/len(self)` normalisation
                            of IDevice / IDevice2 / TDevice `costv` (`len_norm`); `e ** sign(r) = 1/e` and
                            `/self.capacity` of SDevice (`sdevice_divisors`); `/self.shape[0]` of `MFDeviceSet.project`
                            (`mf_conduits`).  The hypotheses are the acceptance predicates of Model/Accept.lean, tied to
                            the constructors by `usable.accept`.
  observed only (T2 at exact rationals with `undef`, and the oracle)
                            `utils.soc`, `utils.base_soc`, `utils.sustainment_matrix` / `power_matrix` (non-negative integer
                            powers of the sustainment, no division; modelled as `npow`), SDevice's `r**2` / `min(·,0)**2`,
                            `Poly2D` / `Poly2DOffset` / `poly1d` (Horner, no division), `DemandFunction`, `RangesFunction`,
                            `InnerSumFunction`, all set glue (reshape / vstack / zmm / tile), numdifftools.
  not modelled at all       `WindowDevice` (`np.average(weights=r)` divides by the flow sum: oracle only, corner
                            `window_zero_sum_flow`), `InformationEntropy`, `TemporalVariance`, `CobbDouglas` (not generated).

Case streams (all description-first, every random choice from the rng passed in):
  leaf    every shipped leaf class x n x validator-boundary parameters x zero-width slots (some / all)
          x flows on the bounds / interior x flat / device shape x scalar / vector price
  tree    DeviceSet / SubBalancedDeviceSet / MFDeviceSet / TwoRatioMFDeviceSet over such leaves
  accept  parameters on and next to every validator threshold: the model's acceptance
          predicate (the hypotheses of the theorems) against the real constructors
  raw     configurations the description language cannot express (oracle only): WindowDevice, length 0,
          the REJECTS probes (formerly accepted-but-unusable, now ValueError), and the
          KNOWN-BAD CORNERS: accepted-but-unusable configurations, one clearly named branch each,
          emitted deterministically on every run (see CORNERS).  `VERIF_C10_CORNERS=none` (or a
          comma list) switches the branches off / selects some; the random streams never enter a
          corner by themselves (`avoid_leaf_corner`, `avoid_tree_corner`).
Numerically differentiated Hessians (SDevice, TDevice) are evaluated for every n <= 6, and for n = 24 on
leaves in the thorough tier (`numeric_hess_ok`); trees containing them for n <= 6.
"""
import os, math, copy, random
from fractions import Fraction
from .. import common as C, gen, build, gen_fnx
from ..check import Prop, Op
from ..common import F, fs, dy, pf

NS = {'quick': [1, 2, 3, 4, 5, 6], 'thorough': [1, 2, 3, 4, 5, 6, 24, 31]}
LEAF_CLASSES = list(gen.LEAF_CLASSES)
NUMERIC_HESS = ('SDevice', 'TDevice')     # Hessian by numdifftools: n = 6 costs 0.04 s, n = 24 0.8 s (SDevice) / 0.06 s (TDevice)


def numeric_hess_ok(case, n, tree=False):
  """numerically differentiated Hessians are evaluated for every n <= 6, and for n = 24 on leaves in the thorough tier
  (`_hmax`, fixed at generation so that a replay evaluates the same operations)."""
  return n <= 6 or (not tree and n == 24 and case.get('_hmax', 6) >= 24)

# name -> what is accepted, and what then fails (one branch of the generator each)
CORNERS = {
  'abccost_deriv_q0_b_lt_1': 'ABCCost with a=0, 0<b<1 (IDevice; ADevice(f=ABCCost)): deriv/hess raise ZeroDivisionError (0.0 ** negative) at the upper bound of a non-degenerate slot',
  'abccost_hess_q0_b_lt_2': 'ABCCost with a=0, 1<b<2 (IDevice; ADevice(f=ABCCost)): hess raises ZeroDivisionError (0.0 ** (b-2)) at the upper bound (the linear b=1 is guarded since b7771c7)',
  'mf_idevice_sum_outside_box': 'MFDeviceSet(IDevice): conduit flows inside the conduit bounds (0, hb) whose sum leaves the wrapped device box [lb, hb] give q < 0 (non-integer b: complex power, TypeError) or q = 0 (a > 1 below lb: ZeroDivisionError)',
  'window_zero_sum_flow': 'WindowDevice: an in-bounds flow summing to zero (e.g. the lower bound 0) makes cost/deriv raise ZeroDivisionError (np.average weights)',
}

# configurations that used to be accepted-but-unusable and are now REJECTED by the constructors (fix commits daf94a5,
# 77b3fee, 5d29ff4, dde0a11, 67504ae): one probe each on every run asserts the ValueError; if one is accepted again,
# the property oracle runs on it and reports what then fails.
REJECTS = ['tworatio_ratios_none', 'cbound_end_beyond_horizon', 'cbound_negative_start', 'gdevice_2d_wrong_row_count',
           'cdevice2_vector_slopes', 'cdevice2_vector_slopes_multirange', 'cdevice2_ranges_not_covering']


def enabled_corners():
  v = os.environ.get('VERIF_C10_CORNERS', 'all').strip()
  if v in ('', 'all'):
    return list(CORNERS)
  if v == 'none':
    return []
  got = [x.strip() for x in v.split(',') if x.strip()]
  bad = [x for x in got if x not in CORNERS]
  assert not bad, 'unknown corner branch ' + ','.join(bad)
  return got


def np():
  import numpy
  return numpy


def L(v):
  return [fs(x) for x in v]


def vec(v, n):
  """scalar-or-vector protocol parameter -> list of n Fractions."""
  return [F(x) for x in v] if isinstance(v, list) else [F(v)] * n


# ---------------------------------------------------------------- boundary leaves
def set_bounds(rng, d, mode):
  """zero-width slots in some / all slots (equal low and high bound), keeping the class's sign rule."""
  n = d['n']
  lb = [F(x) for x in d['lb']]; hb = [F(x) for x in d['hb']]
  if mode == 'some':
    ks = rng.sample(range(n), rng.randint(1, max(1, n // 2)))
    for k in ks:
      hb[k] = lb[k]
  elif mode == 'all':
    hb = list(lb)
  elif mode == 'one_open' and n > 1:
    keep = rng.randrange(n)
    hb = [h if k == keep else l for k, (l, h) in enumerate(zip(lb, hb))]
  d['lb'], d['hb'] = L(lb), L(hb)
  py = d.setdefault('_py', {})
  forms = (['pair'] if n != 2 else []) + ['table'] + (['scalar'] if len(set(lb)) == 1 and len(set(hb)) == 1 else [])
  if py.get('bform') not in forms:
    py['bform'] = rng.choice(forms)
  return lb, hb


def regen_dependents(rng, d, lb, hb):
  """cumulative bounds and bound-dependent parameters after the bounds changed."""
  n, cls = d['n'], d['cls']
  py = d['_py']
  if cls == 'CDevice2':
    want = rng.random() < 0.75 or sum(lb, F(0)) == sum(hb, F(0))
  else:
    want = bool(d.get('cbs')) or (cls == 'TDevice' and rng.random() < 0.4)      # gen_leaf never gives a TDevice cbounds
  if want:
    cbs, form = gen.gen_cbounds(rng, n, lb, hb, multi_ok=True)
    if cls == 'CDevice2' and len(cbs) > 1:
      contiguous = all(cbs[i][3] == cbs[i + 1][2] for i in range(len(cbs) - 1)) and cbs[0][2] == 0 and cbs[-1][3] == n
      if not contiguous:
        cbs = cbs[:1]
    d['cbs'] = [[fs(c[0]), fs(c[1]), c[2], c[3]] for c in cbs]
    py['cform'] = form if len(cbs) == 1 and cbs[0][2] == 0 and cbs[0][3] == n else '4tuples'
  elif cls == 'CDevice2':
    d['cbs'] = [[fs(sum(lb, F(0))), fs(sum(hb, F(0))), 0, n]]
    py['cform'] = None
  else:
    d['cbs'] = []; py['cform'] = None
  if cls == 'ADevice' and 'f' in d['prm']:
    d['prm']['f'] = gen.gen_fn(rng, n, lb, hb)


def boundary_params(rng, d):
  """push the class parameters onto validator thresholds (equal slopes, zero coefficients, b = 1,
  a = 0 and a = 1, c = 0, efficiency / sustainment = 1, t_range = 0, 1-D and 2-D coefficients…)."""
  n, cls, p = d['n'], d['cls'], d['prm']
  py = d['_py']
  if cls == 'CDevice':
    p['a'] = rng.choice(['0', '0', p['a']]); p['b'] = rng.choice(['0', p['b']])
  elif cls == 'CDevice2':
    pl = dy(rng, -3, 0)
    p['p_l'], p['p_h'] = rng.choice([(fs(pl), fs(pl)), ('0', '0'), (fs(pl), '0'), (p['p_l'], p['p_h'])])
  elif cls == 'IDevice2':
    pls = [dy(rng, -3, 0) for _ in range(n)]
    r = rng.random()
    if r < 0.25:
      p['p_l'], p['p_h'] = fs(pls[0]), fs(pls[0])                       # equal slopes, scalar
    elif r < 0.45:
      p['p_l'], p['p_h'] = '0', '0'
    elif r < 0.7:                                                        # equal slopes in some slots, vector
      phs = [x if rng.random() < 0.5 else dy(rng, x, 0) for x in pls]
      p['p_l'], p['p_h'] = L(pls), L(phs)
    elif r < 0.85:
      p['p_l'], p['p_h'] = L(pls), L(pls)
  elif cls == 'IDevice':
    av = lambda: rng.choice([F(0), F(0), F(1), Fraction(1, 2), F(2)])
    cv = lambda: rng.choice([F(0), F(1), dy(rng, 0, 2)])
    p['a'] = gen.svec(rng, n, av)
    p['c'] = gen.svec(rng, n, cv)
    p['b'] = str(rng.choice([1, 1, 2, 3])) if rng.random() < 0.6 else [str(rng.choice([1, 2, 3])) for _ in range(n)]
  elif cls == 'GDevice':
    deg = rng.randint(0, 3)
    def row():
      c = [dy(rng, 0, 2) for _ in range(deg + 1)]
      q = rng.random()
      if q < 0.2: c = [F(0)] * (deg + 1)
      elif q < 0.4: c[0] = F(0)
      return L(c)
    p['cost_coeffs'] = row() if rng.random() < 0.5 else [row() for _ in range(n)]
    py.pop('no_coeffs', None)
    if rng.random() < 0.2:
      p['cost_coeffs'] = []; py['no_coeffs'] = True           # no cost_coeffs argument: the zero polynomial (28eaee4)
  elif cls == 'SDevice':
    for k, vals in (('efficiency', ['1', '1', '1/2']), ('sustainment', ['1', '1', '3/4']), ('damage_depth', ['0', '1', '1/2']),
                    ('start', ['0', '1', '1/2']), ('reserve', ['0', '1', '1/4']), ('c3', ['0', '1']), ('capacity', ['1/4', '1', '8'])):
      if rng.random() < 0.6:
        p[k] = rng.choice(vals)
    q = rng.random()
    if q < 0.25: p['c1'], p['c2'] = '0', '0'
    elif q < 0.45: p['c1'], p['c2'] = '1', '1'           # c1 == c2 > 0 is accepted
    elif q < 0.55: p['c1'], p['c2'] = '0', '1'           # accepted as well (D19)
    if rng.random() < 0.45:
      p['rate_clip'] = rng.choice([['1', '1'], ['1', None], [None, '2'], ['3/2', '1']])
  elif cls == 'TDevice':
    if rng.random() < 0.4: p['t_range'] = '0'
    if rng.random() < 0.5: p['sustainment'] = rng.choice(['0', '1'])
    if rng.random() < 0.4: p['c'] = rng.choice(['0', [rng.choice(['0', '1']) for _ in range(n)]])
    if rng.random() < 0.3: p['efficiency'] = fs(-abs(F(p['efficiency'])))
  elif cls == 'ADevice':
    q = rng.random()
    if q < 0.2:
      p['f'] = {'k': 'null'}; py['f_form'] = 'default'        # no f argument at all
    elif q < 0.4:
      p['f'] = {'k': 'null'}; py['f_form'] = 'empty_sum'      # SumFunction([])
    elif q < 0.5:
      p['f'] = {'k': 'null'}


def boundary_leaf(rng, tier, cls, n, in_mf=False):
  d = gen.gen_leaf(rng, tier, [cls], n=n)
  if in_mf:
    lb = [F(x) for x in d['lb']]; hb = [F(x) for x in d['hb']]
    if any(x < 0 for x in lb) and any(x > 0 for x in hb):
      d = gen.gen_leaf(rng, tier, ['IDevice2'], n=n)
  mode = rng.choice(['asis', 'asis', 'some', 'some', 'all', 'one_open'])
  if d['cls'] in ('SDevice',) and mode != 'asis' and rng.random() < 0.5:
    mode = 'asis'
  lb, hb = set_bounds(rng, d, mode)
  regen_dependents(rng, d, lb, hb)
  if rng.random() < 0.75:
    boundary_params(rng, d)
  return d


def real_exponent_idevice(rng, n):
  """IDevice with non-integer exponents (outside the executable model: oracle only)."""
  d = gen.gen_leaf(rng, 'quick', ['IDevice'], n=n)
  p = d['prm']
  p['b'] = rng.choice(['5/2', '9/4', '3']) if rng.random() < 0.5 else [rng.choice(['2', '5/2', '7/2']) for _ in range(n)]
  if rng.random() < 0.5:
    p['a'] = gen.svec(rng, n, lambda: rng.choice([Fraction(1, 2), F(1), Fraction(1, 4)]))
    p['b'] = rng.choice(['1/2', '3/2', '1/4']) if rng.random() < 0.5 else [rng.choice(['1/2', '3/2', '5/4']) for _ in range(n)]
  return d


# ---------------------------------------------------------------- corners (exact, from the description)
def abc_uses(d, x):
  """every ABCCost kernel use of a leaf description with the sub-vector it sees: (a, b, xl, xh, x) as Fraction lists."""
  n = d['n']
  if d['cls'] == 'IDevice':
    p = d['prm']
    return [(vec(p['a'], n), vec(p['b'], n), [F(v) for v in d['lb']], [F(v) for v in d['hb']], list(x))]
  if d['cls'] != 'ADevice':
    return []
  out = []
  def walk(f, x):
    k = f['k']
    if k == 'abc':
      m = len(x)
      out.append((vec(f['a'], m), vec(f['b'], m), [F(v) for v in f['xl']], [F(v) for v in f['xh']], list(x)))
    elif k == 'add':
      walk(f['f'], x); walk(f['g'], x)
    elif k == 'reflect':
      walk(f['f'], [-v for v in x])
    elif k == 'append':
      walk(f['f'], x[:f['at']]); walk(f['g'], x[f['at']:])
  walk(d['prm']['f'], list(x))
  return out


def abc_corner_slots(d, x):
  """slots where ABCCost's base q = (1-s)a + s, s = (xh-x)/(xh-xl), makes a power undefined at the value `x`
  the kernel sees (Fractions): q = 0 with exponent b-1 < 0 (deriv) / b-2 < 0 (hess), or q < 0 with a
  non-integer exponent (complex).  Inside the box (a >= 0) q = 0 iff a = 0 and x = xh, and q < 0 never
  (DK.C10.abc_q_pos_iff); an MF adaptor can hand the wrapped device a column sum outside its box."""
  out = {'deriv': [], 'hess': [], 'complex': []}
  for a, b, xl, xh, xs in abc_uses(d, x):
    for k in range(len(xs)):
      lo, hi = xl[k], xh[k]
      if lo < hi:
        s = (hi - xs[k]) / (hi - lo)
        q = (1 - s) * a[k] + s
        if b[k] <= 0:
          continue                                  # not an accepted exponent: never a *known* corner
        if q == 0:
          if b[k] < 1: out['deriv'].append((k, hi))
          if b[k] < 2 and b[k] != 1: out['hess'].append((k, hi))      # `b == 1` returns 0 before the power
        elif q < 0 and b[k].denominator != 1:
          out['complex'].append((k, hi))
  return out


def leaf_corner(case, what):
  """name of the known-bad corner this leaf case sits in for operation `what`, or None."""
  d = case['dev']
  c = abc_corner_slots(d, [F(v) for v in case['s']])
  if c['deriv'] and what in ('deriv', 'hess'):
    return 'abccost_deriv_q0_b_lt_1'
  if c['hess'] and what == 'hess':
    return 'abccost_hess_q0_b_lt_2'
  return None


def has_abc_corner(d, x):
  c = abc_corner_slots(d, x)
  return bool(c['deriv'] or c['hess'] or c['complex'])


def avoid_leaf_corner(rng, case):
  """the random streams never sit in a corner: redraw the flow strictly inside the box."""
  d = case['dev']
  for _ in range(20):
    if not has_abc_corner(d, [F(v) for v in case['s']]):
      return
    case['s'] = gen.leaf_flow(rng, d, 'interior'); case['_flow'] = 'interior'
  raise AssertionError('could not leave the ABCCost corner')


def block_rows(t, S, n):
  """[(block description, [row lists as Fractions])] in row order."""
  out, r = [], 0
  for b in gen.tree_leaves(t):
    k = 1 if b['k'] == 'leaf' else len(b['flows'])
    out.append((b, r, k)); r += k
  return out


def tree_in_corner(case):
  """some block of the tree case hands an ABCCost kernel a corner value."""
  t, n = case['tree'], case['n']
  S = [[F(v) for v in row] for row in case['S']]
  for b, r, k in block_rows(t, S, n):
    x = [sum((S[r + j][i] for j in range(k)), F(0)) for i in range(n)]
    if has_abc_corner(b['dev'], x):
      return True
  return False


def avoid_tree_corner(rng, case):
  """redraw the flows (interior of the row bounds; MF conduits scaled so the sum is interior to the wrapped box)."""
  t, n = case['tree'], case['n']
  for attempt in range(20):
    if not tree_in_corner(case):
      return
    S = [[F(v) for v in row] for row in gen.tree_flow(rng, t, n, 'interior')]
    for b, r, k in block_rows(t, S, n):
      if b['k'] == 'mf' and abc_uses(b['dev'], [F(0)] * n):
        d = b['dev']
        x = gen.gen_flow(rng, [F(v) for v in d['lb']], [F(v) for v in d['hb']], 'interior')
        for j in range(k):
          S[r + j] = [v / k for v in x]
    case['S'] = [L(row) for row in S]; case['_flow'] = 'interior'
  raise AssertionError('could not leave the ABCCost corner')


# ---------------------------------------------------------------- features (non-triviality, from the description)
def leaf_features(d):
  n, cls, p = d['n'], d['cls'], d.get('prm', {})
  f = set()
  zw = [F(a) == F(b) for a, b in zip(d['lb'], d['hb'])]
  if all(zw): f.add('zero_width_all')
  elif any(zw): f.add('zero_width_some')
  if cls in ('CDevice2', 'IDevice2'):
    pl, ph = vec(p['p_l'], n), vec(p['p_h'], n)
    if any(x == y for x, y in zip(pl, ph)): f.add('equal_slopes')
    if any(y == 0 for y in ph): f.add('p_h=0')
    if isinstance(p['p_l'], list): f.add('vector_params')
  if cls == 'CDevice' and F(p['a']) == 0: f.add('a=0')
  if cls == 'IDevice':
    a, b, c = vec(p['a'], n), vec(p['b'], n), vec(p['c'], n)
    if any(x == 0 for x in a): f.add('a=0')
    if any(x == 1 for x in a): f.add('a=1')
    if any(x == 1 for x in b): f.add('b=1')
    if any(x == 0 for x in c): f.add('c=0')
    if any(x.denominator != 1 for x in b): f.add('real_b')
    if any(isinstance(p[k], list) for k in 'abc'): f.add('vector_params')
  if cls == 'GDevice':
    cc = p.get('cost_coeffs')
    if cc is not None and len(cc) == 0:
      f.add('no_coeffs')
    elif cc is not None:
      two = isinstance(cc[0], list)
      f.add('coeffs_2d' if two else 'coeffs_1d')
      rows = cc if two else [cc]
      if any(all(F(x) == 0 for x in r) for r in rows): f.add('zero_coeffs')
      if any(len(r) <= 2 for r in rows): f.add('degree<2')
  if cls == 'SDevice':
    if F(p['efficiency']) == 1: f.add('efficiency=1')
    if F(p['sustainment']) == 1: f.add('sustainment=1')
    if F(p['c1']) == 0 and F(p['c2']) == 0 and F(p['c3']) == 0: f.add('zero_coeffs')
    if F(p['c1']) == F(p['c2']) and F(p['c1']) > 0: f.add('c1=c2')
    if p.get('rate_clip'): f.add('rate_clip')
    for k in ('start', 'reserve', 'damage_depth'):
      if F(p[k]) in (0, 1): f.add(k + '@threshold')
  if cls == 'TDevice':
    if F(p['t_range']) == 0: f.add('t_range=0')
    if F(p['sustainment']) in (0, 1): f.add('sustainment@threshold')
    if any(x == 0 for x in vec(p['c'], n)): f.add('c=0')
  if cls == 'ADevice':
    ff = d.get('_py', {}).get('f_form')
    if ff: f.add('f_' + ff)
    elif p.get('f', {}).get('k') == 'null': f.add('f_null')
  if d.get('cbs'):
    f.add('cbounds')
  return f


def case_features(case):
  k = case['kind']
  if k in ('leaf', 'accept'):
    f = leaf_features(case['dev'])
    if k == 'leaf':
      f.add('flow_' + case['_flow'])
    return f
  if k == 'tree':
    f = set()
    for b in gen.tree_leaves(case['tree']):
      f |= leaf_features(b['dev'])
    return f
  return {'raw:' + case['what']}


# ---------------------------------------------------------------- building
def ival(v):
  """protocol string of an integer -> Python int."""
  q = Fraction(v)
  assert q.denominator == 1, 'integer-typed description with the non-integer %s' % v
  return int(q)


def ivec(v, as_list=False):
  """scalar-or-vector integer parameter -> int / integer ndarray (or a plain list of ints)."""
  if isinstance(v, list):
    return [ival(x) for x in v] if as_list else np().array([ival(x) for x in v], dtype=int)
  return ival(v)


def build_leaf_int(d, id=None):
  """the INTEGER-TYPED twin of build.build_leaf: every bound, cumulative bound and scalar / vector parameter is handed
  to the constructor as a Python int, a list of ints or an integer ndarray (`_py.int_typed`).  The description (and so
  the model's answer) is the same as for the float-typed device with these values."""
  n_ = np(); dk = C.repo()
  cls, n, p, py = d['cls'], d['n'], d.get('prm', {}), d.get('_py', {})
  id = id or cls.lower()
  lb = [ival(x) for x in d['lb']]; hb = [ival(x) for x in d['hb']]
  form = py.get('bform', 'pair')
  if form == 'scalar': b = (lb[0], hb[0])
  elif form == 'lists': b = (list(lb), list(hb))
  elif form == 'table': b = n_.stack((n_.array(lb, dtype=int), n_.array(hb, dtype=int)), axis=1)
  elif form == 'table_list': b = [[x, y] for x, y in zip(lb, hb)]
  else: b = (n_.array(lb, dtype=int), n_.array(hb, dtype=int))
  cb = None
  if d.get('cbs') and py.get('cform') is not None:
    cbs = [(ival(c[0]), ival(c[1]), int(c[2]), int(c[3])) for c in d['cbs']]
    cb = (cbs[0][0], cbs[0][1]) if py['cform'] == '2tuple' else cbs
  aslist = bool(py.get('vec_as_list'))
  if cls == 'Device': return dk.Device(id, n, b, cb)
  if cls == 'PVDevice': return dk.PVDevice(id, n, b, cb)
  if cls == 'CDevice': return dk.CDevice(id, n, b, cb, a=ival(p['a']), b=ival(p['b']))
  if cls == 'CDevice2': return dk.CDevice2(id, n, b, cb, p_l=ival(p['p_l']), p_h=ival(p['p_h']))
  if cls == 'IDevice': return dk.IDevice(id, n, b, cb, a=ivec(p['a'], aslist), b=ivec(p['b'], aslist), c=ivec(p['c'], aslist))
  if cls == 'IDevice2': return dk.IDevice2(id, n, b, cb, p_l=ivec(p['p_l'], aslist), p_h=ivec(p['p_h'], aslist))
  if cls == 'GDevice':
    if py.get('no_coeffs'): return dk.GDevice(id, n, b, cb)
    cc = p['cost_coeffs']
    cc = [[ival(x) for x in r] for r in cc] if isinstance(cc[0], list) else [ival(x) for x in cc]
    return dk.GDevice(id, n, b, cb, cost_coeffs=cc if aslist else n_.array(cc, dtype=int))
  if cls == 'SDevice':
    kw = {k: ival(v) for k, v in p.items() if k != 'rate_clip'}
    if 'rate_clip' in p:
      kw['rate_clip'] = tuple(None if x is None else ival(x) for x in p['rate_clip'])
    return dk.SDevice(id, n, b, cb, **kw)
  if cls == 'TDevice':
    te = [ival(x) for x in p['t_external']]
    return dk.TDevice(id, n, b, ival(p['sustainment']), ival(p['efficiency']), ival(p['t_init']), ival(p['t_optimal']), ival(p['t_range']),
                      te if aslist else n_.array(te, dtype=int), c=ivec(p['c'], aslist), cbounds=cb)
  if cls == 'ADevice':
    kw = {}
    ff = py.get('f_form')
    if ff == 'empty_sum':
      from device_kit import functions as Fm
      kw['f'] = Fm.SumFunction([])
    elif ff != 'default':
      kw['f'] = build.build_fn(build.annotate_fn(p['f'], n))
    if '_constraints' in d:
      kw['constraints'] = d['_constraints']
    return dk.ADevice(id, n, b, cb, **kw)
  raise ValueError('unknown class ' + cls)


def flow_of(case, key='s'):
  """the flow array of a case: float64, or an INTEGER-typed array for the integer family (`_int`)."""
  if case.get('_int'):
    v = case[key]
    return np().array([[ival(x) for x in r] for r in v] if isinstance(v[0], list) else [ival(x) for x in v], dtype=int)
  return build.arr(case[key])


def price_of(case, key='p'):
  p = case[key]
  if case.get('_int') and case.get('_pint'):
    return np().array(build.jf(p)).astype(int) if isinstance(p, list) else ival(p)
  return build.price(p)


def build_leaf10(d, id=None):
  """build.build_leaf plus the ADevice forms the description language flags privately."""
  if d.get('_py', {}).get('int_typed'):
    return build_leaf_int(d, id)
  ff = d.get('_py', {}).get('f_form')
  if d['cls'] == 'ADevice' and ff:
    dk = C.repo()
    from device_kit import functions as Fm
    b, cb = build.py_bounds(d), build.py_cbounds(d)
    kw = {} if ff == 'default' else {'f': Fm.SumFunction([])}
    if '_constraints' in d:
      kw['constraints'] = d['_constraints']
    return dk.ADevice(id or 'adevice', d['n'], b, cb, **kw)
  if d['cls'] == 'GDevice' and d.get('_py', {}).get('no_coeffs'):
    return C.repo().GDevice(id or 'gdevice', d['n'], build.py_bounds(d), build.py_cbounds(d))
  return build.build_leaf(d, id)


def build_tree10(t):
  """build.build_tree with build_leaf10 at the blocks."""
  dk = C.repo()
  if t['k'] in ('leaf', 'mf'):
    d = t['dev']
    if d['cls'] == 'ADevice' and 'ucons' in d:
      d = dict(d); d['_constraints'] = build.build_ucons(d['ucons'])
    dev = build_leaf10(d, t['id'])
    if t['k'] == 'leaf':
      return dev
    if 'ratios' in t and (t['ratios'] or t.get('_ratios_none')):
      r = None if t.get('_ratios_none') else [(ival(x) if t.get('_int') else pf(x)) for x in t['ratios']]
      return dk.TwoRatioMFDeviceSet(dev, list(t['flows']), r, t.get('ctype', 'eq'))
    return dk.MFDeviceSet(dev, list(t['flows']))
  kids = [build_tree10(c) for c in t['ch']]
  sb = None
  if t.get('sb') is not None:
    sb = np().array([[pf(a), pf(b)] for a, b in t['sb']])
    if t.get('_int'):
      sb = np().array([[ival(a), ival(b)] for a, b in t['sb']], dtype=int)
  if t.get('sub'):
    return dk.SubBalancedDeviceSet(t['id'], kids, sb, labels=list(t.get('labels', [])), constraint_type=t.get('ctype', 'eq'),
                                   sign=(ival(t.get('sign', '1')) if t.get('_int') else pf(t.get('sign', '1'))), apply_to_remaining=bool(t.get('rem', False)))
  return dk.DeviceSet(t['id'], kids, sb)


def build_raw(case):
  """oracle-only configurations -> (device, list of (name, flow array in device shape))."""
  dk = C.repo(); n_ = np()
  w, n = case['what'], case['n']
  A = lambda v: n_.array([pf(x) for x in v])
  if w == 'window':
    d = dk.WindowDevice('w', n, (A(case['lb']), A(case['hb'])) if n != 2 else n_.stack((A(case['lb']), A(case['hb'])), axis=1),
                        pf(case['w']), c=pf(case['c']))
  elif w == 'cdevice2_vector':
    cb = [(pf(c[0]), pf(c[1]), c[2], c[3]) for c in case['cbs']] if case['cbs'] else None
    d = dk.CDevice2('c', n, n_.stack((A(case['lb']), A(case['hb'])), axis=1), cb, p_l=A(case['p_l']), p_h=A(case['p_h']))
  elif w == 'cdevice2_ranges':
    cb = [(pf(c[0]), pf(c[1]), c[2], c[3]) for c in case['cbs']]
    d = dk.CDevice2('c', n, n_.stack((A(case['lb']), A(case['hb'])), axis=1), cb, p_l=pf(case['p_l']), p_h=pf(case['p_h']))
  elif w == 'gdevice':
    kw = {}
    if case.get('cost_coeffs') is not None:
      kw['cost_coeffs'] = [[pf(x) for x in r] for r in case['cost_coeffs']]
    d = dk.GDevice('g', n, n_.stack((A(case['lb']), A(case['hb'])), axis=1), None, **kw)
  elif w == 'device_cbound':
    cb = [(pf(c[0]), pf(c[1]), c[2], c[3]) for c in case['cbs']]
    d = dk.Device('d', n, n_.stack((A(case['lb']), A(case['hb'])), axis=1), cb)
  elif w == 'tworatio_none':
    inner = dk.Device('d', n, n_.stack((A(case['lb']), A(case['hb'])), axis=1))
    d = dk.TwoRatioMFDeviceSet(inner, ['e', 'h'], None)
  elif w == 'mf_idevice':
    inner = build.build_leaf(case['dev'], 'i')
    d = dk.MFDeviceSet(inner, list(case['flows']))
  elif w == 'fnx':
    d = gen_fnx.build_adevice(case['dev'], 'a')
  else:
    raise ValueError('unknown raw configuration ' + w)
  flows = [(it[0], n_.array(build.jf(it[1]), dtype=float).reshape(d.shape)) for it in case['flows_at']]
  return d, flows


# ---------------------------------------------------------------- the property, observed
def usable(dev, x_shaped, price, want_hess=True, flat_and_shaped=True, wanted=None, hess_flat=True):
  """The property itself on one device at one in-bounds flow: list of (kind, what, exc-or-None, message).
  `wanted`: the operations demanded (default all); `hess_flat=False`: the Hessian only for the device-shaped flow
  (one numdifftools call on a long horizon)."""
  n_ = np()
  n = len(dev); R = dev.shape[0]
  out = []
  variants = [('shaped', x_shaped)]
  if flat_and_shaped:
    variants.append(('flat', x_shaped.reshape(-1)))
  for vname, x in variants:
    calls = [('cost', lambda: dev.cost(x, price)), ('deriv', lambda: dev.deriv(x, price))]
    if want_hess and (hess_flat or vname == 'shaped'):
      calls.append(('hess', lambda: dev.hess(x, price)))
    if wanted is not None:
      calls = [c for c in calls if c[0] in wanted]
    for what, f in calls:
      try:
        v = n_.array(f(), dtype=float)
      except Exception as e:
        out.append(('raises', what, type(e).__name__, '%s(%s flow) raises %s: %s' % (what, vname, type(e).__name__, str(e)[:120])))
        continue
      ok = {'cost': v.ndim == 0, 'deriv': v.size == R*n, 'hess': v.shape == (n, n)}[what]
      if not ok:
        want = {'cost': 'a scalar (0-d)', 'deriv': '%d entries' % (R*n), 'hess': 'shape (%d, %d)' % (n, n)}[what]
        out.append(('shape', what, None, '%s(%s flow) has shape %s, contract: %s' % (what, vname, v.shape, want)))
      elif not n_.isfinite(v).all():
        out.append(('nonfinite', what, None, '%s(%s flow) is not finite: %s' % (what, vname, v.reshape(-1)[:6])))
    try:
      cons = dev.constraints
    except Exception as e:
      out.append(('raises', 'constraints', type(e).__name__, 'constraints raises %s: %s' % (type(e).__name__, str(e)[:120])))
      cons = []
    for k, c in enumerate(cons):
      try:
        v = n_.array(c['fun'](x), dtype=float)
        if v.size != 1:
          out.append(('shape', 'con.fun', None, 'constraint %d fun(%s flow) has shape %s, not a scalar' % (k, vname, v.shape)))
        elif not n_.isfinite(v).all():
          out.append(('nonfinite', 'con.fun', None, 'constraint %d fun(%s flow) = %s' % (k, vname, v)))
      except Exception as e:
        out.append(('raises', 'con.fun', type(e).__name__, 'constraint %d fun(%s flow) raises %s: %s' % (k, vname, type(e).__name__, str(e)[:120])))
      if 'jac' in c:
        try:
          j = n_.array(c['jac'](x), dtype=float)
          if j.size != R*n:
            out.append(('shape', 'con.jac', None, 'constraint %d jac(%s flow) has %d entries for %d flow variables' % (k, vname, j.size, R*n)))
          elif not n_.isfinite(j).all():
            out.append(('nonfinite', 'con.jac', None, 'constraint %d jac(%s flow) is not finite' % (k, vname)))
        except Exception as e:
          out.append(('raises', 'con.jac', type(e).__name__, 'constraint %d jac(%s flow) raises %s: %s' % (k, vname, type(e).__name__, str(e)[:120])))
  # de-duplicate (flat and shaped usually fail alike)
  seen, uniq = set(), []
  for kind, what, exc, msg in out:
    if (kind, what, exc) not in seen:
      seen.add((kind, what, exc)); uniq.append((kind, what, exc, msg))
  return uniq


def failure(cls, kind, what, exc, corner, msg, where, dtype=None):
  key = {'cls': cls, 'kind': kind, 'what': what, 'corner': corner or 'none'}
  if exc:
    key['exc'] = exc
  if dtype:
    key['dtype'] = dtype
  return {'key': key, 'detail': '%s %s — %s' % (cls, where, msg)}


def defined(v):
  """definedness pattern of an implementation value: 1.0 for a finite entry, nan otherwise (shape kept).
  C10's tie compares only shapes and this pattern with the model's {1, undef} pattern — never values."""
  n_ = np()
  a = n_.array(v, dtype=float)
  return n_.where(n_.isfinite(a), 1.0, n_.nan)


def cons_rows(dev, x):
  """pattern rows [isEq, hasJac, defined(jac)…, defined(value)] of every constraint (with or without a `jac`),
  sorted lexicographically with non-finite first, as the driver sorts with `undef` first."""
  n_ = np()
  rows = []
  for c in dev.constraints:
    row = [1.0 if c['type'] == 'eq' else 0.0, 1.0 if 'jac' in c else 0.0]
    v = n_.array(c['fun'](x), dtype=float).reshape(-1)
    assert v.size == 1, 'constraint value of shape %s' % (v.shape,)
    if 'jac' in c:
      row += [float(u) for u in defined(c['jac'](x)).reshape(-1)]
    row.append(float(defined(v)[0]))
    rows.append(row)
  rows.sort(key=lambda r: [(-math.inf if not math.isfinite(u) else u) for u in r])
  return rows


class Rows:
  """ragged list of rows wrapped so that canon_impl's np.array(dtype=float) keeps the flat content."""
  def __init__(self, rows): self.rows = rows
  def __array__(self, dtype=None, copy=None):
    return np().array([u for r in self.rows for u in r], dtype=float)


# ---------------------------------------------------------------- case streams
def leaf_case(rng, tier, n, cls=None, corners_ok=False):
  cls = cls or rng.choice(LEAF_CLASSES)
  if cls == 'IDevice' and rng.random() < 0.25:
    d = real_exponent_idevice(rng, n)
    if rng.random() < 0.5:
      lb, hb = set_bounds(rng, d, rng.choice(['some', 'all']))
      regen_dependents(rng, d, lb, hb)
  else:
    d = boundary_leaf(rng, tier, cls, n)
  mode = rng.choice(['lower', 'upper', 'upper', 'interior', 'mixed', 'mixed'])
  case = {'kind': 'leaf', 'dev': d, 's': gen.leaf_flow(rng, d, mode), 'p': gen.gen_price(rng, n) if rng.random() < 0.9 else '0',
          '_flow': mode, '_shape': rng.choice(['flat', 'row'])}
  if not corners_ok:
    avoid_leaf_corner(rng, case)
  return case


# ---------------------------------------------------------------- the integer-typed family
INT_SIGN = {'PVDevice': '-', 'GDevice': '-', 'CDevice': '+', 'CDevice2': '+', 'IDevice': '+', 'IDevice2': '+'}


def int_leaf(rng, cls, n, one_way=False):
  """an all-integer description of a leaf: bounds given as ints (e.g. (-2, 2)), integer scalar / vector parameters
  (efficiency = 1, sustainment = 1, capacity = 10, a = -1, c = 2, integer temperatures, integer coefficients)."""
  sign = INT_SIGN.get(cls, rng.choice([None, None, '+', '-']))
  if one_way and sign is None:
    sign = '+'
  def slot():
    if sign == '+':
      a = rng.randint(0, 2); return a, a + rng.randint(0, 3)
    if sign == '-':
      b = -rng.randint(0, 2); return b - rng.randint(0, 3), b
    return -rng.randint(0, 3), rng.randint(0, 3)
  if rng.random() < 0.5:
    a, b = slot()
    if a == b:
      a, b = (a - 1, b) if sign == '-' else (a, b + 1)
    lb, hb = [a] * n, [b] * n
  else:
    sl = [slot() for _ in range(n)]
    lb, hb = [x for x, _ in sl], [y for _, y in sl]
  if cls == 'CDevice2' and sum(lb) == sum(hb):
    hb[0] += 1
  uniform = len(set(lb)) == 1 and len(set(hb)) == 1
  py = {'int_typed': True, 'cform': None, 'vec_as_list': rng.random() < 0.5,
        'bform': rng.choice((['scalar', 'scalar'] if uniform else []) + (['pair', 'lists'] if n != 2 else []) + ['table', 'table_list'])}
  d = {'cls': cls, 'n': n, 'lb': [str(x) for x in lb], 'hb': [str(x) for x in hb], 'cbs': [], 'prm': {}, '_py': py}
  lo, hi = sum(lb), sum(hb)
  if cls == 'CDevice2' or rng.random() < 0.4:
    l, h = lo - rng.randint(0, 1), hi + rng.randint(0, 1)
    if l >= h:
      h = l + 1
    d['cbs'] = [[str(l), str(h), 0, n]]
    py['cform'] = rng.choice(['2tuple', '4tuples'])
    if cls == 'CDevice2' and rng.random() < 0.3:
      d['cbs'] = [[str(lo), str(hi), 0, n]]; py['cform'] = None
  p = d['prm']
  sv = lambda f: [str(f()) for _ in range(n)] if rng.random() < 0.5 else str(f())
  if cls == 'CDevice':
    p['a'] = str(rng.choice([-1, 0, -2])); p['b'] = str(rng.choice([0, 1, 2]))
  elif cls == 'CDevice2':
    pl = rng.randint(-3, 0); p['p_l'] = str(pl); p['p_h'] = str(rng.randint(pl, 0))
  elif cls == 'IDevice2':
    if rng.random() < 0.5:
      pl = rng.randint(-3, 0); p['p_l'] = str(pl); p['p_h'] = str(rng.randint(pl, 0))
    else:
      pls = [rng.randint(-3, 0) for _ in range(n)]
      p['p_l'] = [str(x) for x in pls]; p['p_h'] = [str(rng.randint(x, 0)) for x in pls]
  elif cls == 'IDevice':
    p['a'] = sv(lambda: rng.choice([0, 0, 1, 2])); p['b'] = sv(lambda: rng.choice([1, 2, 2, 3])); p['c'] = sv(lambda: rng.choice([0, 1, 2]))
  elif cls == 'GDevice':
    deg = rng.randint(0, 3)
    row = lambda: [str(rng.randint(0, 2)) for _ in range(deg + 1)]
    q = rng.random()
    if q < 0.15:
      p['cost_coeffs'] = []; py['no_coeffs'] = True
    else:
      p['cost_coeffs'] = row() if q < 0.6 else [row() for _ in range(n)]
  elif cls == 'SDevice':
    c1 = rng.choice([0, 1, 2]); c2 = rng.randint(0, c1)
    p.update({'c1': str(c1), 'c2': str(c2), 'c3': str(rng.choice([0, 1])), 'capacity': str(rng.choice([1, 4, 10])),
              'damage_depth': str(rng.choice([0, 1])), 'start': str(rng.choice([0, 1])), 'reserve': str(rng.choice([0, 1])),
              'efficiency': '1', 'sustainment': '1'})
    if rng.random() < 0.4:
      p['rate_clip'] = rng.choice([['1', '1'], ['1', None], [None, '2'], ['2', '1']])
  elif cls == 'TDevice':
    p.update({'sustainment': str(rng.choice([0, 1, 1])), 'efficiency': str(rng.choice([1, 1, -1, 2, -2, 3])), 't_init': str(rng.randint(-5, 25)),
              't_optimal': str(rng.randint(15, 25)), 't_range': str(rng.choice([0, 1, 3, 6])), 't_external': [str(rng.randint(-8, 30)) for _ in range(n)],
              'c': sv(lambda: rng.choice([0, 1, 2, 3]))})
  elif cls == 'ADevice':
    q = rng.random()
    if q < 0.25:
      p['f'] = {'k': 'null'}; py['f_form'] = 'default'
    elif q < 0.4:
      p['f'] = {'k': 'null'}; py['f_form'] = 'empty_sum'
    else:
      p['f'] = gen.gen_fn(rng, n, [F(x) for x in lb], [F(x) for x in hb])
  return d


def int_flow(rng, lb, hb, mode):
  """an integer in-bounds flow: the bounds themselves, zeros when feasible, or integer points in between."""
  if mode == 'zeros' and not all(a <= 0 <= b for a, b in zip(lb, hb)):
    mode = 'mixed'
  pick = {'lower': lambda a, b: a, 'upper': lambda a, b: b, 'zeros': lambda a, b: 0,
          'interior': lambda a, b: rng.randint(a, b), 'mixed': lambda a, b: rng.choice([a, b, rng.randint(a, b)])}[mode]
  return [pick(a, b) for a, b in zip(lb, hb)], mode


def int_price(rng, n):
  q = rng.random()
  if q < 0.35: return str(rng.randint(-3, 3)), True
  if q < 0.6: return [str(rng.randint(-3, 3)) for _ in range(n)], True
  return gen.gen_price(rng, n), False


def int_leaf_case(rng, tier, n, cls=None, mode=None):
  cls = cls or rng.choice(LEAF_CLASSES)
  d = int_leaf(rng, cls, n)
  s, mode = int_flow(rng, [ival(x) for x in d['lb']], [ival(x) for x in d['hb']], mode or rng.choice(['lower', 'upper', 'zeros', 'interior', 'mixed']))
  p, pint = int_price(rng, n)
  return {'kind': 'leaf', 'dev': d, 's': [str(x) for x in s], 'p': p, '_flow': mode, '_shape': rng.choice(['flat', 'row']), '_int': True, '_pint': pint}


def int_tree_case(rng, tier, n):
  """sets over integer-typed leaves, integer aggregate bounds / ratios / sign, and an integer-typed flow matrix."""
  cnt = [0]
  def fresh(pre):
    cnt[0] += 1
    return '%s%d' % (pre, cnt[0])
  def leaf():
    return {'k': 'leaf', 'id': fresh(rng.choice(['a', 'e', 'h'])), 'dev': int_leaf(rng, rng.choice(LEAF_CLASSES), n)}
  def mf():
    cls = rng.choice(['Device', 'CDevice', 'CDevice2', 'IDevice', 'IDevice2', 'GDevice', 'PVDevice', 'ADevice'])
    t = {'k': 'mf', 'id': fresh('m'), 'dev': int_leaf(rng, cls, n, one_way=True), 'flows': ['e', 'h', 'g'][:rng.choice([1, 2, 2, 3])], 'ratios': None, '_int': True}
    if len(t['flows']) == 2 and rng.random() < 0.5:
      t['ratios'] = [str(rng.randint(1, 3)), str(rng.randint(1, 3))]; t['ctype'] = rng.choice(['eq', 'ineq'])
    return t
  def node(depth, root=False):
    kids = []
    for _ in range(rng.randint(2, 3) if root else rng.randint(1, 2)):
      q = rng.random()
      kids.append(node(depth - 1) if depth > 1 and q < 0.3 else mf() if q < 0.55 else leaf())
    t = {'k': 'node', 'id': 'root' if root else fresh('s'), 'sb': None, 'ch': kids, 'sub': False, '_int': True}
    if rng.random() < 0.6:
      t['sb'] = [[str(v), str(v)] if rng.random() < 0.25 else [str(-rng.randint(0, 6)), str(rng.randint(0, 8))] for v in [rng.randint(-2, 4) for _ in range(n)]]
    if rng.random() < 0.35:
      t.update({'sub': True, 'labels': rng.sample(['e', 'h', 'g', '1'], rng.randint(1, 2)), 'ctype': rng.choice(['eq', 'ineq']),
                'sign': rng.choice(['1', '-1']), 'rem': rng.random() < 0.4})
    return t
  t = mf() if rng.random() < 0.2 else node(rng.choice([1, 2]), root=True)
  lb, hb = gen.tree_box(t, n)
  flat, mode = int_flow(rng, [int(x) for x in lb], [int(x) for x in hb], rng.choice(['lower', 'upper', 'zeros', 'interior', 'mixed']))
  R = gen.tree_rows(t)
  q = rng.random()
  P, pint = (str(rng.randint(-3, 3)), True) if q < 0.3 else ([str(rng.randint(-3, 3)) for _ in range(n)], True) if q < 0.5 else (gen.gen_price_mat(rng, R, n), False)
  return {'kind': 'tree', 'tree': t, 'n': n, 'S': [[str(x) for x in flat[r*n:(r + 1)*n]] for r in range(R)], 'P': P,
          '_flow': mode, '_shape': rng.choice(['flat', 'mat']), '_int': True, '_pint': pint}


def boundary_tree(rng, tier, n):
  """random rooted tree of sets over boundary leaves; sometimes a bare MF / two-ratio adaptor."""
  q = rng.random()
  if q < 0.2:
    t, _ = gen.gen_tree(rng, tier, n=n, depth=1, want_mf=True)
    t = [c for c in t['ch'] if c['k'] == 'mf'][0]
  else:
    t, _ = gen.gen_tree(rng, tier, n=n, depth=rng.choice([1, 2, 2, 3]), want_mf=rng.choice([None, True]))
  def walk(u):
    if u['k'] in ('leaf', 'mf'):
      if rng.random() < 0.7:
        ucons = u['dev'].get('ucons')
        d = boundary_leaf(rng, tier, u['dev']['cls'], n, in_mf=(u['k'] == 'mf'))
        if ucons and d['cls'] == 'ADevice':
          d['ucons'] = gen.gen_ucons(rng, n, [F(x) for x in d['lb']], [F(x) for x in d['hb']])
        u['dev'] = d
    else:
      for c in u['ch']:
        walk(c)
  walk(t)
  return t


def tree_case(rng, tier, n):
  t = boundary_tree(rng, tier, n)
  mode = rng.choice(['lower', 'upper', 'interior', 'mixed', 'mixed'])
  R = gen.tree_rows(t)
  case = {'kind': 'tree', 'tree': t, 'n': n, 'S': gen.tree_flow(rng, t, n, mode), 'P': gen.gen_price_mat(rng, R, n),
          '_flow': mode, '_shape': rng.choice(['flat', 'mat'])}
  avoid_tree_corner(rng, case)
  return case


INVALIDATE = {
  'CDevice': [('a', '1/4')],
  'CDevice2': [('p_h', '1/4'), ('swap', None)],
  'IDevice2': [('p_h', '1/4'), ('swap', None)],
  'IDevice': [('a', '-1/4'), ('b', '0'), ('b', '-1'), ('c', '-1/4')],
  'SDevice': [('capacity', '0'), ('capacity', '-1'), ('efficiency', '0'), ('efficiency', '5/4'), ('sustainment', '0'), ('sustainment', '5/4'),
              ('start', '-1/4'), ('start', '5/4'), ('reserve', '-1/4'), ('reserve', '5/4'), ('damage_depth', '-1/4'), ('damage_depth', '5/4'),
              ('c1', '-1/4'), ('c2', '-1/4'), ('c3', '-1/4'), ('c2>c1', None)],
  'TDevice': [('sustainment', '-1/4'), ('sustainment', '5/4'), ('efficiency', '0'), ('t_range', '-1/4'), ('c', '-1/4')],
}


CB_OPTIONS = [('cb_end', None), ('cb_empty', None), ('cb_h<=l', None), ('cb_infeasible', None)]


def accept_options(cls):
  return ([('valid', None), ('bounds', None)] + ([('producer', None)] if cls in ('PVDevice', 'GDevice') else []) + INVALIDATE.get(cls, [])
          + CB_OPTIONS + ([('cb_short', None)] if cls == 'CDevice2' else []))


def accept_case(rng, tier, n, cls=None, opt=None):
  """parameters on and next to every validator threshold (scalar parameters, per-slot bounds, cumulative-bound
  ranges / limits / feasibility, CDevice2 range tiling): the model's acceptance predicate against the constructor."""
  cls = cls or rng.choice([c for c in LEAF_CLASSES if c != 'ADevice'])
  d = boundary_leaf(rng, tier, cls, n)
  if rng.random() < 0.6:                      # mostly non-degenerate slots, so that a wrongly accepted parameter is exercised
    lb = [F(x) for x in d['lb']]; hb = [F(x) for x in d['hb']]
    for k in range(n):
      if lb[k] == hb[k]:
        if cls in ('PVDevice', 'GDevice') or hb[k] < 0: lb[k] = hb[k] - 1
        else: hb[k] = lb[k] + 1
    d['lb'], d['hb'] = L(lb), L(hb); d['_py']['bform'] = 'table'
    regen_dependents(rng, d, lb, hb)
  p = d['prm']
  why = 'valid'
  if opt is None:
    opt = ('valid', None) if rng.random() < 0.45 else rng.choice(accept_options(cls)[1:])
  if opt[0] != 'valid':
    k, v = opt
    why = k if v is None else '%s=%s' % (k, v)
    slot = rng.randrange(n)
    if k == 'bounds':
      lb = [F(x) for x in d['lb']]; hb = [F(x) for x in d['hb']]
      lb[slot] = hb[slot] + Fraction(1, 4) if cls not in ('PVDevice', 'GDevice') else lb[slot]
      if cls in ('PVDevice', 'GDevice'):
        hb[slot] = lb[slot] - Fraction(1, 4)
      d['lb'], d['hb'] = L(lb), L(hb); d['_py']['bform'] = 'table'
      if cls == 'CDevice2':
        d['cbs'] = [[fs(sum(lb, F(0)) - 1), fs(sum(lb, F(0)) + 1), 0, n]]; d['_py']['cform'] = '4tuples'
    elif k == 'producer':
      hb = [F(x) for x in d['hb']]; hb[slot] = Fraction(1, 4); d['hb'] = L(hb); d['_py']['bform'] = 'table'
    elif k == 'swap':
      if isinstance(p['p_l'], list):
        p['p_l'] = list(p['p_l']); p['p_l'][slot] = '-1/4'; p['p_h'] = list(p['p_h']); p['p_h'][slot] = '-1/2'
      else:
        p['p_l'], p['p_h'] = '-1/4', '-1/2'
    elif k == 'c2>c1':
      p['c1'], p['c2'] = '1/2', '1'
    elif k.startswith('cb_'):
      lb = [F(x) for x in d['lb']]; hb = [F(x) for x in d['hb']]
      lo, hi = sum(lb, F(0)), sum(hb, F(0))
      d['_py']['cform'] = '4tuples'
      if k == 'cb_short' and n < 3:
        k = 'cb_end'; why = k
      if k == 'cb_end':
        d['cbs'] = [[fs(lo - 1), fs(hi + 1), 0, n + rng.choice([1, 2])]]
      elif k == 'cb_empty':
        e = rng.randint(0, n); d['cbs'] = [[fs(min(lo, F(0)) - 1), fs(max(hi, F(0)) + 1), e, rng.randint(0, e)]]
      elif k == 'cb_h<=l':
        d['cbs'] = [[fs(lo), fs(lo), 0, n]]
      elif k == 'cb_infeasible':
        d['cbs'] = [[fs(hi + 1), fs(hi + 2), 0, n]] if rng.random() < 0.5 else [[fs(lo - 2), fs(lo - 1), 0, n]]
      elif k == 'cb_short':
        d['cbs'] = [[fs(lb[0] - 1), fs(hb[0] + 1), 0, 1], [fs(sum(lb[1:n - 1], F(0)) - 1), fs(sum(hb[1:n - 1], F(0)) + 1), 1, n - 1]]
    elif isinstance(p.get(k), list):
      p[k] = list(p[k]); p[k][slot] = v
    else:
      p[k] = v
    if cls == 'IDevice' and k == 'b':
      p['a'] = '0'                             # the base reaches 0 at the upper bound of the (non-degenerate) slot,
      lb = [F(x) for x in d['lb']]; hb = [F(x) for x in d['hb']]     # so a wrongly accepted exponent <= 0 is exercised
      if lb[slot] == hb[slot]:
        hb[slot] = lb[slot] + 1
      d['lb'], d['hb'] = L(lb), L(hb); d['_py']['bform'] = 'table'; d['cbs'] = []; d['_py']['cform'] = None
  return {'kind': 'accept', 'dev': d, '_why': why}


def window_case(rng, tier, n, sign=None):
  """WindowDevice as a consumer ('+'), a producer ('-': all flows <= 0) or two-way (None); every flow has a non-zero
  TOTAL (a zero total is the listed corner `window_zero_sum_flow`: np.average cannot normalise its weights)."""
  lb, hb = gen.gen_bounds(rng, n, sign=sign)
  if all(x == 0 for x in lb) and all(x == 0 for x in hb):
    if sign == '-': lb[0] = F(-1)
    else: hb[0] = F(1)
  flows = []
  for mode in ('upper', 'interior', 'mixed', 'lower'):
    s = gen.gen_flow(rng, lb, hb, mode)
    if sum(s, F(0)) != 0:
      flows.append((mode, [L(s)]))
  return {'kind': 'raw', 'what': 'window', 'cls': 'WindowDevice', 'n': n, 'lb': L(lb), 'hb': L(hb), 'w': fs(dy(rng, 0, n)), 'c': fs(dy(rng, 0, 2)),
          'flows_at': flows, 'p': gen.gen_price(rng, n), '_sign': {'+': 'consumer', '-': 'producer', None: 'two-way'}[sign]}


def raw_clean_case(rng, tier, n):
  """oracle-only configurations that are expected to be usable."""
  w = rng.choice(['window', 'window', 'fnx', 'fnx', 'len0'])
  if w == 'len0':
    return {'kind': 'raw', 'what': 'len0', 'n': 0, 'cls': rng.choice(['Device', 'IDevice', 'IDevice2', 'CDevice', 'PVDevice', 'SDevice', 'GDevice'])}
  if w == 'fnx':
    return fnx_case(rng, tier, min(n, 6), rng.choice(FNX))
  return window_case(rng, tier, n, rng.choice(['+', '-', None]))


# preference functions outside the Lean `Fn` embedding (vk/gen_fnx.py), oracle only.  What "usable" means is read off
# the source's own domain, nothing more is demanded:
#   entropy  InformationEntropy takes |r| and FILTERS zero entries before the log: cost, deriv, hess finite at every flow
#            of any sign, with exact zeros in some or all slots;
#   tvar     TemporalVariance normalises by the total flow (np.average weights): cost finite whenever the total is
#            non-zero (zero entries allowed); deriv / hess only where every s_i > 1/4 and total > 2 (1 + max s_i), because
#            numdifftools probes single entries with steps up to about 1 + |s_i| and may hit a zero total (the listed C14 finding);
#   cobb     CobbDouglas takes r ** alpha with fractional alpha: cost finite for r >= 0 (0 ** alpha = 0); deriv / hess
#            only for strictly positive flows (s_i > 1/4): at 0 the slope is infinite and the probes go negative;
#   poly1d   Poly1D is a polynomial: everything, everywhere.
FNX = ('entropy', 'tvar', 'cobb', 'poly1d')
QUARTER = Fraction(1, 4)


def fnx_demand(fk, s):
  """the operations the source's own domain supports at flow `s` (Fractions); None: outside the domain altogether."""
  tot = sum(s, F(0))
  if fk in ('entropy', 'poly1d'):
    return ['cost', 'deriv', 'hess']
  if fk == 'tvar':
    if tot == 0:
      return None
    # numdifftools probes one coordinate with steps up to about 1 + |s_i| (observed: [0.5, 0.5] is probed at [-0.5, 0.5]);
    # deriv / hess are demanded only where no such probe can cancel the total
    far = all(x > QUARTER for x in s) and tot > 2 * (1 + max(s))
    return ['cost', 'deriv', 'hess'] if far else ['cost']
  if fk == 'cobb':
    if any(x < 0 for x in s):
      return None
    return ['cost', 'deriv', 'hess'] if all(x > QUARTER for x in s) else ['cost']
  raise ValueError(fk)


def fnx_case(rng, tier, n, fk):
  sign = '+' if fk in ('tvar', 'cobb') else rng.choice(['+', '+', '-', None])
  lb, hb = gen.gen_bounds(rng, n, sign=sign)
  if sign == '+':
    for k in range(n):                      # boxes that allow exact zeros in some slots
      if rng.random() < 0.5:
        lb[k] = F(0)
    if all(x == 0 for x in hb):
      hb[0] = F(2)
  fx = {'entropy': lambda: {'k': 'entropy', 'c': fs(dy(rng, QUARTER, 2))}, 'tvar': lambda: {'k': 'tvar', 'c': fs(dy(rng, QUARTER, 2))},
        'cobb': lambda: {'k': 'cobb', 'a': L([dy(rng, QUARTER, 3) for _ in range(n)]), 'c': fs(dy(rng, QUARTER, 2))},
        'poly1d': lambda: {'k': 'poly1d', 'cs': gen_fnx.gen_poly_cs(rng)}}[fk]()
  if rng.random() < 0.3:
    fx = {'k': 'sum', 'fs': [fx, {'k': 'poly1d', 'cs': gen_fnx.gen_poly_cs(rng)}]}
  d = gen_fnx.fnx_case_dev(rng, n, lb, hb, allow_numeric=False)
  d['prm']['fx'] = fx
  flows = []
  cand = [(m, gen.gen_flow(rng, lb, hb, m)) for m in ('lower', 'upper', 'interior', 'mixed')]
  z = gen.gen_flow(rng, lb, hb, 'interior')       # exact zeros wherever the box allows, the rest inside
  z = [F(0) if a <= 0 <= b and rng.random() < 0.7 else v for v, a, b in zip(z, lb, hb)]
  cand.append(('zeros-where-allowed', z))
  for name, sflow in cand:
    dem = fnx_demand(fk, sflow)
    if dem:
      flows.append((name, [L(sflow)], dem))
  return {'kind': 'raw', 'what': 'fnx', 'cls': 'ADevice', 'fk': fk, 'n': n, 'dev': d, 'flows_at': flows, 'p': gen.gen_price(rng, n)}


LONG_NS = {'quick': {'SDevice': [7, 25]}, 'thorough': {}}       # storage nd.Hessian: n = 25 0.9 s, n = 48 4.4 s; TDevice n = 48 0.15 s


def long_cases(rng, tier):
  """one leaf per class at horizons beyond the usual ones (7, 25, 48): every operation, and ONE Hessian call
  (device-shaped flow) whose shape (n, n) and finiteness are checked — also for the numerically differentiated classes."""
  out = []
  for cls in LEAF_CLASSES:
    for n in LONG_NS[tier].get(cls, [7, 25, 48]):
      c = leaf_case(rng, tier, n, cls)
      c['_long'] = True
      out.append(c)
  return out


def reject_cases(rng, tier):
  """one probe per formerly accepted-but-unusable configuration: the constructor must raise ValueError."""
  out = []
  ns = NS[tier]
  for name in REJECTS:
    n = rng.choice([x for x in ns if x >= 3])
    lbp, hbp = [F(0)] * n, [dy(rng, 1, 3)] * n
    mid = [L([x / 2 for x in hbp])]
    base = {'kind': 'raw', 'n': n, 'reject': name, 'p': gen.gen_price(rng, n), 'lb': L(lbp), 'hb': L(hbp), 'flows_at': [('interior', mid)]}
    if name == 'tworatio_ratios_none':
      out.append(dict(base, what='tworatio_none', cls='TwoRatioMFDeviceSet',
                      flows_at=[('interior', [L([x / 4 for x in hbp]), L([x / 2 for x in hbp])])]))
    elif name == 'cbound_end_beyond_horizon':
      out.append(dict(base, what='device_cbound', cls='Device', cbs=[['-1', fs(sum(hbp, F(0)) + 1), 0, n + rng.choice([1, 2])]]))
    elif name == 'cbound_negative_start':
      out.append(dict(base, what='device_cbound', cls='Device', cbs=[['-1', fs(sum(hbp, F(0)) + 1), -1, n]]))
    elif name == 'gdevice_2d_wrong_row_count':
      rows = n + rng.choice([1, 2, -1])
      out.append(dict(base, what='gdevice', cls='GDevice', lb=L([-x for x in hbp]), hb=L(lbp), cost_coeffs=[['1', '1', '0']] * rows,
                      flows_at=[('interior', [L([-x / 2 for x in hbp])])]))
    elif name == 'cdevice2_vector_slopes':
      out.append(dict(base, what='cdevice2_vector', cls='CDevice2', p_l=L([F(-1)] * n), p_h=L([Fraction(-1, 2)] * n), cbs=None))
    elif name == 'cdevice2_vector_slopes_multirange':
      cut = rng.randint(1, n - 1)
      cbs = [['0', fs(hbp[0] * cut + 1), 0, cut], ['0', fs(hbp[0] * (n - cut) + 1), cut, n]]
      out.append(dict(base, what='cdevice2_vector', cls='CDevice2', p_l=L([F(-1)] * n), p_h=L([Fraction(-1, 2)] * n), cbs=cbs))
    elif name == 'cdevice2_ranges_not_covering':
      cbs = [['0', fs(hbp[0] + 1), 0, 1], ['0', fs(hbp[0] * (n - 2) + 1), 1, n - 1]]
      out.append(dict(base, what='cdevice2_ranges', cls='CDevice2', p_l='-1', p_h='-1/2', cbs=cbs))
  return out


def corner_cases(rng, tier, name):
  """the deterministic known-bad branches: 2 configurations per corner and run."""
  out = []
  ns = NS[tier]
  for rep in range(2):
    n = rng.choice([x for x in ns if x >= 2]) if rep else rng.choice(ns)
    lbp, hbp = [F(0)] * n, [dy(rng, 1, 3)] * n
    base = {'kind': 'raw', 'n': n, 'corner': name, 'p': gen.gen_price(rng, n)}
    if name in ('abccost_deriv_q0_b_lt_1', 'abccost_hess_q0_b_lt_2'):
      b = rng.choice(['1/2', '1/4', '3/4']) if name.startswith('abccost_deriv') else rng.choice(['3/2', '5/4', '7/4'])
      d = {'cls': 'IDevice', 'n': n, 'lb': L(lbp), 'hb': L(hbp), 'cbs': [], 'prm': {'a': '0', 'b': b, 'c': rng.choice(['1', '0'])}, '_py': {'bform': 'table', 'cform': None}}
      if rep == 1 and name == 'abccost_hess_q0_b_lt_2':   # the same kernel reached through ADevice(f=ABCCost(...))
        d = {'cls': 'ADevice', 'n': n, 'lb': L(lbp), 'hb': L(hbp), 'cbs': [], '_py': {'bform': 'table', 'cform': None},
             'prm': {'f': {'k': 'abc', 'a': '0', 'b': b, 'c': '1', 'xl': L(lbp), 'xh': L(hbp)}}}
      s = gen.gen_flow(rng, lbp, hbp, 'interior'); k = rng.randrange(n); s[k] = hbp[k]
      out.append({'kind': 'leaf', 'dev': d, 's': L(s), 'p': base['p'], '_flow': 'upper', '_shape': rng.choice(['flat', 'row']), 'corner': name})
    elif name == 'mf_idevice_sum_outside_box':
      if rep == 0:   # both conduits at their upper bound: column sum 2*hb, q = -1 (a = 0) with a non-integer exponent
        d = {'cls': 'IDevice', 'n': n, 'lb': L(lbp), 'hb': L(hbp), 'cbs': [], 'prm': {'a': rng.choice(['0', '1/2']), 'b': rng.choice(['5/2', '3/2']), 'c': '1'}, '_py': {'bform': 'table', 'cform': None}}
        out.append(dict(base, what='mf_idevice', cls='MFDeviceSet', dev=d, flows=['e', 'h'], flows_at=[('both-upper', [L(hbp), L(hbp)])]))
      else:          # wrapped box [1, 2], a = 2: both conduits at their lower bound 0 give s = 2, q = 0, and b = 3/2 computes 0 ** -1/2
        d = {'cls': 'IDevice', 'n': n, 'lb': L([F(1)] * n), 'hb': L([F(2)] * n), 'cbs': [], 'prm': {'a': '2', 'b': '3/2', 'c': '1'}, '_py': {'bform': 'table', 'cform': None}}
        out.append(dict(base, what='mf_idevice', cls='MFDeviceSet', dev=d, flows=['e', 'h'], flows_at=[('both-lower', [L([F(0)] * n), L([F(0)] * n)])]))
    elif name == 'window_zero_sum_flow':
      out.append(dict(base, what='window', cls='WindowDevice', lb=L(lbp), hb=L(hbp), w='1', c='1', flows_at=[('lower', [L(lbp)])]))
  return out


# ---------------------------------------------------------------- the Prop
class C10(Prop):
  id = 'C10'
  lean_module = 'DK.Props.C10'
  uses_t1 = True
  theorems = {'DK.Props.C10': ['DK.C10.' + t for t in [
    'hlq_cost_defined', 'hlq_deriv_defined', 'hlq_hess_defined', 'idevice2_defined', 'cdevice2_defined',
    'abc_cost_defined_iff', 'abc_cost_defined', 'abc_deriv_defined_iff', 'abc_deriv_defined', 'abc_hess_defined_iff', 'abc_hess_defined',
    'abc_deriv_counterexample', 'abc_hess_counterexample', 'abc_hess_linear_defined',
    'idevice_cost_defined', 'idevice_deriv_defined_iff', 'idevice_hess_defined_iff', 'idevice_all_defined', 'idevice_model_defined',
    'tdevice_kernel_defined', 'len_norm', 'sdevice_divisors', 'mf_conduits', 'ipowDef_iff', 'powDef_int']],
              'DK.Props.Link': ['DK.Link.accepted_defined', 'DK.Link.idevice_real_defined', 'DK.Link.reach_core', 'DK.Link.construct_accepted']}
  bridge = []
  rule = ('every shipped leaf class (+ WindowDevice, oracle only) x n in 1..6 (24, 31 thorough) x validator-boundary parameters x zero-width slots '
          '(some / all) x flows on the bounds and interior x flat / device shape x scalar / vector / matrix price; sets (DeviceSet, SubBalancedDeviceSet, '
          'MFDeviceSet, TwoRatioMFDeviceSet) over such leaves; scalar parameters on and next to every validator threshold against the model acceptance '
          'predicate; non-trivial: the configuration sits on a validator boundary or has a zero-width slot')
  sizes = {'quick': 520, 'thorough': 6000}
  assumptions = ['shape contracts and "does not raise" are observed on the listed horizon lengths, not proved',
                 'proved defined: every / and general ** of the eight ABCCost / HLQuadraticCost kernels (Gen.*_defined), the /len(self) normalisation, '
                 'SDevice 1/efficiency and /capacity, MFDeviceSet.project /conduits; observed only: utils.soc / base_soc / sustainment_matrix, Poly2D, '
                 'set glue, numdifftools; WindowDevice and the three nd-differentiated functions are not modelled',
                 'T2 compares shapes and per-entry definedness (finite vs undefined), never values',
                 'powDef (positive base, or zero base with non-negative exponent) is taken as the condition under which Python float ** is finite and real',
                 'floating-point overflow for very large parameters is outside the model (theorems are over the reals)',
                 'SDevice / TDevice Hessians (numdifftools) are evaluated for n <= 6, n = 24 on leaves in the thorough tier, and on the long-horizon leaves; never for n = 31',
                 'constraint values are required to have size 1 (SDevice returns (1,) arrays for device-shaped flows), cost to be 0-d',
                 'one leaf per class per run at n = 7, 25, 48 (SDevice: 7, 25 in the quick tier) with one (n, n)-and-finite Hessian call',
                 'InformationEntropy / TemporalVariance / CobbDouglas / Poly1D under an ADevice are oracle-only and demanded only on the domain their source supports (see FNX)',
                 'C10 has no bridge lemmas: an UNTRANSLATABLE vector / set unit reported by the translators is only logged (not audited here); '
                 'the scalar kernels are tied through Gen.*_defined, everything else through T2 and the oracle']

  def __init__(self):
    self._hist = {}

  # ---- generation
  def cases(self, rng, tier, count):
    ns = NS[tier]
    out = []
    # a systematic pass: every class x every n at least once
    for cls in LEAF_CLASSES:
      for n in ns:
        out.append(leaf_case(rng, tier, n, cls))
    # … and every validator threshold of every class (invalid neighbour) at least once
    for cls in LEAF_CLASSES:
      if cls != 'ADevice':
        for opt in accept_options(cls):
          out.append(accept_case(rng, tier, rng.choice(ns), cls, opt))
    # … WindowDevice as consumer, producer and two-way; the numdifftools-based functions and Poly1D under an ADevice
    for sign in ('+', '-', None):
      out.append(window_case(rng, tier, rng.choice(ns), sign))
    for fk in FNX:
      for _ in range(2):
        out.append(fnx_case(rng, tier, rng.choice([x for x in ns if 2 <= x <= 6]), fk))
    # … one leaf per class on long horizons (7, 25, 48)
    out += long_cases(rng, tier)
    # … every form of the SDevice rate clip (both, discharge only, charge only, unequal), float- and integer-typed
    for rc in (['1', '1'], ['1', None], [None, '2'], ['3/2', '1']):
      c = leaf_case(rng, tier, rng.choice([x for x in ns if x <= 6]), 'SDevice'); c['dev']['prm']['rate_clip'] = list(rc); out.append(c)
    for rc in (['1', '1'], ['1', None], [None, '2'], ['2', '1']):
      c = int_leaf_case(rng, tier, rng.choice([x for x in ns if x <= 6]), 'SDevice'); c['dev']['prm']['rate_clip'] = list(rc); out.append(c)
    # … and every class with INTEGER-typed bounds / parameters / flows: on both bounds, at zero, in between
    small = [x for x in ns if x <= 6]
    for cls in LEAF_CLASSES:
      for mode in ('lower', 'upper', 'zeros', 'interior'):
        out.append(int_leaf_case(rng, tier, rng.choice(small if cls in NUMERIC_HESS else ns), cls, mode))
    for _ in range(12):
      out.append(int_tree_case(rng, tier, rng.choice(small)))
    while len(out) < count:
      n = rng.choice(ns)
      q = rng.random()
      if q < 0.12:
        out.append(int_leaf_case(rng, tier, n))
      elif q < 0.17:
        out.append(int_tree_case(rng, tier, min(n, 6)))
      elif q < 0.5:
        out.append(leaf_case(rng, tier, n))
      elif q < 0.75:
        out.append(tree_case(rng, tier, min(n, 6) if tier == 'quick' else n))
      elif q < 0.93:
        out.append(accept_case(rng, tier, n))
      else:
        out.append(raw_clean_case(rng, tier, n))
    out += reject_cases(rng, tier)
    for name in enabled_corners():
      out += corner_cases(rng, tier, name)
    for c in out:
      c['_hmax'] = 24 if tier == 'thorough' else 6
      self._count(c)
    return out

  def _count(self, c):
    h = self._hist
    def bump(k, v): h.setdefault(k, {}); h[k][str(v)] = h[k].get(str(v), 0) + 1
    bump('kind', c['kind'])
    bump('n', c.get('n', c.get('dev', {}).get('n')))
    if c['kind'] in ('leaf', 'accept'):
      bump('cls', c['dev']['cls'])
    elif c['kind'] == 'raw':
      bump('cls', c.get('cls'))
    else:
      for b in gen.tree_leaves(c['tree']):
        bump('cls', ('MF:' if b['k'] == 'mf' else '') + b['dev']['cls'])
      bump('tree_rows', gen.tree_rows(c['tree']))
    if c.get('corner'):
      bump('corner', c['corner'])
    if c.get('reject'):
      bump('reject_probe', c['reject'])
    if c.get('_long'):
      bump('long_horizon', '%s:%d' % (c['dev']['cls'], c['dev']['n']))
    if c.get('fk'):
      bump('fnx', c['fk'])
    if c.get('_sign'):
      bump('window', c['_sign'])
    if c['kind'] == 'accept':
      bump('accept', c['_why'].split('=')[0])
    if '_shape' in c:
      bump('shape', c['_shape'])
    bump('dtype', 'int' if c.get('_int') else 'float')
    for f in case_features(c):
      bump('feature', f)

  def extra_evidence(self):
    return {'input_distribution': self._hist, 'corner_branches_enabled': enabled_corners(), 'corner_branches': CORNERS, 'reject_probes': REJECTS}

  def nontrivial(self, case):
    f = case_features(case)
    return bool(f - {'flow_lower', 'flow_upper', 'flow_interior', 'flow_mixed', 'cbounds', 'coeffs_1d'})

  # ---- T2
  def ops(self, case):
    k = case['kind']
    n_ = np()
    if k == 'accept':
      d = case['dev']
      def acc():
        try:
          build_leaf10(d)
          return 1.0
        except ValueError:
          return 0.0
      return [Op({'op': 'usable.accept', 'dev': d}, acc, 1e-9, 'acceptance')]
    if k == 'leaf':
      d = case['dev']
      n = d['n']
      p = d['prm']
      if any(x.denominator != 1 for _, bb, _, _, _ in abc_uses(d, [F(0)] * n) for x in bb):
        return []                                     # real exponents: theorem + oracle, not T2
      dev = build_leaf10(d)
      s = flow_of(case)
      if case['_shape'] == 'row':
        s = s.reshape(1, -1)
      pr = price_of(case)
      ops = [Op({'op': 'usable.leaf.cost', 'dev': d, 's': case['s'], 'p': case['p']}, lambda: defined(dev.cost(s, pr)), 1e-9, 'leaf.cost'),
             Op({'op': 'usable.leaf.deriv', 'dev': d, 's': case['s'], 'p': case['p']}, lambda: defined(dev.deriv(s, pr)), 1e-9, 'leaf.deriv'),
             Op({'op': 'usable.leafcons', 'dev': d, 's': case['s']}, lambda: Rows(cons_rows(dev, s)), 1e-9, 'leaf.cons')]
      if d['cls'] not in NUMERIC_HESS or numeric_hess_ok(case, n):
        ops.append(Op({'op': 'usable.leaf.hess', 'dev': d, 's': case['s']}, lambda: defined(dev.hess(s, pr)), 1e-9, 'leaf.hess'))
      return ops
    if k == 'tree':
      t, n = case['tree'], case['n']
      dev = build_tree10(t)
      S = flow_of(case, 'S')
      if case['_shape'] == 'flat':
        S = S.reshape(-1)
      P = price_of(case, 'P')
      return [Op({'op': 'usable.tree.cost', 'tree': t, 'n': n, 'S': case['S'], 'P': case['P']}, lambda: defined(dev.cost(S, P)), 1e-9, 'tree.cost'),
              Op({'op': 'usable.tree.deriv', 'tree': t, 'n': n, 'S': case['S'], 'P': case['P']}, lambda: defined(dev.deriv(S, P)), 1e-9, 'tree.deriv'),
              Op({'op': 'usable.treecons', 'tree': t, 'n': n, 'S': case['S']}, lambda: Rows(cons_rows(dev, S)), 1e-9, 'tree.cons')]
    return []

  # ---- oracle: the property itself
  def oracle(self, case):
    k = case['kind']
    n_ = np()
    fails = []
    if k == 'accept':
      d = case['dev']
      try:
        dev = build_leaf10(d)
      except ValueError:
        return []
      except Exception as e:
        return [failure(d['cls'], 'raises', 'constructor', type(e).__name__, None, 'constructor raises %s: %s' % (type(e).__name__, str(e)[:120]),
                        'n=%d prm=%s' % (d['n'], d['prm']))]
      lb, hb = dev.lbounds, dev.hbounds
      if not (lb <= hb).all():
        return []
      for name, x in (('lower', lb), ('upper', hb), ('middle', (lb + hb)/2)):
        c2 = {'kind': 'leaf', 'dev': d, 's': L([F(v) for v in x.tolist()])}
        if has_abc_corner(d, [F(v) for v in x.tolist()]):
          continue                                    # the dedicated corner branches exhibit these
        for kind, what, exc, msg in usable(dev, n_.array(x, dtype=float).reshape(dev.shape), 0.25, want_hess=(d['cls'] not in NUMERIC_HESS or d['n'] <= 6)):
          fails.append(failure(d['cls'], kind, what, exc, leaf_corner(c2, what), msg, 'n=%d prm=%s bounds=%s..%s at the %s flow (accepted: %s)' % (
            d['n'], d['prm'], d['lb'], d['hb'], name, case['_why'])))
      return fails
    if k == 'leaf':
      d = case['dev']
      try:
        dev = build_leaf10(d)
      except Exception as e:
        return [failure(d['cls'], 'raises', 'constructor', type(e).__name__, None, 'constructor rejects a configuration meant to be valid: %s' % str(e)[:150],
                        '%sn=%d prm=%s lb=%s hb=%s cbs=%s' % ('INTEGER-typed bounds/parameters (%s) ' % d['_py'] if case.get('_int') else '', d['n'], d['prm'], d['lb'], d['hb'], d.get('cbs')),
                        dtype='int' if case.get('_int') else None)]
      x = flow_of(case).reshape(dev.shape)
      pr = price_of(case)
      typed = 'INTEGER-typed bounds/parameters (%s) and flow (dtype %s) ' % (d['_py'], x.dtype) if case.get('_int') else ''
      numeric = d['cls'] in NUMERIC_HESS
      for kind, what, exc, msg in usable(dev, x, pr, want_hess=(not numeric or numeric_hess_ok(case, d['n']) or bool(case.get('_long'))),
                                         hess_flat=not (numeric and d['n'] > 6)):
        fails.append(failure(d['cls'], kind, what, exc, leaf_corner(case, what), msg,
                             '%sn=%d prm=%s lb=%s hb=%s cbs=%s s=%s p=%s' % (typed, d['n'], d['prm'], d['lb'], d['hb'], d.get('cbs'), case['s'], case['p']),
                             dtype='int' if case.get('_int') else None))
      return fails
    if k == 'tree':
      t, n = case['tree'], case['n']
      try:
        dev = build_tree10(t)
      except Exception as e:
        return [failure('DeviceSet', 'raises', 'constructor', type(e).__name__, None, 'constructor rejects a tree meant to be valid: %s' % str(e)[:150], 'n=%d' % n)]
      blocks = gen.tree_leaves(t)
      numeric = any(b['dev']['cls'] in NUMERIC_HESS for b in blocks)
      x = flow_of(case, 'S').reshape(dev.shape)
      cls = type(dev).__name__
      typed = 'INTEGER-typed leaves and flow (dtype %s) ' % x.dtype if case.get('_int') else ''
      for kind, what, exc, msg in usable(dev, x, price_of(case, 'P'), want_hess=(not numeric or numeric_hess_ok(case, n, tree=True))):
        fails.append(failure(cls, kind, what, exc, None, msg, '%sn=%d rows=%d leaves=%s S=%s' % (
          typed, n, dev.shape[0], [('MF:' if b['k'] == 'mf' else '') + b['dev']['cls'] for b in blocks], case['S']),
          dtype='int' if case.get('_int') else None))
      return fails
    # raw
    if case['what'] == 'len0':
      dk = C.repo()
      try:
        dev = getattr(dk, case['cls'])('z', 0, (0.0, 0.0))
      except Exception:
        return []                                     # rejected (today: by numpy, "cannot call vectorize on size 0 inputs")
      for kind, what, exc, msg in usable(dev, n_.zeros(dev.shape), 0.25):     # accepted: then it has to be usable
        fails.append(failure(case['cls'], kind, what, exc, None, msg, 'a device of length 0 is accepted and not usable'))
      return fails
    if case['what'] == 'fnx':
      try:
        dev, flows = build_raw(case)
      except Exception as e:
        return [failure('ADevice', 'raises', 'constructor', type(e).__name__, None, 'constructor raises %s: %s' % (type(e).__name__, str(e)[:150]),
                        'f=%s n=%d' % (case['fk'], case['n']))]
      pr = build.price(case['p'])
      for (name, x), it in zip(flows, case['flows_at']):
        for kind, what, exc, msg in usable(dev, x, pr, wanted=set(it[2]) | {'constraints'}):
          fails.append(failure('ADevice', kind, what, exc, None, msg, 'f=%s (%s) n=%d lb=%s hb=%s at the %s flow %s (demanded by the source\'s own domain: %s)' % (
            case['fk'], case['dev']['prm']['fx'], case['n'], case['dev']['lb'], case['dev']['hb'], name, x.tolist(), it[2])))
      for f in fails:
        f['key']['f'] = case['fk']
      return fails
    if case.get('reject'):
      try:
        dev, flows = build_raw(case)
      except ValueError:
        return []                                     # rejected, as the repaired constructors do
      except Exception as e:
        return [failure(case['cls'], 'raises', 'constructor', type(e).__name__, None, 'constructor raises %s (not ValueError): %s' % (type(e).__name__, str(e)[:150]),
                        '%s n=%d' % (case['reject'], case['n']))]
      pr = build.price(case['p'])                     # accepted (again): then it has to be usable
      for name, x in flows:
        for kind, what, exc, msg in usable(dev, x, pr):
          fails.append(failure(case['cls'], kind, what, exc, None, msg, 'accepted configuration `%s` n=%d %s at the %s flow %s' % (
            case['reject'], case['n'], {kk: v for kk, v in case.items() if kk in ('lb', 'hb', 'cbs', 'p_l', 'p_h', 'cost_coeffs')}, name, x.tolist())))
      return fails
    try:
      dev, flows = build_raw(case)
    except Exception as e:
      return [failure(case['cls'], 'raises', 'constructor', type(e).__name__, case.get('corner'), 'constructor raises %s: %s' % (type(e).__name__, str(e)[:150]),
                      '%s n=%d' % (case['what'], case['n']))]
    pr = build.price(case['p'])
    for name, x in flows:
      for kind, what, exc, msg in usable(dev, x, pr):
        fails.append(failure(case['cls'], kind, what, exc, case.get('corner'), msg, '%s n=%d %s at the %s flow %s' % (
          case['what'], case['n'], {kk: v for kk, v in case.items() if kk in ('lb', 'hb', 'cbs', 'p_l', 'p_h', 'cost_coeffs', 'w', 'dev')}, name, x.tolist())))
    return fails


PROP = C10()
