"""C18 — projection returns the nearest point of the region (or raises), idempotently.

T2: every region class (box, half-space, slab, intersection incl. nested, row/column list),
`is_in`, `Device.project`, `DeviceSet.project`, `MFDeviceSet.project` against the Lean model
(`DK/Model/Projection.lean`) on dyadic inputs.  The oracle is written from the property text and
never consults the model: membership by the region's defining inequalities, distance against
random members / closed forms / an independent small QP, members fixed, idempotence, `is_in`
agreeing with exact membership away from the tolerance band; device level: shape, bounds,
in-bounds input unchanged (MF: unchanged totals), flat and shaped input; `utils.project`:
feasible to 1e-6 and no farther than random feasible points (SLSQP is a parameter)."""
import random, math
from fractions import Fraction
from .. import common as C, gen, build
from .. import gen_projection as G
from .. import scipy_guard as SG
from ..check import Prop, Op
from ..common import F, fs, dy, pf

TOL = '1/10000000000'     # ConvexRegion.tol = 1e-10
EPS = 1e-7


def np():
  import numpy
  return numpy


# ---------------------------------------------------------------- building the real objects
class Args:
  """the constructor arguments as the caller owns them: every array / list handed to the library is kept with a
  snapshot, so that (1) several regions can be given THE SAME object (`_share`) and (2) it can be checked afterwards
  that the library did not write into the caller's data."""
  def __init__(self):
    self.shared = {}
    self.owned = []

  def make(self, values, form, share, what):
    n_ = np()
    if share and share in self.shared:
      assert n_.array_equal(n_.array(self.shared[share][1], dtype=float), n_.array(values, dtype=float)), 'shared argument with different values'
      return self.shared[share][0]
    flat_int = all(float(v).is_integer() for row in values for v in (row if isinstance(row, list) else [row]))
    if form == 'tuple':
      obj = tuple(tuple(v) if isinstance(v, list) else v for v in values)
    elif form == 'ndarray':
      obj = n_.array(values, dtype=float)
    elif form == 'intarray' and flat_int:
      obj = n_.array([[int(x) for x in v] if isinstance(v, list) else int(v) for v in values])
    else:
      obj = [list(v) if isinstance(v, list) else v for v in values]
    snap = obj.copy() if hasattr(obj, 'copy') and not isinstance(obj, list) else [list(v) if isinstance(v, list) else v for v in values]
    self.owned.append((what, obj, snap))
    if share:
      self.shared[share] = (obj, snap)
    return obj

  def scramble(self):
    """the caller re-uses its own arrays / lists after the regions were built: overwrite them in place.  Returns the
    descriptions of what was overwritten (tuples cannot be)."""
    n_ = np()
    done = []
    seen = set()
    for what, obj, snap in self.owned:
      if id(obj) in seen:
        continue
      seen.add(id(obj))
      if isinstance(obj, n_.ndarray):
        obj[...] = obj*3 + 7
        done.append(what + ' (ndarray)')
      elif isinstance(obj, list):
        for i, v in enumerate(obj):
          if isinstance(v, list):
            for j in range(len(v)):
              v[j] = v[j]*3 + 7
          else:
            obj[i] = v*3 + 7
        done.append(what + ' (list)')
    return done

  def mutated(self):
    n_ = np()
    out = []
    for what, obj, snap in self.owned:
      same = n_.array_equal(n_.array(obj, dtype=float), n_.array(snap, dtype=float))
      if not same:
        out.append('%s: was %s, now %s' % (what, n_.array(snap).tolist(), n_.array(obj).tolist()))
    return out


def build_region(r, maxiter=None, args=None):
  """the real region objects; `_form` (list / tuple / ndarray / intarray) and `_share` (a key: regions with the same key
  receive the same object) of a description say how the caller passes the normal / the bounds table."""
  C.repo()
  from device_kit import projection as P
  args = args if args is not None else Args()
  k = r['k']
  form, share = r.get('_form', 'list'), r.get('_share')
  if k == 'cube':
    return P.HyperCube(args.make([[pf(a), pf(b)] for a, b in zip(r['lo'], r['hi'])], form, share, 'HyperCube bounds'))
  if k == 'half':
    return P.HalfSpace(args.make([pf(x) for x in r['nrm']], form, share, 'HalfSpace normal'), pf(r['o']), pf(r['sign']))
  if k == 'slice':
    return P.Slice(args.make([pf(x) for x in r['nrm']], form, share, 'Slice normal'), pf(r['lo']), pf(r['hi']))
  if k in ('inter', 'minter'):
    I = P.Intersection(build_region(r['a'], maxiter, args), build_region(r['b'], maxiter, args))
    if maxiter is not None:
      I._maxiter = maxiter
    return I
  if k == 'list':
    return P.List([build_region(x, maxiter, args) for x in r['rs']], r['axis'])
  raise ValueError(k)


def py_point(case):
  """the point as the caller would pass it: floats, or Python ints when `_int`; list, tuple or ndarray (`_pform`)."""
  conv = (lambda s: int(Fraction(s))) if case.get('_int') else pf
  pform = case.get('_pform', 'list')
  if 'P' in case:
    rows = [[conv(x) for x in row] for row in case['P']]
    return rows if pform == 'list' and not case.get('_asarray', True) else np().array(rows)
  vals = [conv(x) for x in case['p']]
  return tuple(vals) if pform == 'tuple' else np().array(vals) if pform == 'ndarray' else vals


def flagged(thunk, build_thunk=None):
  """[0, payload…] | [1] ValueError | [2] the bare Exception of dykstra_project; anything else propagates."""
  def run():
    try:
      v = thunk()
    except ValueError:
      return [1.0]
    except Exception as e:
      if type(e) is Exception:
        return [2.0]
      raise
    a = np().array(v, dtype=float)
    head = [0.0] + ([float(x) for x in a.shape] if a.ndim == 2 else [])
    return head + [float(x) for x in a.reshape(-1)]
  return run


# ---------------------------------------------------------------- float semantics of a description (oracle side)
def fviol(r, x):
  """how far the float vector x is outside the region, by the defining inequalities."""
  n_ = np()
  k = r['k']
  if k == 'cube':
    lo = n_.array([pf(a) for a in r['lo']]); hi = n_.array([pf(a) for a in r['hi']])
    return float(max(0.0, (lo - x).max(), (x - hi).max()))
  if k == 'half':
    nr = n_.array([pf(a) for a in r['nrm']]); d = float(nr.dot(x)); o = pf(r['o'])
    g = (o - d) if pf(r['sign']) > 0 else (d - o)
    return max(0.0, g)/float(n_.abs(nr).sum())
  if k == 'slice':
    nr = n_.array([pf(a) for a in r['nrm']]); d = float(nr.dot(x))
    return max(0.0, pf(r['lo']) - d, d - pf(r['hi']))/float(n_.abs(nr).sum())
  if k == 'inter':
    return max(fviol(r['a'], x), fviol(r['b'], x))
  raise ValueError(k)


def closed_form(r, p):
  """textbook nearest point for the simple classes (independent of the implementation)."""
  n_ = np()
  k = r['k']
  if k == 'cube':
    return n_.clip(p, [pf(a) for a in r['lo']], [pf(a) for a in r['hi']])
  if k not in ('half', 'slice'):
    return None
  nr = n_.array([pf(a) for a in r['nrm']]); d = float(nr.dot(p)); nn = float(nr.dot(nr))
  if k == 'half':
    o = pf(r['o'])
    if pf(r['sign']) > 0:
      return p + nr*(max(0.0, o - d)/nn)
    return p - nr*(max(0.0, d - o)/nn)
  if k == 'slice':
    lo, hi = pf(r['lo']), pf(r['hi'])
    t = min(max(d, lo), hi)
    return p + nr*((t - d)/nn)
  return None


def lin_constraints(r):
  """the region as (A, l, u) rows: l <= A x <= u (for the QP)."""
  n_ = np()
  k = r['k']; n = G.vlen(r)
  if k == 'cube':
    return [(n_.eye(n)[i], pf(r['lo'][i]), pf(r['hi'][i])) for i in range(n)]
  if k == 'half':
    nr = n_.array([pf(a) for a in r['nrm']]); o = pf(r['o'])
    return [(nr, o, math.inf)] if pf(r['sign']) > 0 else [(nr, -math.inf, o)]
  if k == 'slice':
    return [(n_.array([pf(a) for a in r['nrm']]), pf(r['lo']), pf(r['hi']))]
  return lin_constraints(r['a']) + lin_constraints(r['b'])


def qp_nearest(r, p, x0):
  """independent QP: minimise |x-p|^2 over the region with SciPy SLSQP. None when it fails."""
  from scipy.optimize import minimize
  n_ = np()
  cons = []
  for a, l, u in lin_constraints(r):
    if l == u:
      cons.append({'type': 'eq', 'fun': (lambda x, a=a, l=l: a.dot(x) - l), 'jac': (lambda x, a=a: a)})
      continue
    if l > -math.inf:
      cons.append({'type': 'ineq', 'fun': (lambda x, a=a, l=l: a.dot(x) - l), 'jac': (lambda x, a=a: a)})
    if u < math.inf:
      cons.append({'type': 'ineq', 'fun': (lambda x, a=a, u=u: u - a.dot(x)), 'jac': (lambda x, a=a: -a)})
  try:
    o = minimize(lambda x: ((x - p)**2).sum(), n_.array(x0, dtype=float), jac=lambda x: 2*(x - p), method='SLSQP',
                 constraints=cons, options={'ftol': 1e-13, 'maxiter': 300})
  except Exception:
    return None
  if not o.success or fviol(r, o.x) > 1e-9:
    return None
  return o.x


def sample_member(r, rng, z=None, tries=40):
  """a random float member of a vector region (None if none found)."""
  n_ = np()
  n = G.vlen(r)
  k = r['k']
  q = n_.array([rng.uniform(-7, 7) for _ in range(n)])
  if k == 'cube':
    lo = n_.array([pf(a) for a in r['lo']]); hi = n_.array([pf(a) for a in r['hi']])
    t = n_.array([rng.choice([0.0, 1.0, rng.random(), rng.random()]) for _ in range(n)])
    return lo + t*(hi - lo)
  if k in ('half', 'slice'):
    nr = n_.array([pf(a) for a in r['nrm']]); d = float(nr.dot(q)); nn = float(nr.dot(nr))
    if k == 'half':
      o = pf(r['o']); u = rng.choice([0.0, rng.random()*3])
      level = o + u if pf(r['sign']) > 0 else o - u
      if (pf(r['sign']) > 0 and d >= o) or (pf(r['sign']) < 0 and d <= o):
        level = d if rng.random() < 0.5 else level
    else:
      lo, hi = pf(r['lo']), pf(r['hi'])
      level = rng.choice([lo, hi, lo + rng.random()*(hi - lo)])
    y = q + nr*((level - d)/nn)
    return y if fviol(r, y) <= 1e-12 else None
  # intersection: rejection, then pull towards a known member
  for _ in range(tries):
    y = sample_member(r['a'], rng)
    if y is not None and fviol(r, y) <= 1e-12:
      return y
    y = sample_member(r['b'], rng)
    if y is not None and fviol(r, y) <= 1e-12:
      return y
    if z is not None and y is not None:
      zz = n_.array(z)
      for t in (0.5, 0.1, 0.01):
        w = zz + t*(y - zz)
        if fviol(r, w) <= 1e-12:
          return w
  return n_.array(z) if z is not None else None


def forms_of(r):
  k = r['k']
  if k in ('inter', 'minter'):
    return '(%s, %s)' % (forms_of(r['a']), forms_of(r['b']))
  if k == 'list':
    return '[%s]' % ', '.join(forms_of(x) for x in r['rs'])
  return '%s%s' % (r.get('_form', 'list'), ('#' + r['_share']) if r.get('_share') else '')


def json_short(t):
  import json as _j
  return _j.dumps(C.__dict__.get('strip', lambda v: v)(t), default=str)[:600]


def kind_of(r):
  return r['k']


def fail(cls, kind, detail):
  return {'key': {'cls': cls, 'kind': kind}, 'detail': detail}


CLSNAME = {'cube': 'HyperCube', 'half': 'HalfSpace', 'slice': 'Slice', 'inter': 'Intersection', 'list': 'List', 'minter': 'Intersection'}


def check_vector(r, p_exact, p, x, reg, rng, z, where=''):
  """all the facts the property states about x = region.project(p) for a vector region."""
  n_ = np()
  cls = CLSNAME[r['k']]
  desc = '%s%s region=%s point=%s' % (where, cls, r, [fs(t) for t in p_exact])
  x = n_.array(x, dtype=float)
  if x.shape != (len(p),):
    return [fail(cls, 'shape', '%s: result has shape %s' % (desc, x.shape))]
  if not n_.isfinite(x).all():
    return [fail(cls, 'nonfinite', '%s: result %s' % (desc, x))]
  out = []
  v = fviol(r, x)
  if v > EPS:
    out.append(fail(cls, 'not-member', '%s: project gives %s which violates the region by %.3g' % (desc, x.tolist(), v)))
  dres = float(((x - p)**2).sum())
  cf = closed_form(r, p)
  tolf = float(documented_tol())
  if cf is not None and n_.abs(cf - x).max() > tolf + 1e-11*max(1.0, n_.abs(cf).max()):
    out.append(fail(cls, 'not-nearest', '%s: project gives %s, the nearest point is %s (differs by %.3g, documented tolerance %.3g)' % (
      desc, x.tolist(), cf.tolist(), float(n_.abs(cf - x).max()), tolf)))
  fd = fdisp(r, x)
  if fd is not None and fd > tolf*(1 + 1e-3) + 1e-11*max(1.0, n_.abs(x).max()):
    out.append(fail(cls, 'not-member', '%s: project gives %s which is still %.3g outside the region in some coordinate (documented tolerance %.3g)' % (
      desc, x.tolist(), fd, tolf)))
  for _ in range(12):
    y = sample_member(r, rng, z)
    if y is None:
      continue
    dy_ = float(((y - p)**2).sum())
    if dres > dy_ + 1e-7*(1 + dy_):
      out.append(fail(cls, 'not-nearest', '%s: project gives %s at squared distance %.9g but the member %s is at %.9g' % (desc, x.tolist(), dres, y.tolist(), dy_)))
      break
  if len(p) <= 6 and r['k'] == 'inter':
    q = qp_nearest(r, p, z if z is not None else x)
    if q is not None:
      dq = float(((q - p)**2).sum())
      if dres > dq + 1e-6*(1 + dq):
        out.append(fail(cls, 'not-nearest', '%s: project gives %s at squared distance %.9g but the QP solution %s is at %.9g' % (desc, x.tolist(), dres, q.tolist(), dq)))
  ve = G.violation(r, p_exact)
  if ve == 0 and n_.abs(x - p).max() > 1e-9:
    out.append(fail(cls, 'member-moved', '%s: the point is a member but project returns %s' % (desc, x.tolist())))
  try:
    x2 = n_.array(reg.project(x), dtype=float)
    if n_.abs(x2 - x).max() > 1e-8*max(1.0, n_.abs(x).max()):
      out.append(fail(cls, 'not-idempotent', '%s: project(project(p))=%s but project(p)=%s' % (desc, x2.tolist(), x.tolist())))
    if not reg.is_in(x):
      out.append(fail(cls, 'result-not-is_in', '%s: is_in(project(p)) is False for project(p)=%s (violates the region by %.3g)' % (desc, x.tolist(), v)))
  except Exception as e:
    out.append(fail(cls, 'idempotent-raises', '%s: projecting the result %s raised %s' % (desc, x.tolist(), type(e).__name__)))
  return out


def documented_tol():
  """the tolerance the source documents: the class attribute `ConvexRegion.tol` of the base class (every region class is
  held to it; a subclass quietly using another value is a deviation from the documented behaviour)."""
  C.repo()
  from device_kit import projection as P
  return Fraction(P.ConvexRegion.tol)


def expected_is_in(r, p_exact, tol):
  """(verdict, decidable): `is_in` is documented as "the projection moves no coordinate by more than tol"; for the simple
  classes that displacement is known exactly.  Within a relative 1e-6 of tol the verdict is left open (float rounding)."""
  k = r['k']
  if k == 'inter':
    a, da = expected_is_in(r['a'], p_exact, tol); b, db = expected_is_in(r['b'], p_exact, tol)
    return (a and b), (da and db)
  disp = G.displacement(r, p_exact)
  return disp <= tol, abs(disp - tol) > tol/10**6


def fdisp(r, x):
  """float: largest coordinate of the displacement that would bring x into a simple region."""
  cf = closed_form(r, x)
  return float(np().abs(cf - x).max()) if cf is not None else None


def check_is_in(r, p_exact, p, reg, where=''):
  cls = CLSNAME[r['k']]
  tol = documented_tol()
  want, decidable = expected_is_in(r, p_exact, tol)
  if not decidable:
    return []
  got = bool(reg.is_in(p))
  if got != want:
    return [fail(cls, 'is_in', '%s%s region=%s: is_in(%s) = %s but the nearest member is %s away in some coordinate (documented tolerance %.3g: the point %s a member)' % (
      where, cls, r, [fs(t) for t in p_exact], got, 'not' if G.violation(r, p_exact) == 0 else '> tol' if not want else '<= tol', float(tol), 'is' if want else 'is not'))]
  return []


# ---------------------------------------------------------------- the property
class C18(Prop):
  id = 'C18'
  lean_module = 'DK.Props.C18'
  uses_t1 = False
  theorems = []     # filled below
  rule = ('region class (box / half-space / slab / pairwise intersection incl. nested / row- and column-list) x dimension n '
          '(1..6 quick, 1..12 thorough) x normals with rational and irrational norm x ~20 % boxes and slabs with zero-width sides x '
          'point inside / on the boundary / outside (chosen by construction) x wrong lengths and rejected constructors; device level: '
          'every leaf class, random trees, MF adaptors, flat and shaped input; non-trivial: the point is outside the region '
          '(device level: some slot out of bounds)')
  sizes = {'quick': 1500, 'thorough': 16000}
  assumptions = ['T2 runs Intersection with _maxiter = 25 on both sides (exact rational Dykstra iterates grow); the oracle uses the shipped 1000',
                 'integer-typed points are sent as Python ints / integer arrays on the implementation side and as the same exact numbers to the model',
                 'utils.project (SciPy SLSQP) is a parameter: oracle only, feasibility 1e-6 and distance against random feasible points']

  def __init__(self):
    self.stats = {}

  def bump(self, k):
    self.stats[k] = self.stats.get(k, 0) + 1

  # ------------------------------------------------------------ cases
  def corpus(self):
    """minimised past failures (run first on every check): inputs on which an earlier revision of the library failed."""
    import json as _json, os as _os
    path = _os.path.join(_os.path.dirname(_os.path.abspath(__file__)), 'c18_corpus.json')
    return _json.load(open(path)) if _os.path.exists(path) else []

  def cases(self, rng, tier, count):
    out = []
    kinds = ['cube']*6 + ['halfspace']*6 + ['slice']*6 + ['inter']*6 + ['list']*4 + ['minter']*1 + ['device']*4 + ['set']*4 + ['mf']*2
    n_utils = max(6, count//60)
    for _ in range(count):
      out.append(self.one(rng, tier, rng.choice(kinds)))
    for _ in range(n_utils):
      out.append(self.one(rng, tier, 'utils'))
    # long vectors: boxes are cheap, and vectorised fast paths hide behind length thresholds
    for n in (65, 96, 65, 96):
      out.append(self.one(rng, tier, 'cube', n=n))
      out.append(self.one(rng, tier, 'device', n=n))
    return out

  def pick_n(self, rng, tier):
    return rng.randint(1, 6) if tier != 'thorough' else rng.choice(list(range(1, 13)) + [1, 2, 3, 4])

  def one(self, rng, tier, kind, n=None):
    force_n = n
    case = {'kind': kind, 'seed': rng.randrange(1 << 30), 'tol': TOL, 'maxiter': 25}
    if kind in ('cube', 'halfspace', 'slice'):
      n = force_n or self.pick_n(rng, tier)
      integer = rng.random() < 0.15
      p = G.gen_point(rng, n, integer=integer)
      mode = rng.choice(G.MODES)
      r = {'cube': G.gen_cube, 'halfspace': G.gen_half, 'slice': G.gen_slice}[kind](rng, p, mode)
      q = rng.random()
      if q < 0.03:
        p = p + [F(1)] if rng.random() < 0.5 or n == 1 else p[:-1]      # wrong length
      elif q < 0.06 and kind == 'halfspace':
        r['sign'] = '0'
      elif q < 0.06 and kind == 'slice':
        r['lo'], r['hi'] = fs(F(r['hi']) + 1), r['lo']
      G.assign_forms(rng, r)
      case.update({'r': r, 'p': G.L(p), '_int': integer and all(x.denominator == 1 for x in p), 'mode': mode,
                   '_pform': rng.choice(['list', 'list', 'tuple', 'ndarray'])})
    elif kind == 'inter':
      n = self.pick_n(rng, tier)
      if n >= 2 and rng.random() < 0.05:
        r, p, z = G.gen_wedge(rng, n)
        case['wedge'] = True
      elif rng.random() < 0.1:
        p = G.gen_point(rng, n); mode = rng.choice(G.MODES)
        r = G.gen_hand_slab(rng, p, mode)
        z = list(p) if mode in ('inside', 'boundary') else None
      else:
        r, p, z = G.gen_inter(rng, n)
      q = rng.random() if not case.get('wedge') else 1.0
      if q < 0.03:
        p = p + [F(1)]
      elif q < 0.06:
        r['b'] = G.gen_vregion(rng, G.gen_point(rng, n + 1), 'random')   # different dimensionality
        z = None
      G.assign_forms(rng, r)
      case.update({'r': r, 'p': G.L(p), 'z': G.L(z) if z is not None else None, '_int': False,
                   '_pform': rng.choice(['list', 'list', 'tuple', 'ndarray'])})
    elif kind == 'list':
      r, P = G.gen_list(rng, tier)
      integer = rng.random() < 0.12
      if integer:
        P = [[F(round(x)) for x in row] for row in P]
      shape = [len(P), len(P[0])]
      q = rng.random()
      if q < 0.04:
        P = [row + [F(0)] for row in P]; shape = [len(P), len(P[0])]            # wrong shape
      elif q < 0.08 and len(r['rs']) > 1:
        r['rs'][-1] = G.gen_vregion(rng, G.gen_point(rng, G.vlen(r['rs'][0]) + 1), 'random')   # a region of another length
      elif q < 0.10:
        r['axis'] = 2
      G.assign_forms(rng, r)
      case.update({'r': r, 'P': [G.L(row) for row in P], 'shape': shape, '_int': integer, '_asarray': rng.random() < 0.6})
    elif kind == 'minter':
      # two lists over the same lines (same axis, same shape): the intersection is line-wise a_k ∩ b_k
      axis = rng.choice([0, 1]); nreg = rng.randint(1, 3); l = rng.randint(1, 3)
      zs = [G.gen_point(rng, l, bits=1, span=3) for _ in range(nreg)]
      ra = {'k': 'list', 'axis': axis, 'rs': [G.gen_vregion(rng, z, rng.choice(['inside', 'boundary'])) for z in zs]}
      rb = {'k': 'list', 'axis': axis, 'rs': [G.gen_vregion(rng, z, rng.choice(['inside', 'inside', 'boundary'])) for z in zs]}
      lines = [[x + dy(rng, -2, 2) for x in z] if rng.random() < 0.7 else list(z) for z in zs]
      P = [list(ln) for ln in lines] if axis == 0 else [[lines[c][k] for c in range(nreg)] for k in range(l)]
      if rng.random() < 0.06:
        rb['axis'] = 1 - axis
      grp = {}
      G.assign_forms(rng, ra, grp); G.assign_forms(rng, rb, grp)
      case.update({'r': {'k': 'minter', 'a': ra, 'b': rb}, 'P': [G.L(row) for row in P], 'shape': [len(P), len(P[0])], '_int': False,
                   'z': [G.L(z) for z in zs]})
    elif kind == 'device':
      d = (gen.gen_leaf(rng, 'quick', ['Device', 'IDevice2', 'PVDevice', 'CDevice', 'GDevice', 'SDevice'], n=force_n) if force_n
           else gen.gen_leaf(rng, tier if tier != 'thorough' else 'thorough'))
      if rng.random() < 0.3:
        # setter-then-project: the device is built with the bounds of `dev0`, then `device.bounds = …` is assigned
        d2 = gen.gen_leaf(rng, 'quick', [d['cls']], n=d['n'])
        case['dev0'] = d
        d = dict(d, lb=d2['lb'], hb=d2['hb'], _py=dict(d['_py'], bform=d2['_py']['bform']))
        if d['cls'] == 'CDevice2' or d.get('cbs'):
          d['cbs'] = case['dev0']['cbs']
      s = self.perturbed(rng, [F(x) for x in gen.leaf_flow(rng, d)])
      size = len(s)
      if rng.random() < 0.04:
        s = s + [F(0)]; size += 1
      case.update({'dev': d, 's': G.L(s), 'size': size, '_shape': rng.choice(['flat', 'row', 'col'])})
    elif kind in ('set', 'mf'):
      if kind == 'set':
        t, n = gen.gen_tree(rng, 'quick' if tier != 'thorough' else 'thorough')
      else:
        n = rng.randint(1, 6) if tier != 'thorough' else rng.randint(1, 12)
        t = self.gen_mf(rng, tier, n)
      if kind == 'set' and rng.random() < 0.25:
        leaves = [b for b in gen.tree_leaves(t) if b['k'] == 'leaf']
        if leaves:
          import copy
          case['tree0'] = copy.deepcopy(t)
          b = rng.choice(leaves)
          d2 = gen.gen_leaf(rng, 'quick', [b['dev']['cls']], n=n)
          b['dev'] = dict(b['dev'], lb=d2['lb'], hb=d2['hb'], _py=dict(b['dev']['_py'], bform=d2['_py']['bform']))
          case['rebound'] = b['id']
      S = gen.tree_flow(rng, t, n)
      S = [G.L(self.perturbed(rng, [F(x) for x in row])) for row in S]
      size = len(S)*n
      form = rng.choice(['flat', 'shaped'])
      if rng.random() < 0.04:
        form = 'flat+1'; size += 1
      case.update({'tree': t, 'n': n, 'S': S, 'size': size, '_form': form})
    elif kind == 'utils':
      if rng.random() < 0.5:
        t, n = gen.gen_tree(rng, 'quick')
        P = [[dy(rng, -6, 6) for _ in range(n)] for _ in range(gen.tree_rows(t))]
        case.update({'tree': t, 'n': n, 'P': [G.L(row) for row in P]})
      else:
        d = gen.gen_leaf(rng, 'quick', ['Device', 'IDevice2', 'CDevice', 'PVDevice'], with_cbounds=rng.random() < 0.7)
        p = [dy(rng, -6, 6) for _ in range(d['n'])]
        case.update({'dev': d, 'p': G.L(p)})
    return case

  def perturbed(self, rng, s):
    mode = rng.choice(['in', 'out', 'out', 'far'])
    if mode == 'in':
      return s
    if mode == 'far':
      return [dy(rng, -8, 8) for _ in s]
    return [x + (dy(rng, Fraction(1, 4), 3)*rng.choice([1, -1]) if rng.random() < 0.5 else 0) for x in s]

  def gen_mf(self, rng, tier, n):
    cls = rng.choice(['Device', 'CDevice', 'CDevice2', 'IDevice', 'IDevice2', 'GDevice', 'PVDevice', 'ADevice'])
    d = gen.gen_leaf(rng, 'quick', [cls], n=n)
    lb = [F(x) for x in d['lb']]; hb = [F(x) for x in d['hb']]
    if any(x < 0 for x in lb) and any(x > 0 for x in hb):
      d = gen.gen_leaf(rng, 'quick', ['IDevice2'], n=n)
    k = rng.choice([1, 2, 2, 3, 4])
    t = {'k': 'mf', 'id': 'm1', 'dev': d, 'flows': ['e', 'h', 'g', 'w'][:k], 'ratios': None}
    if k == 2 and rng.random() < 0.3:
      t['ratios'] = [fs(dy(rng, 1, 3)), fs(dy(rng, 1, 3))]; t['ctype'] = 'eq'
    return t

  # ------------------------------------------------------------ T2
  def ops(self, case):
    kind = case['kind']
    n_ = np()
    if kind in ('cube', 'halfspace', 'slice', 'inter', 'list', 'minter'):
      M = case['maxiter']
      key = 'P' if kind in ('list', 'minter') else 'p'
      base = {'r': case['r'], key: case[key], 'tol': case['tol'], 'maxiter': M}
      if kind in ('list', 'minter'):
        base['shape'] = case['shape']
      def proj():
        return build_region(case['r'], M).project(py_point(case))
      def isin():
        return [1.0 if build_region(case['r'], M).is_in(py_point(case)) else 0.0]
      return [Op(dict(base, op='proj.' + ('list' if kind == 'minter' else kind)), flagged(proj), 1e-9, 'project ' + kind),
              Op(dict(base, op='proj.isin'), flagged(isin), 1e-9, 'is_in ' + kind)]
    if kind == 'device':
      d = case['dev']
      def proj():
        dev = self.build_dev(case)
        return dev.project(self.dev_input(case))
      return [Op({'op': 'proj.device', 'dev': d, 's': case['s'], 'size': case['size']}, flagged(proj), 1e-9, 'Device.project')]
    if kind in ('set', 'mf'):
      def proj():
        dev = self.build_set(case)
        return dev.project(self.set_input(case))
      return [Op({'op': 'proj.' + kind, 'tree': case['tree'], 'n': case['n'], 'S': case['S'], 'size': case['size']}, flagged(proj), 1e-9,
                 'DeviceSet.project' if kind == 'set' else 'MFDeviceSet.project')]
    return []

  def build_dev(self, case):
    """the leaf device of a `device` case; with `dev0` the bounds are re-assigned after construction."""
    if 'dev0' in case:
      dev = build.build_leaf(case['dev0'])
      dev.bounds = build.py_bounds(case['dev'])
      return dev
    return build.build_leaf(case['dev'])

  def build_set(self, case):
    """the tree of a `set` / `mf` case; with `tree0` one leaf gets `device.bounds = …` after the tree was built."""
    if 'tree0' not in case:
      return build.build_tree(case['tree'])
    dk = C.repo()
    root = build.build_tree(case['tree0'])
    new = [b for b in gen.tree_leaves(case['tree']) if b['k'] == 'leaf' and b['id'] == case['rebound']][0]['dev']
    def walk(d):
      if isinstance(d, dk.MFDeviceSet):
        return False
      if hasattr(d, 'devices'):
        return any(walk(c) for c in d.devices)
      if d.id == case['rebound']:
        d.bounds = build.py_bounds(new)
        return True
      return False
    assert walk(root), 'leaf %s not found' % case['rebound']
    return root

  def dev_input(self, case):
    a = build.arr(case['s'])
    sh = case.get('_shape')
    return a.reshape(1, -1) if sh == 'row' else a.reshape(-1, 1) if sh == 'col' else a

  def set_input(self, case, form=None):
    n_ = np()
    form = form or case['_form']
    a = build.arr(case['S'])
    if form == 'flat':
      return a.reshape(-1)
    if form == 'flat+1':
      return n_.concatenate((a.reshape(-1), [0.0]))
    return a

  # ------------------------------------------------------------ oracle
  def oracle(self, case):
    kind = case['kind']
    self.bump('oracle:' + kind)
    rng = random.Random(case['seed'])
    if kind in ('cube', 'halfspace', 'slice', 'inter'):
      return self.oracle_vregion(case, rng)
    if kind == 'list':
      return self.oracle_list(case, rng)
    if kind == 'minter':
      return self.oracle_minter(case, rng)
    if kind == 'device':
      return self.oracle_device(case)
    if kind in ('set', 'mf'):
      return self.oracle_set(case)
    if kind == 'utils':
      return self.oracle_utils(case, rng)
    return []

  def oracle_vregion(self, case, rng):
    n_ = np()
    r = case['r']; cls = CLSNAME[r['k']]
    p_exact = [F(x) for x in case['p']]
    expect_ve = (not G.ctor_ok(r)) or len(p_exact) != G.vlen(r)
    desc = '%s region=%s point=%s' % (cls, r, case['p'])
    args = Args()
    if case.get('_pform') or r.get('_form') or r.get('_share'):
      desc += ' [argument forms: point %s, %s]' % (case.get('_pform', 'list'), forms_of(r))
    try:
      reg = build_region(r, None, args)
      pt = py_point(case)
      pt_before = n_.array(pt, copy=True)
      x = reg.project(pt)
    except ValueError:
      if expect_ve:
        return []
      return [fail(cls, 'raises', desc + ': ValueError for a valid region and a point of the right length')]
    except Exception as e:
      if type(e) is Exception and r['k'] == 'inter' and not expect_ve:
        self.bump('dykstra-raised')
        if G.violation(r, p_exact) == 0:
          return [fail(cls, 'raises', desc + ': the point is a member of both regions but project raised at maxiter')]
        return []
      return [fail(cls, 'raises', '%s: project raised %s: %s' % (desc, type(e).__name__, str(e)[:100]))]
    if expect_ve:
      return [fail(cls, 'no-raise', desc + ': a rejected constructor argument / wrong point length was accepted, result %s' % (n_.array(x).tolist(),))]
    p = n_.array([float(t) for t in p_exact])
    z = [pf(t) for t in case['z']] if case.get('z') else None
    if r['k'] == 'inter':
      try:
        path = 'shortcut-a' if reg._b.is_in(reg._a.project(pt)) else 'shortcut-b' if reg._a.is_in(reg._b.project(pt)) else 'dykstra-returned'
      except Exception:
        path = 'nested-raise'
      self.bump('inter:' + path)
    else:
      self.bump('%s:%s' % (kind_of(r), case.get('mode')))
    if G.has_degenerate(r):
      self.bump('degenerate-side')
    out = check_vector(r, p_exact, p, x, reg, rng, z)
    out += check_is_in(r, p_exact, pt, reg)
    if not n_.array_equal(pt_before, n_.array(pt)):
      out.append(fail(cls, 'input-mutated', desc + ': project / is_in changed the caller\'s point'))
    mut = args.mutated()
    if mut:
      out.append(fail(cls, 'ctor-arg-mutated', desc + ': the library wrote into a constructor argument owned by the caller: ' + '; '.join(mut)))
    # the reverse direction: the caller overwrites its own arrays after construction; the region must not change
    done = args.scramble()
    if done:
      try:
        x_after = n_.array(reg.project(py_point(case)), dtype=float)
        if x_after.shape != n_.array(x).shape or n_.abs(x_after - n_.array(x, dtype=float)).max() > 0:
          out.append(fail(cls, 'aliases-caller-data', '%s: after the caller overwrote its own %s the same point projects to %s instead of %s' % (
            desc, ', '.join(done), x_after.tolist(), n_.array(x).tolist())))
      except Exception as e:
        out.append(fail(cls, 'aliases-caller-data', '%s: after the caller overwrote its own %s project raised %s' % (desc, ', '.join(done), type(e).__name__)))
    return out

  def oracle_list(self, case, rng):
    n_ = np()
    r = case['r']
    desc = 'List axis=%s regions=%s point=%s' % (r['axis'], r['rs'], case['P'])
    P_exact = [[F(x) for x in row] for row in case['P']]
    lens = [G.vlen(x) for x in r['rs']]
    expect_ve = (not G.ctor_ok(r)) or r['axis'] not in (0, 1)
    if not expect_ve:
      expect_ve = tuple(case['shape']) != G.mshape(r) or len(set(lens)) != 1
    args = Args()
    try:
      reg = build_region(r, None, args)
      pt = py_point(case)
      before = n_.array(pt, copy=True)
      X = reg.project(pt)
    except ValueError:
      return [] if expect_ve else [fail('List', 'raises', desc + ': ValueError for a valid list region and a point of the right shape')]
    except Exception as e:
      if type(e) is Exception and not expect_ve and any(x['k'] == 'inter' for x in r['rs']):
        self.bump('dykstra-raised')
        lines_ok = all(G.violation(sub, (P_exact[k] if r['axis'] == 0 else [row[k] for row in P_exact])) == 0 for k, sub in enumerate(r['rs']))
        return [fail('List', 'raises', desc + ': every line is a member of its region but project raised at maxiter')] if lines_ok else []
      return [fail('List', 'raises', '%s: project raised %s: %s' % (desc, type(e).__name__, str(e)[:100]))]
    if expect_ve:
      return [fail('List', 'no-raise', desc + ': wrong shape / axis / region length accepted')]
    X = n_.array(X)
    out = []
    if X.shape != tuple(case['shape']):
      return [fail('List', 'shape', '%s: result shape %s' % (desc, X.shape))]
    if not n_.array_equal(before, n_.array(pt)):
      out.append(fail('List', 'input-mutated', desc + ': project changed the caller\'s point'))
    Xf = X.astype(float); Pf = n_.array([[float(t) for t in row] for row in P_exact])
    allin = True
    for k, sub in enumerate(r['rs']):
      line_exact = P_exact[k] if r['axis'] == 0 else [row[k] for row in P_exact]
      line = Pf[k, :] if r['axis'] == 0 else Pf[:, k]
      xl = Xf[k, :] if r['axis'] == 0 else Xf[:, k]
      kindtag = 'int-dtype-truncation' if case.get('_int') else None
      sub_reg = reg._regions[k]
      fs_ = check_vector(sub, line_exact, line, xl, sub_reg, rng, None, where='List(%s %d of axis %d, %s point) ' % (
        'row' if r['axis'] == 0 else 'column', k, r['axis'], 'integer-typed' if case.get('_int') else 'float'))
      for f in fs_:
        if kindtag:
          f['key'] = {'cls': 'List', 'kind': kindtag}
        else:
          f['key']['cls'] = 'List'
      out += fs_
      allin = allin and G.violation(sub, line_exact) == 0
    tol_ = documented_tol()
    verdicts = [expected_is_in(sub, (P_exact[k] if r['axis'] == 0 else [row[k] for row in P_exact]), tol_) for k, sub in enumerate(r['rs'])]
    allin = all(v for v, _ in verdicts)
    far = all(d for _, d in verdicts)
    try:
      got_in = bool(reg.is_in(pt))
    except Exception as e:
      if type(e) is Exception and any(x['k'] == 'inter' for x in r['rs']):
        got_in = None
      else:
        raise
    mut = args.mutated()
    if mut:
      out.append(fail('List', 'ctor-arg-mutated', desc + ': the library wrote into a constructor argument owned by the caller: ' + '; '.join(mut)))
    done = args.scramble()
    if done:
      try:
        X_after = n_.array(reg.project(py_point(case)), dtype=float)
        if X_after.shape != Xf.shape or n_.abs(X_after - Xf).max() > 0:
          out.append(fail('List', 'aliases-caller-data', '%s: after the caller overwrote its own %s the same point projects to %s instead of %s' % (
            desc, ', '.join(done), X_after.tolist(), Xf.tolist())))
      except Exception as e:
        out.append(fail('List', 'aliases-caller-data', '%s: after the caller overwrote its own %s project raised %s' % (desc, ', '.join(done), type(e).__name__)))
    if far and got_in is not None and got_in != allin:
      out.append(fail('List', 'is_in' if not case.get('_int') else 'int-dtype-truncation',
                      '%s: is_in = %s but the point %s a member' % (desc, got_in, 'is' if allin else 'is not')))
    return out[:3]

  def oracle_minter(self, case, rng):
    """Intersection(List, List) over the same lines: the nearest point is line-wise that of a_k ∩ b_k."""
    n_ = np()
    r = case['r']; ra, rb = r['a'], r['b']
    desc = 'Intersection(List, List) a=%s b=%s point=%s' % (ra, rb, case['P'])
    same = ra['axis'] == rb['axis'] and G.mshape(ra) == G.mshape(rb) == tuple(case['shape'])
    try:
      reg = build_region(r)
      pt = py_point(case)
      X = reg.project(pt)
    except ValueError:
      return [] if not same else [fail('Intersection', 'raises', desc + ': ValueError for two lists of the same shape')]
    except Exception as e:
      if type(e) is Exception:
        self.bump('dykstra-raised')
        return []
      return [fail('Intersection', 'raises', '%s: project raised %s: %s' % (desc, type(e).__name__, str(e)[:100]))]
    if not same:
      # lists of different orientation but equal size pass the constructor; the first projection then rejects the shape
      if G.mshape(ra) != G.mshape(rb):
        return [fail('Intersection', 'no-raise', desc + ': lists of different shape were intersected and projected')]
      return []
    X = n_.array(X, dtype=float)
    if X.shape != tuple(case['shape']):
      return [fail('Intersection', 'shape', '%s: result shape %s' % (desc, X.shape))]
    P_exact = [[F(x) for x in row] for row in case['P']]
    Pf = n_.array([[float(t) for t in row] for row in P_exact])
    out = []
    axis = ra['axis']
    for k in range(len(ra['rs'])):
      sub = {'k': 'inter', 'a': ra['rs'][k], 'b': rb['rs'][k]}
      line_exact = P_exact[k] if axis == 0 else [row[k] for row in P_exact]
      line = Pf[k, :] if axis == 0 else Pf[:, k]
      xl = X[k, :] if axis == 0 else X[:, k]
      v = fviol(sub, xl)
      if v > EPS:
        out.append(fail('Intersection', 'not-member', '%s: line %d of the result %s violates its regions by %.3g' % (desc, k, xl.tolist(), v)))
      z = [pf(t) for t in case['z'][k]]
      q = qp_nearest(sub, line, z)
      if q is not None:
        dres = float(((xl - line)**2).sum()); dq = float(((q - line)**2).sum())
        if dres > dq + 1e-6*(1 + dq):
          out.append(fail('Intersection', 'not-nearest', '%s: line %d: result %s at squared distance %.9g, QP solution %s at %.9g' % (desc, k, xl.tolist(), dres, q.tolist(), dq)))
      if G.violation(sub, line_exact) == 0 and n_.abs(xl - line).max() > 1e-9:
        out.append(fail('Intersection', 'member-moved', '%s: line %d is a member of both regions but was moved to %s' % (desc, k, xl.tolist())))
    return out[:3]

  def oracle_device(self, case):
    n_ = np()
    d = case['dev']; cls = d['cls']
    lb = n_.array([pf(x) for x in d['lb']]); hb = n_.array([pf(x) for x in d['hb']])
    desc = '%s n=%d lb=%s hb=%s s=%s (%s input)' % (cls, d['n'], d['lb'], d['hb'], case['s'], case.get('_shape'))
    if 'dev0' in case:
      desc += ' [built with lb=%s hb=%s, then device.bounds assigned]' % (case['dev0']['lb'], case['dev0']['hb'])
      self.bump('device:setter-then-project')
    dev = self.build_dev(case)
    s_in = self.dev_input(case)
    keep = s_in.copy()
    try:
      x = dev.project(s_in)
    except ValueError:
      return [] if case['size'] != d['n'] else [fail(cls, 'raises', desc + ': Device.project raised ValueError')]
    except Exception as e:
      return [fail(cls, 'raises', '%s: Device.project raised %s: %s' % (desc, type(e).__name__, str(e)[:100]))]
    if case['size'] != d['n']:
      return [fail(cls, 'no-raise', desc + ': an input with %d entries was accepted by a device of length %d' % (case['size'], d['n']))]
    x = n_.array(x, dtype=float)
    out = []
    if x.shape != (1, d['n']):
      return [fail(cls, 'shape', '%s: result shape %s, device shape (1, %d)' % (desc, x.shape, d['n']))]
    if not n_.array_equal(keep, s_in):
      out.append(fail(cls, 'input-mutated', desc + ': the caller\'s array was changed'))
    s = keep.reshape(-1); x = x.reshape(-1)
    if ((x < lb - 1e-12) | (x > hb + 1e-12)).any():
      out.append(fail(cls, 'out-of-bounds', '%s: project gives %s outside the per-slot bounds' % (desc, x.tolist())))
    if ((s >= lb) & (s <= hb)).all() and n_.abs(x - s).max() > 0:
      out.append(fail(cls, 'member-moved', '%s: in-bounds input changed to %s' % (desc, x.tolist())))
    near = n_.minimum(n_.maximum(s, lb), hb)
    if n_.abs(x - near).max() > 1e-12:
      out.append(fail(cls, 'not-nearest', '%s: project gives %s, nearest in-bounds flow is %s' % (desc, x.tolist(), near.tolist())))
    x2 = n_.array(dev.project(x), dtype=float).reshape(-1)
    if n_.abs(x2 - x).max() > 0:
      out.append(fail(cls, 'not-idempotent', desc + ': projecting the result again changes it'))
    # call sequence: another input projected in between, then the same input again
    dev.project(n_.array(keep.reshape(-1)[::-1]*2 + 1))
    x5 = n_.array(dev.project(s_in), dtype=float).reshape(-1)
    if n_.abs(x5 - x).max() > 0:
      out.append(fail(cls, 'call-sequence', desc + ': the same input projects to %s after another projection was made in between' % (x5.tolist(),)))
    return out

  def oracle_set(self, case):
    n_ = np()
    t = case['tree']; n = case['n']
    cls = 'DeviceSet' if t['k'] == 'node' else 'MFDeviceSet'
    S = build.arr(case['S'])
    R = S.shape[0]
    desc = '%s rows=%d n=%d S=%s (%s input)' % (cls, R, n, case['S'], case['_form'])
    if 'tree0' in case:
      desc += ' [device.bounds of leaf %s assigned after the tree was built]' % case['rebound']
      self.bump('set:setter-then-project')
    dev = self.build_set(case)
    results = {}
    forms = [case['_form']] + [f for f in ('flat', 'shaped') if f != case['_form'] and case['_form'] != 'flat+1']
    for form in forms:
      s_in = self.set_input(case, form)
      try:
        results[form] = n_.array(dev.project(s_in), dtype=float)
      except ValueError:
        if form == 'flat+1':
          return []
        return [fail(cls, 'raises', '%s: project raised ValueError for %s input' % (desc, form))]
      except Exception as e:
        return [fail(cls, 'raises', '%s: project raised %s for %s input: %s' % (desc, type(e).__name__, form, str(e)[:100]))]
      if form == 'flat+1':
        return [fail(cls, 'no-raise', desc + ': an input with one entry too many was accepted')]
    out = []
    X = results[forms[0]]
    try:
      dev.project(-2*S[::-1] + 1)
      X5 = n_.array(dev.project(self.set_input(case, forms[0])), dtype=float)
      if X5.shape != X.shape or n_.abs(X5 - X).max() > 0:
        out.append(fail(cls, 'call-sequence', desc + ': the same input projects differently after another projection was made in between'))
    except Exception as e:
      out.append(fail(cls, 'raises', '%s: a second projection raised %s' % (desc, type(e).__name__)))
    for form in forms:
      if results[form].shape != (R, n):
        return [fail(cls, 'shape', '%s: result shape %s for %s input, device shape (%d, %d)' % (desc, results[form].shape, form, R, n))]
      if n_.abs(results[form] - X).max() > 0:
        out.append(fail(cls, 'flat-vs-shaped', desc + ': flat and shaped input give different projections'))
    row = 0
    for b in gen.tree_leaves(t):
      dd = b['dev']
      lb = n_.array([pf(x) for x in dd['lb']]); hb = n_.array([pf(x) for x in dd['hb']])
      if b['k'] == 'leaf':
        s = S[row]; x = X[row]
        near = n_.minimum(n_.maximum(s, lb), hb)
        if n_.abs(x - near).max() > 1e-12:
          out.append(fail(cls, 'block', '%s: row %d (%s) projects to %s, nearest in-bounds flow is %s' % (desc, row, dd['cls'], x.tolist(), near.tolist())))
        row += 1
      else:
        k = len(b['flows'])
        tot_in = S[row:row + k].sum(axis=0); tot = X[row:row + k].sum(axis=0)
        want = n_.minimum(n_.maximum(tot_in, lb), hb)
        if n_.abs(tot - want).max() > 1e-9:
          out.append(fail('MFDeviceSet', 'totals', '%s: MF block at row %d (k=%d): slot totals of the projection %s, wrapped device projects the input totals %s to %s' % (
            desc, row, k, tot.tolist(), tot_in.tolist(), want.tolist())))
        neg = (lb < 0).any()
        clo = lb if neg else n_.zeros(n); chi = n_.zeros(n) if neg else hb
        blk = X[row:row + k]
        if ((blk < clo - 1e-12) | (blk > chi + 1e-12)).any():
          out.append(fail('MFDeviceSet', 'out-of-bounds', '%s: MF block at row %d leaves the conduit bounds: %s' % (desc, row, blk.tolist())))
        row += k
    return out[:3]

  def utils_sequence(self, dk, P, x0, bounds, cons, desc):
    """the call sequence  default -> explicit solver_options -> default  on the same problem.  Returns the LAST
    default call's (x, o) and the failures of the sequence: the later default call must be what the first one gave
    (what a fresh process gives), whatever options another call used in between."""
    n_ = np()
    x1, o1 = dk.project(P, x0, bounds, cons)
    opts = {'maxiter': 1, 'ftol': 1e-2}
    keep = dict(opts)
    dk.project(P, x0, bounds, cons, opts)
    x3, o3 = dk.project(P, x0, bounds, cons)
    out = []
    if opts != keep:
      out.append(fail('utils.project', 'options-mutated', desc + ': the caller\'s solver_options dict was changed to %s' % (opts,)))
    d = float(n_.abs(n_.array(x3, dtype=float) - n_.array(x1, dtype=float)).max())
    st = lambda o: (getattr(o, 'status', None), getattr(o, 'nit', None))   # absent when SciPy answers an all-fixed problem itself
    if st(o3) != st(o1) or d > 1e-9:
      out.append(fail('utils.project', 'options-leak',
                      '%s: a default call made after a call with solver_options=%s differs from the same default call made before it: '
                      'status %s -> %s, iterations %s -> %s, result moved by %.3g (%s -> %s)' % (
                        desc, keep, st(o1)[0], st(o3)[0], st(o1)[1], st(o3)[1], d, n_.array(x1).reshape(-1).tolist(), n_.array(x3).reshape(-1).tolist())))
    return x3, o3, out

  def oracle_utils_tree(self, case, rng):
    """utils.project on a whole tree (sbounds, label balancing, MF, leaf cbounds / storage constraints): when SLSQP
    reports success the flow must satisfy the box and every constraint to 1e-6 (leaf cumulative bounds and aggregate
    bounds are recomputed from the description; the remaining constraints are read through the tree's own closures,
    which C03/C04/C17 tie to the model), and no box point that satisfies all constraints may be nearer."""
    n_ = np()
    dk = C.repo()
    t = case['tree']; n = case['n']
    dev = build.build_tree(t)
    P = build.arr(case['P'])
    lb, hb = gen.tree_box(t, n)
    lb = n_.array([float(x) for x in lb]); hb = n_.array([float(x) for x in hb])
    desc = 'utils.project on tree %s n=%d p=%s' % (json_short(t), n, case['P'])
    x0 = n_.array(dev.project(n_.zeros(dev.shape)), dtype=float).reshape(-1)   # flat, as solve.step passes it
    cons = dev.constraints
    if not SG.safe_to_solve(dev):
      self.bump('utils-skipped-unsafe-slsqp-shape')
      return []
    try:
      x, o, seq = self.utils_sequence(dk, P, x0, dev.bounds, cons, desc)
    except Exception as e:
      return [fail('utils.project', 'raises', '%s: raised %s: %s' % (desc, type(e).__name__, str(e)[:100]))]
    if seq:
      return seq
    if not o.success:
      self.bump('utils-slsqp-failed')
      return []
    self.bump('utils-tree-solved')
    out = []
    x = n_.array(x, dtype=float)
    if x.shape != x0.shape:
      return [fail('utils.project', 'shape', '%s: result shape %s, start shape %s' % (desc, x.shape, x0.shape))]
    x = x.reshape(tuple(dev.shape))
    xf = x.reshape(-1)
    if ((xf < lb - 1e-6) | (xf > hb + 1e-6)).any():
      out.append(fail('utils.project', 'out-of-bounds', '%s: result %s violates the bounds' % (desc, xf.tolist())))
    def cons_ok(y, tol):
      for c in cons:
        v = float(n_.array(c['fun'](y.reshape(-1))).reshape(-1)[0])
        if (c['type'] == 'eq' and abs(v) > tol) or (c['type'] != 'eq' and v < -tol):
          return False
      return True
    if not cons_ok(x, 1e-6):
      out.append(fail('utils.project', 'infeasible', '%s: result %s violates a constraint of the tree by more than 1e-6' % (desc, xf.tolist())))
    # independent recomputation of the documented limits
    row = 0
    for b in gen.tree_leaves(t):
      if b['k'] == 'leaf':
        for c in b['dev'].get('cbs') or []:
          sm = float(x[row, int(c[2]):int(c[3])].sum())
          if sm < pf(c[0]) - 1e-6 or sm > pf(c[1]) + 1e-6:
            out.append(fail('utils.project', 'infeasible', '%s: row %d sums to %.9g over [%s,%s), cumulative bound (%s, %s)' % (desc, row, sm, c[2], c[3], c[0], c[1])))
        row += 1
      else:
        row += len(b['flows'])
    if t.get('sb') is not None:
      tot = x.sum(axis=0)
      for i, (a, b_) in enumerate(t['sb']):
        if tot[i] < pf(a) - 1e-6 or tot[i] > pf(b_) + 1e-6:
          out.append(fail('utils.project', 'infeasible', '%s: slot %d totals %.9g, aggregate bound (%s, %s)' % (desc, i, tot[i], a, b_)))
    has_eq = any(c['type'] == 'eq' for c in cons)
    if not has_eq and not out:
      dres = float(((x - P)**2).sum())
      for _ in range(40):
        y = (lb + n_.array([rng.random() for _ in range(len(lb))])*(hb - lb)).reshape(x.shape)
        y = x + rng.choice([1.0, 0.5, 0.1])*(y - x)
        if cons_ok(y, 0.0):
          dy_ = float(((y - P)**2).sum())
          if dres > dy_ + 1e-5*(1 + dy_):
            out.append(fail('utils.project', 'not-nearest', '%s: result %s at squared distance %.9g, feasible %s at %.9g' % (desc, xf.tolist(), dres, y.reshape(-1).tolist(), dy_)))
            break
    return out[:3]

  def oracle_utils(self, case, rng):
    if 'tree' in case:
      return self.oracle_utils_tree(case, rng)
    n_ = np()
    dk = C.repo()
    d = case['dev']
    dev = build.build_leaf(d)
    p = n_.array([pf(x) for x in case['p']])
    lb = n_.array([pf(x) for x in d['lb']]); hb = n_.array([pf(x) for x in d['hb']])
    desc = 'utils.project p=%s device %s lb=%s hb=%s cbs=%s' % (case['p'], d['cls'], d['lb'], d['hb'], d['cbs'])
    x0 = dev.project(n_.zeros(dev.shape)).reshape(-1)
    if not SG.safe_to_solve(dev):
      self.bump('utils-skipped-unsafe-slsqp-shape')
      return []
    try:
      x, o, seq = self.utils_sequence(dk, p, x0, dev.bounds, dev.constraints, desc)
    except Exception as e:
      return [fail('utils.project', 'raises', '%s: raised %s: %s' % (desc, type(e).__name__, str(e)[:100]))]
    if seq:
      return seq
    if not o.success:
      self.bump('utils-slsqp-failed')
      return []
    out = []
    x = n_.array(x, dtype=float).reshape(-1)
    # an already feasible input is returned as it is (the projection is idempotent)
    try:
      x4, o4 = dk.project(x.copy(), x0, dev.bounds, dev.constraints)
      if o4.success and n_.abs(n_.array(x4, dtype=float).reshape(-1) - x).max() > 1e-3:   # ftol 1e-9 on the SQUARED distance ~ 3e-5 in position
        out.append(fail('utils.project', 'member-moved', '%s: projecting the feasible result %s again gives %s' % (desc, x.tolist(), n_.array(x4).reshape(-1).tolist())))
    except Exception as e:
      out.append(fail('utils.project', 'raises', '%s: projecting the result again raised %s' % (desc, type(e).__name__)))
    if ((x < lb - 1e-6) | (x > hb + 1e-6)).any():
      out.append(fail('utils.project', 'out-of-bounds', '%s: result %s violates the bounds' % (desc, x.tolist())))
    def feasible(y, tol):
      for c in d['cbs']:
        sm = float(y[int(c[2]):int(c[3])].sum())
        if sm < pf(c[0]) - tol or sm > pf(c[1]) + tol:
          return False
      return True
    if not feasible(x, 1e-6):
      out.append(fail('utils.project', 'infeasible', '%s: result %s violates a cumulative bound' % (desc, x.tolist())))
    dres = float(((x - p)**2).sum())
    for _ in range(60):
      y = lb + n_.array([rng.random() for _ in range(len(lb))])*(hb - lb)
      if rng.random() < 0.5:
        y = x + rng.random()*(y - x)
      if feasible(y, 0.0):
        dy_ = float(((y - p)**2).sum())
        if dres > dy_ + 1e-5*(1 + dy_):
          out.append(fail('utils.project', 'not-nearest', '%s: result %s at squared distance %.9g, feasible %s at %.9g' % (desc, x.tolist(), dres, y.tolist(), dy_)))
          break
    return out

  # ------------------------------------------------------------ evidence
  def nontrivial(self, case):
    kind = case['kind']
    try:
      if kind in ('cube', 'halfspace', 'slice', 'inter'):
        r = case['r']
        return G.ctor_ok(r) and len(case['p']) == G.vlen(r) and G.violation(r, [F(x) for x in case['p']]) > 0
      if kind == 'list':
        r = case['r']
        if not G.ctor_ok(r) or tuple(case['shape']) != G.mshape(r) or len(set(G.vlen(x) for x in r['rs'])) != 1:
          return False
        P = [[F(x) for x in row] for row in case['P']]
        return any(G.violation(sub, P[k] if r['axis'] == 0 else [row[k] for row in P]) > 0 for k, sub in enumerate(r['rs']))
      if kind == 'minter':
        return True
      if kind == 'device':
        d = case['dev']
        return case['size'] == d['n'] and any(not (F(a) <= F(x) <= F(b)) for a, b, x in zip(d['lb'], d['hb'], case['s']))
      if kind in ('set', 'mf'):
        lb, hb = gen.tree_box(case['tree'], case['n'])
        flat = [F(x) for row in case['S'] for x in row]
        return case['_form'] != 'flat+1' and any(not (a <= x <= b) for a, b, x in zip(lb, hb, flat))
    except Exception:
      return False
    return True

  def extra_evidence(self):
    return {'c18_counts': dict(self.stats)}


PROP = C18()
PROP.theorems = [
  'DK.C18.cube_proj_mem',
  'DK.C18.cube_proj_nearest',
  'DK.C18.cube_proj_fixes_members',
  'DK.C18.cube_proj_idempotent',
  'DK.C18.cube_isIn_iff_mem',
  'DK.C18.cube_isProjOnto',
  'DK.C18.halfspace_proj_mem',
  'DK.C18.halfspace_proj_nearest',
  'DK.C18.halfspace_proj_fixes_members',
  'DK.C18.halfspace_proj_idempotent',
  'DK.C18.halfspace_isIn_iff_mem',
  'DK.C18.halfspace_isProjOnto',
  'DK.C18.halfspace_sqrt_form',
  'DK.C18.slab_proj_mem',
  'DK.C18.slab_proj_nearest',
  'DK.C18.slab_proj_fixes_members',
  'DK.C18.slab_proj_idempotent',
  'DK.C18.slab_isIn_iff_mem',
  'DK.C18.slab_baseIsIn_iff_mem',
  'DK.C18.slab_isProjOnto',
  'DK.C18.sliceProj_tol_close',
  'DK.C18.list_isProjOnto_rows',
  'DK.C18.list_isProjOnto_columns',
  'DK.C18.shortcut_sound',
  'DK.C18.interProj_shortcut_a',
  'DK.C18.interProj_shortcut_b',
  'DK.C18.inter_shortcut_sound',
  'DK.C18.dykLoop_partial',
  'DK.C18.dykLoop_fuel',
  'DK.C18.dykstra_partial',
  'DK.C18.interProj_ok_cases',
  'DK.C18.VRegion.project_cube',
  'DK.C18.VRegion.project_half',
  'DK.C18.VRegion.project_slice',
  'DK.C18.VRegion.isIn_cube',
  'DK.C18.VRegion.isIn_half',
  'DK.C18.VRegion.isIn_slice',
  'DK.C18.VRegion.project_cube_wrong_length',
  'DK.C18.device_project_shape',
  'DK.C18.device_project_eq_clamp',
  'DK.C18.device_project_spec',
  'DK.C18.set_project_per_block',
  'DK.C18.set_project_shape',
  'DK.C18.set_project_clamp',
  'DK.C18.set_project_spec',
  'DK.C18.leaf_block_is_clamp',
  'DK.C18.set_project_mf_totals',
  'DK.C18.mf_project_keeps_totals',
  'DK.C18.mf_project_in_bounds_keeps_totals',
  'DK.C18.mf_project_equal_split',
  'DK.C18.mf_project_in_conduit_bounds',
  'DK.C18.utils_project_partial',
  'DK.C18.cubeProj_local',
  'DK.C18.halfspaceProj_local',
  'DK.C18.sliceProj_local',
  'DK.C18.VRegion.inter_shortcut_a',
  'DK.C18.VRegion.inter_shortcut_b',
  'DK.C18.box_half_shortcut',
  'DK.C18.dykTest_false_iff',
  'DK.C18.interProj_ok_mem',
  'DK.C18.lclose_toL_iff',
  'DK.C18.dykstra_fixed_point_optimal',
  'DK.C18.VRegion.inter_result_isIn',
  'DK.C18.box_half_result_isIn',
  'DK.dist2_le_of_variational',
]
