"""C16 — serialisation round-trip preserves behaviour.

T1  `uses_t1 = True`: the runner calls vk.translate.regenerate_all, which calls vk.translate_classes.regenerate and
    rewrites lean/DK/Gen/Classes.lean from the current source before the Lean build; the table theorems of
    DK/Props/C16.lean are the obligations a source change can break.
T2  for every case: the (sorted) key set of the real `to_dict()` vs the key set the generated table
    derives for that construction (`serial.tablekeys`) and vs the key set of the model's `toDict`
    on the same keyword dictionary (`serial.modelkeys`, which also answers whether the model's twin
    exists and dumps the same keys); and the dumped VALUES (`serial.values`): every value of the real dump, flattened key by
    key (numbers exactly, strings as code points), vs the values of the model's `toDict` on the same keyword dictionary.
    Inputs are not confined to small dyadics: the description carries the exact rational of arbitrary doubles (0.1, 1/3,
    1e-7, 123456.789), ids are mixed case, vectors up to 200 entries, horizons up to 96.
Sets hold their children BY REFERENCE today: `DeviceSet.to_dict()` returns the live child objects and
    `DeviceSet.from_dict(ds.to_dict()).devices is ds.devices` (likewise the device wrapped by a multi-flow adaptor), so the
    set-level round trip is trivially behaviour-preserving for the children. The oracle nevertheless compares children BY
    VALUE (same class, same dumped settings recursively) and by behaviour (the set's cost / deriv / constraints at probes),
    so a `to_dict` that dumped child dictionaries and a `from_dict` that rebuilt them would also pass.
Oracle = the property itself: `twin = cls.from_dict(obj.to_dict())` on the real objects, then id, length,
    shape, bounds, cbounds / sbounds, every dumped VALUE against the SUPPLIED one (exact equality, in the documented
    storage form), every dumped parameter on the twin, every constructor argument that was passed, and cost / deriv / every constraint (type, value, Jacobian) at probe flows and prices.
"""
import json, math
from fractions import Fraction
from .. import common as C, gen, build, translate_classes
from ..check import Prop, Op

def t1():
  """the class table of the checkout under test (cached by vk.translate_classes: one extraction per run)."""
  return translate_classes.regenerate(C.REPO)

DEV_FAMILY = ['Device', 'PVDevice', 'CDevice', 'CDevice2', 'IDevice', 'IDevice2', 'GDevice', 'SDevice', 'ADevice']
LEAF_CLASSES = DEV_FAMILY + ['TDevice', 'WindowDevice']
SET_CLASSES = ['DeviceSet', 'SubBalancedDeviceSet', 'MFDeviceSet', 'TwoRatioMFDeviceSet']
# named constructor parameters as the property's author reads them in the class docs; everything else a case passes
# travels through **kwargs (description-first: the generator decides, nothing is read off a live object)
NAMED = {c: ['id', 'length', 'bounds', 'cbounds'] for c in DEV_FAMILY}
NAMED['TDevice'] = ['id', 'length', 'bounds', 'sustainment', 'efficiency', 't_init', 't_optimal', 't_range', 't_external', 'c', 'cbounds']
NAMED['WindowDevice'] = ['id', 'length', 'bounds', 'w', 'cbounds', 'c']
NAMED['DeviceSet'] = ['id', 'devices', 'sbounds']
NAMED['SubBalancedDeviceSet'] = ['id', 'devices', 'sbounds', 'labels', 'constraint_type', 'sign', 'apply_to_remaining']
NAMED['MFDeviceSet'] = ['device', 'flows']
NAMED['TwoRatioMFDeviceSet'] = ['device', 'flows', 'ratios', 'constraint_type']
# optional arguments (named defaults + the class's own **kwargs parameters): a case is "full" when all are passed
OPTIONAL = {'Device': ['cbounds'], 'PVDevice': ['cbounds'], 'CDevice': ['cbounds', 'a', 'b'], 'CDevice2': ['p_l', 'p_h'],
            'IDevice': ['cbounds', 'a', 'b', 'c'], 'IDevice2': ['cbounds', 'p_l', 'p_h'], 'GDevice': ['cbounds', 'cost_coeffs'],
            'SDevice': ['cbounds', 'c1', 'c2', 'c3', 'capacity', 'damage_depth', 'start', 'reserve', 'efficiency', 'sustainment', 'rate_clip'],
            'ADevice': ['cbounds', 'f', 'constraints'], 'TDevice': ['c', 'cbounds'], 'WindowDevice': ['cbounds', 'c'],
            'DeviceSet': ['sbounds'], 'SubBalancedDeviceSet': ['sbounds', 'labels', 'constraint_type', 'sign', 'apply_to_remaining'],
            'MFDeviceSet': [], 'TwoRatioMFDeviceSet': ['constraint_type']}


def np():
  import numpy
  return numpy


def V(t, v=None, **py):
  d = {'t': t}
  if v is not None:
    d['v'] = v
  if py:
    d['_py'] = py
  return d


# ---------------------------------------------------------------- description -> real objects
def py_val(val, n):
  """a value description -> the Python value passed to the constructor."""
  N = np()
  t, v, py = val['t'], val.get('v'), val.get('_py', {})
  if t == 'none': return None
  if t in ('str', 'bool'): return v
  if t in ('nat', 'int'): return int(v)
  if t == 'num':
    x = C.pf(v)
    form = py.get('as')
    if form in ('int', 'npint') and x == int(x): return int(x) if form == 'int' else N.int64(int(x))
    if form == 'np0d': return N.array(x)
    if form == 'npfloat': return N.float64(x)
    return x
  if t == 'vec':
    l = [C.pf(x) for x in v]
    form = py.get('as')
    if form == 'list': return l
    if form == 'tuple': return tuple(l)
    if form == 'intarray' and all(x == int(x) for x in l): return N.array([int(x) for x in l])
    if form == 'intlist' and all(x == int(x) for x in l): return [int(x) for x in l]
    return N.array(l)
  if t == 'ivec': return N.array([int(x) for x in v]) if py.get('as') == 'intarray' else N.array([float(int(x)) for x in v])
  if t == 'mat': return [[C.pf(x) for x in row] for row in v]
  if t == 'pairNum':
    a, b = C.pf(v[0]), C.pf(v[1])
    if py.get('as') == 'int' and a == int(a) and b == int(b): a, b = int(a), int(b)
    return [a, b] if py.get('as') == 'list' else (a, b)
  if t == 'pairVec': return (N.array([C.pf(x) for x in v[0]]), N.array([C.pf(x) for x in v[1]]))
  if t == 'table':
    a = N.array([[C.pf(r[0]), C.pf(r[1])] for r in v])
    return a.tolist() if py.get('as') == 'list' else a
  if t == 'cbs': return [(list if py.get('as') == 'lists' else tuple)((C.pf(c[0]), C.pf(c[1]), int(c[2]), int(c[3]))) for c in v]
  if t == 'strs': return tuple(v) if py.get('as') == 'tuple' else list(v)
  if t == 'clip':
    tup = tuple(None if x is None else C.pf(x) for x in v)
    return list(tup) if py.get('as') == 'list' else tup
  if t == 'fn': return build.build_fn(build.annotate_fn(json.loads(json.dumps(v)), n))
  if t == 'cons': return build.build_ucons(v)
  if t == 'obj': return build_obj(v)
  if t == 'objs': return [build_obj(x) for x in v]
  if t == 'dict': return {k: py_val(x, n) for k, x in v}
  raise ValueError('unknown value tag ' + t)


def obj_len(o):
  if o['cls'] in ('MFDeviceSet', 'TwoRatioMFDeviceSet'):
    return obj_len(dict(o['kw'])['device']['v'])
  if o['cls'] in ('DeviceSet', 'SubBalancedDeviceSet'):
    return obj_len(dict(o['kw'])['devices']['v'][0])
  return int(dict(o['kw'])['length']['v'])


def obj_rows(o):
  if o['cls'] in ('MFDeviceSet', 'TwoRatioMFDeviceSet'):
    return len(dict(o['kw'])['flows']['v'])
  if o['cls'] in ('DeviceSet', 'SubBalancedDeviceSet'):
    return sum(obj_rows(x) for x in dict(o['kw'])['devices']['v'])
  return 1


def build_kwargs(o):
  n = obj_len(o)
  return {k: py_val(v, n) for k, v in o['kw']}


def build_obj(o, keep=None):
  """the leading arguments positionally (as the library's own examples and loaders call the constructors), the rest by keyword.
  `keep` (a dict) receives the supplied keyword values: the live objects themselves, numbers / arrays as private copies."""
  dk = C.repo()
  kw = build_kwargs(o)
  if keep is not None:
    import copy
    live = ('fn', 'cons', 'obj', 'objs', 'dict')
    keep.update({k: (list(kw[k]) if v['t'] in ('cons', 'objs') else kw[k]) if v['t'] in live else copy.deepcopy(kw[k]) for k, v in o['kw']})
  lead = ['device', 'flows'] if o['cls'] in ('MFDeviceSet', 'TwoRatioMFDeviceSet') else (
    ['id', 'devices'] if o['cls'] in ('DeviceSet', 'SubBalancedDeviceSet') else ['id', 'length', 'bounds'])
  names = [k for k, _ in o['kw']]
  if names[:len(lead)] != lead:
    return getattr(dk, o['cls'])(**kw)
  return getattr(dk, o['cls'])(*[kw.pop(k) for k in lead], **kw)


def lean_kw(o):
  """the keyword dictionary as the Lean driver reads it: child objects become their horizon length."""
  out = []
  for k, v in o['kw']:
    if v['t'] == 'obj':
      out.append([k, {'t': 'obj', 'v': obj_len(v['v'])}])
    elif v['t'] == 'objs':
      out.append([k, {'t': 'objs', 'v': [obj_len(x) for x in v['v']]}])
    else:
      out.append([k, v])     # private `_py` hints are stripped from the line by the runner
  return out


# ---------------------------------------------------------------- generators (description-first)
def fsl(v): return [C.fs(x) for x in v]


def bounds_val(rng, d):
  form = d['_py'].get('bform', 'pair')
  if form == 'scalar':
    return V('pairNum', [d['lb'][0], d['hb'][0]])
  if form == 'table' or d['n'] == 2:
    return V('table', [[a, b] for a, b in zip(d['lb'], d['hb'])], **({'as': 'list'} if rng.random() < 0.3 else {}))
  return V('pairVec', [list(d['lb']), list(d['hb'])])


def cbounds_val(d):
  form = d['_py'].get('cform')
  if not d.get('cbs') or form is None:
    return None
  if form == '2tuple':
    return V('pairNum', [d['cbs'][0][0], d['cbs'][0][1]])
  return V('cbs', [list(c) for c in d['cbs']])


def sv(x):
  """gen.svec output (scalar string or list of strings) -> value description."""
  return V('vec', list(x), **({'as': 'list'} if len(x) % 2 else {})) if isinstance(x, list) else V('num', x)


def extras(rng):
  """extra `**meta` keys no class knows: arbitrary fields that must be serialised with the instance."""
  out = []
  if rng.random() < 0.6:
    out.append(['note', V('str', rng.choice(['x', 'kitchen', 'a-b']))])
  if rng.random() < 0.5:
    out.append(['weight', V('num', C.fs(C.dy(rng, -4, 4)))])
  if rng.random() < 0.3:
    out.append(['tags', V('strs', rng.sample(['e', 'h', 'g'], rng.randint(0, 2)))])
  if rng.random() < 0.3:
    out.append(['profile', V('vec', fsl([C.dy(rng, -2, 2) for _ in range(rng.randint(1, 3))]))])
  # values and names a filtering from_dict would lose: None-valued, underscore-named and boolean fields
  if rng.random() < 0.3:
    out.append(['remark', V('none')])
  if rng.random() < 0.3:
    out.append(['_tag', V('str', rng.choice(['t1', 'Zone_B'])) if rng.random() < 0.7 else V('none')])
  if rng.random() < 0.3:
    out.append(['enabled', V('bool', rng.random() < 0.5)])
  rng.shuffle(out)
  return out


# ---------------------------------------------------------------- non-dyadic values, mixed-case ids
# C16's model never computes with these numbers (they are only stored, dumped and read back), so the generator is not
# confined to small dyadics: the description carries the EXACT rational of an arbitrary double (0.1, 1/3, 1e-7,
# 123456.789, …), `float()` of which is that double again; dumped vs supplied is then compared with exact equality.
DECIMALS = [0.1, 1/3, 1e-7, 123456.789, 0.7, 2.5e-3, 1/7, 19.99]
SMALL = [0.1, 1/3, 1e-7, 2.5e-3, 1/7, 0.7]


def fx(x):
  """a double -> protocol string of its exact rational value."""
  return C.fs(Fraction(float(x)))


def widen(rng, lo, hi, side):
  """move a (low, high) pair of protocol strings outwards by decimal amounts; side '+' keeps low, '-' keeps high."""
  a, b = C.pf(lo), C.pf(hi)
  if a == b and rng.random() < 0.5:
    return lo, hi                       # keep some zero-width slots
  if side != '+' and rng.random() < 0.8: a = a - rng.choice(SMALL)
  if side != '-' and rng.random() < 0.8: b = b + rng.choice(SMALL if rng.random() < 0.9 else DECIMALS)
  return fx(a), fx(b)


def unit(rng): return rng.choice([0.1, 1/3, 0.7, 1/7, 0.95])


def decimalise(rng, o):
  """replace the dyadic numbers of a constructor dictionary by arbitrary doubles, keeping every validator satisfied:
  bounds / cbounds / sbounds only move outwards, class parameters are redrawn inside their documented ranges."""
  cls, kw = o['cls'], o['kw']
  have = dict(kw)
  side = None
  if 'bounds' in have:
    b = have['bounds']
    lows = [C.pf(x) for x in (b['v'][0] if b['t'] == 'pairVec' else [b['v'][0]] if b['t'] == 'pairNum' else [r[0] for r in b['v']])]
    highs = [C.pf(x) for x in (b['v'][1] if b['t'] == 'pairVec' else [b['v'][1]] if b['t'] == 'pairNum' else [r[1] for r in b['v']])]
    side = '-' if cls in ('PVDevice', 'GDevice') or max(highs) <= 0 else ('+' if min(lows) >= 0 else None)
  n = obj_len(o) if cls not in SET_CLASSES else None
  out = []
  for k, v in kw:
    t = v['t']; v = dict(v)
    if k in ('bounds', 'sbounds') and t in ('pairNum', 'pairVec', 'table'):
      sd = side if k == 'bounds' else None
      if t == 'pairNum':
        v['v'] = list(widen(rng, v['v'][0], v['v'][1], sd))
      elif t == 'pairVec':
        ps = [widen(rng, a, b, sd) for a, b in zip(v['v'][0], v['v'][1])]
        v['v'] = [[a for a, _ in ps], [b for _, b in ps]]
      else:
        v['v'] = [list(widen(rng, r[0], r[1], sd)) for r in v['v']]
    elif k == 'cbounds' and t == 'pairNum':
      v['v'] = [fx(C.pf(v['v'][0]) - rng.choice(SMALL)), fx(C.pf(v['v'][1]) + rng.choice(SMALL))]
    elif k == 'cbounds' and t == 'cbs':
      v['v'] = [[fx(C.pf(c[0]) - rng.choice(SMALL)), fx(C.pf(c[1]) + rng.choice(SMALL)), c[2], c[3]] for c in v['v']]
    elif k in ('weight', 'w', 'sign', 't_init', 't_optimal') and t == 'num':
      v['v'] = fx(rng.choice([1, -1] if k in ('weight', 'sign') else [1, 1, -1] if k == 'w' else [1])*rng.choice(DECIMALS) + (15 if k.startswith('t_') else 0))
    elif k == 'profile' and t == 'vec':
      v['v'] = [fx(rng.choice([1, -1])*rng.choice(DECIMALS)*rng.random()) for _ in range(rng.choice([1, 3, 50, 200]))]
    elif k == 't_external' and t == 'vec':
      v['v'] = [fx(rng.choice(DECIMALS[:3] + [19.99, -3.3]) + i*0.1) for i in range(len(v['v']))]
    elif k == 'ratios' and t == 'vec':
      v['v'] = [fx(1 + rng.choice(SMALL)), fx(1 + rng.choice(DECIMALS))]
    elif k == 'cost_coeffs' and t in ('vec', 'mat'):
      f = lambda row: [fx(C.pf(x) + rng.choice(SMALL)) for x in row]
      v['v'] = f(v['v']) if t == 'vec' else [f(r) for r in v['v']]
    elif cls == 'CDevice' and k in ('a', 'b'):
      v['v'] = fx(-rng.choice(DECIMALS))
    elif cls in ('CDevice2', 'IDevice2') and k in ('p_l', 'p_h'):
      if k == 'p_l':       # p_h is redrawn together with p_l so that p_l <= p_h <= 0 slot by slot
        m = len(v['v']) if t == 'vec' else 1
        hs = [rng.choice(SMALL + [0.0]) for _ in range(m)]
        ls = [h + rng.choice(SMALL + [0.0, 123456.789]) for h in hs]
        o['_ph'] = [fx(-h) for h in hs]
        v['v'] = [fx(-l) for l in ls] if t == 'vec' else fx(-ls[0])
      else:
        v['v'] = (o['_ph']*len(v['v']))[:len(v['v'])] if t == 'vec' else o['_ph'][0]
    elif cls == 'IDevice' and k in ('a', 'c') and t in ('num', 'vec'):
      g = (lambda: fx(unit(rng))) if k == 'a' else (lambda: fx(rng.choice(DECIMALS)))
      v['v'] = [g() for _ in v['v']] if t == 'vec' else g()
    elif cls == 'SDevice' and t == 'num':
      if k == 'c1': o['_c1'] = 0.5 + rng.choice(SMALL); v['v'] = fx(o['_c1'])
      elif k == 'c2': v['v'] = fx(o.get('_c1', 1.0)*unit(rng)) if C.pf(v['v']) != 0 else v['v']
      elif k == 'c3': v['v'] = fx(rng.choice(SMALL))
      elif k == 'capacity': v['v'] = fx(1 + 10*unit(rng))
      elif k in ('damage_depth', 'start', 'reserve', 'efficiency', 'sustainment'): v['v'] = fx(unit(rng))
      elif k == 'rate_clip': v['v'] = fx(1 + rng.choice(SMALL))
    elif cls == 'SDevice' and k == 'rate_clip' and t == 'clip':
      v['v'] = [None if x is None else fx(1 + rng.choice(SMALL)) for x in v['v']]
    elif cls == 'TDevice' and t in ('num', 'vec'):
      if k == 'sustainment': v['v'] = fx(unit(rng))
      elif k == 'efficiency': v['v'] = fx(rng.choice([1, -1])*(0.5 + rng.choice(SMALL)))
      elif k == 't_range': v['v'] = fx(1 + rng.choice(SMALL))
      elif k == 'c': v['v'] = [fx(rng.choice(DECIMALS)) for _ in v['v']] if t == 'vec' else fx(rng.choice(DECIMALS))
    elif cls == 'WindowDevice' and k == 'c' and t == 'num':
      v['v'] = fx(rng.choice([1, 1, -1])*rng.choice(DECIMALS))
    out.append([k, v])
  o.pop('_ph', None); o.pop('_c1', None)
  o['kw'] = out
  return o


def edgeify(rng, o):
  """parameter values AT and BEYOND the edges of the usual range (all still accepted by the validators), and empty
  containers where an argument is usually absent or non-empty."""
  cls = o['cls']
  n = obj_len(o) if cls not in SET_CLASSES else None
  have = dict(o['kw'])
  pick = lambda: rng.random() < 0.5
  out = []
  for k, v in o['kw']:
    t = v['t']; v = dict(v)
    same = lambda x: [x for _ in v['v']] if t in ('vec', 'ivec') else x
    if not pick():
      out.append([k, v]); continue
    if cls == 'CDevice' and k in ('a', 'b'): v['v'] = '0'
    elif cls in ('CDevice2', 'IDevice2') and k == 'p_h' and t in ('num', 'vec'):
      pl = have.get('p_l')
      if pl is not None and pl['t'] == t and rng.random() < 0.5: v['v'] = json.loads(json.dumps(dict(out).get('p_l', pl)['v']))   # p_h == p_l (as already emitted)
      else: v['v'] = same('0')
    elif cls == 'IDevice' and k in ('a', 'c') and t in ('num', 'vec'): v['v'] = same('0')
    elif cls == 'SDevice' and t == 'num':
      if k in ('c2', 'c3'): v['v'] = '0'
      elif k in ('start', 'reserve', 'damage_depth'): v['v'] = rng.choice(['0', '1'])
      elif k in ('efficiency', 'sustainment'): v['v'] = '1'
      elif k == 'rate_clip': v['v'] = '1'
    elif cls == 'SDevice' and k == 'rate_clip' and t == 'clip': v['v'] = rng.choice([['1', None], [None, '1'], [None, None], ['1', '1']])
    elif cls == 'TDevice' and k in ('sustainment', 't_range', 'c') and t in ('num', 'vec'):
      v['v'] = same(rng.choice(['0', '1']) if k == 'sustainment' else '0')
    elif cls == 'WindowDevice' and k == 'w': v['v'] = rng.choice(['0', str(n), str(2*n), fx(n + 0.5), fx(1.4*n), '-1', fx(-n/2), fx(-0.1)])
    elif cls == 'WindowDevice' and k == 'c': v['v'] = rng.choice(['0', '-1', fx(-0.1), fx(-2.5)])
    elif k == 'cbounds' and t == 'none' and rng.random() < 0.6: v = V('cbs', [])          # an EMPTY list instead of None
    elif k in ('tags', 'labels') and t == 'strs': v['v'] = []
    elif k == 'profile' and t == 'vec': v['v'] = []
    elif k == 'note' and t == 'str': v['v'] = ''
    elif k in ('weight', 'sign') and t == 'num': v['v'] = rng.choice(['0', '-1', fx(-1e-7)])
    elif k == 'ratios' and t == 'vec': v['v'] = rng.choice([['0', '1'], ['-1', fx(0.5)], ['1', '1']])
    out.append([k, v])
  o['kw'] = out
  return o


def retype(rng, o):
  """the same numbers in other Python clothes: int vs float, 0-d arrays and numpy scalars vs Python scalars, lists vs
  tuples vs arrays (integer-typed arrays where the numbers are integral) — each must round-trip."""
  cls = o['cls']
  for k, v in o['kw']:
    t = v['t']
    if k in ('length', 'id') or (k == 'rate_clip' and t == 'num'):
      if k == 'rate_clip': v['_py'] = {'as': 'int'}      # the setter indexes its argument: numpy scalars / 0-d arrays raise IndexError
      continue
    if t == 'num':
      # (`sustainment` feeds an lru_cache'd helper: a 0-d array is unhashable there — a C10/C11 matter, not a round-trip one)
      v['_py'] = {'as': rng.choice(['float', 'int', 'npfloat', 'npint'] + ([] if k == 'sustainment' else ['np0d']))}
    elif t == 'vec':
      forms = ['list', 'tuple', 'array', 'intarray', 'intlist']
      if k == 'cost_coeffs': forms = ['list', 'tuple', 'array', 'intlist']
      v['_py'] = {'as': rng.choice(forms)}
    elif t == 'ivec': v['_py'] = {'as': rng.choice(['array', 'intarray'])}
    elif t == 'pairNum': v['_py'] = {'as': rng.choice(['tuple', 'list', 'int'])}
    elif t == 'cbs': v['_py'] = {'as': rng.choice(['tuples', 'lists'])}
    elif t == 'table': v['_py'] = {'as': rng.choice(['array', 'list'])}
    elif t == 'strs' and k != 'flows': v['_py'] = {'as': rng.choice(['list', 'tuple'])}
    elif t == 'clip': v['_py'] = {'as': rng.choice(['tuple', 'list'])}
  return o


def vary(rng, o):
  """decimal values, edge values and type forms, each applied to a share of the objects."""
  if rng.random() < 0.75: decimalise(rng, o)
  if rng.random() < 0.4: edgeify(rng, o)
  if rng.random() < 0.5: retype(rng, o)
  return o


def mixed_id(rng, id, leaf):
  """ids are matched case-insensitively ((?i) in both id patterns), so mixed case is accepted and must come back."""
  r = rng.random()
  if r < 0.3:
    return id
  s = ''.join(c.upper() if rng.random() < 0.5 else c for c in id)
  if r > 0.75:
    s += rng.choice(['_Kitchen', '-B2', 'X'] + (['(1)', '[Ab]', '+'] if leaf else []))
  return s


def leaf_obj(rng, d, id=None, full=None, with_extras=True):
  """gen.gen_leaf description -> constructor keyword dictionary (ordered)."""
  cls, n, p = d['cls'], d['n'], d.get('prm', {})
  id = mixed_id(rng, id or d.get('id') or cls.lower(), True)
  kw = [['id', V('str', id)], ['length', V('nat', n)], ['bounds', bounds_val(rng, d)]]
  cb = cbounds_val(d)
  tail = []
  if cb is not None:
    tail.append(['cbounds', cb])
  elif cls == 'CDevice2' or rng.random() < 0.3:
    tail.append(['cbounds', V('none')])
  prm = []
  if cls == 'CDevice':
    prm = [['a', V('num', p['a'])], ['b', V('num', p['b'])]]
    rng.shuffle(prm)
  elif cls in ('CDevice2', 'IDevice2'):
    prm = [['p_l', sv(p['p_l'])], ['p_h', sv(p['p_h'])]]
  elif cls == 'IDevice':
    prm = [['a', sv(p['a'])], ['b', V('ivec', p['b']) if isinstance(p['b'], list) else V('int', p['b'])], ['c', sv(p['c'])]]
    rng.shuffle(prm)
  elif cls == 'GDevice':
    cc = p['cost_coeffs']
    prm = [['cost_coeffs', V('mat', cc) if isinstance(cc[0], list) else V('vec', cc, **{'as': 'list'})]]
  elif cls == 'SDevice':
    prm = [[k, V('num', v)] for k, v in p.items() if k != 'rate_clip']
    head, rest = prm[:2], prm[2:]          # c1 before c2 (the validators compare them); the others commute
    rng.shuffle(rest)
    prm = head + rest
    r = rng.random()
    if r < 0.3:
      prm.append(['rate_clip', V('num', C.fs(C.dy(rng, 1, 3)))])
    elif r < 0.75:
      a = None if rng.random() < 0.3 else C.fs(C.dy(rng, 1, 3))
      b = None if rng.random() < 0.3 else C.fs(C.dy(rng, 1, 3))
      prm.append(['rate_clip', V('clip', [a, b], **({'as': 'list'} if rng.random() < 0.3 else {}))])
    elif r < 0.85:
      prm.append(['rate_clip', V('none')])
  elif cls == 'ADevice':
    if 'f' in p:
      prm.append(['f', V('fn', p['f'])])
    if d.get('ucons') is not None:       # [] (explicitly empty), one, or several; absent when the key is missing
      prm.append(['constraints', V('cons', d['ucons'])])
  if cls == 'TDevice':
    named = [['sustainment', V('num', p['sustainment'])], ['efficiency', V('num', p['efficiency'])], ['t_init', V('num', p['t_init'])],
             ['t_optimal', V('num', p['t_optimal'])], ['t_range', V('num', p['t_range'])], ['t_external', V('vec', p['t_external'])],
             ['c', sv(p['c'])]]
    kw += named
  if cls in DEV_FAMILY and with_extras and rng.random() < 0.04:
    # `params` is a settable property of Device ("convenience bulk setter"), so it is an accepted keyword
    prm.append(['params', V('dict', [['weight', V('num', C.fs(C.dy(rng, -4, 4)))]])])
  parts = tail + prm + (extras(rng) if with_extras and cls != 'WindowDevice' else [])
  if cls == 'WindowDevice':
    kw.append(['w', V('num', p['w'])])
    if 'c' in p:
      parts.append(['c', V('num', p['c'])])
  kw += parts
  o = {'cls': cls, 'kw': kw}
  return vary(rng, o)


def gen_window(rng, tier, n=None):
  n = n or gen.pick_n(rng, tier, 6)
  lb = [C.dy(rng, 0, 1) if rng.random() < 0.5 else Fraction(0) for _ in range(n)]
  hb = [a + Fraction(rng.randint(1, 8), 4) for a in lb]
  d = {'cls': 'WindowDevice', 'n': n, 'lb': fsl(lb), 'hb': fsl(hb), 'cbs': [], 'prm': {}, '_py': {'bform': rng.choice(['pair', 'table']) if n != 2 else 'table'}}
  if len(set(lb)) == 1 and len(set(hb)) == 1 and rng.random() < 0.5:
    d['_py']['bform'] = 'scalar'
  if rng.random() < 0.8:
    cbs, form = gen.gen_cbounds(rng, n, lb, hb)
    d['cbs'] = [[C.fs(c[0]), C.fs(c[1]), c[2], c[3]] for c in cbs]
    d['_py']['cform'] = form if len(cbs) == 1 and cbs[0][2] == 0 and cbs[0][3] == n else '4tuples'
  d['prm']['w'] = C.fs(C.dy(rng, -n, 2*n))      # the window may be wider than the horizon, or negative (accepted: every slot is then outside it)
  if rng.random() < 0.85:
    d['prm']['c'] = C.fs(C.dy(rng, -3, 3))        # the penalty scale may be negative (accepted)
  return d


def gen_leaf_desc(rng, tier, cls, n=None):
  if cls == 'WindowDevice':
    return gen_window(rng, tier, n)
  want_cb = rng.random() < 0.8
  d = gen.gen_leaf(rng, tier, [cls], n=n, with_cbounds=want_cb)
  if cls == 'TDevice' and want_cb:
    lb = [Fraction(x) for x in d['lb']]; hb = [Fraction(x) for x in d['hb']]
    cbs, form = gen.gen_cbounds(rng, d['n'], lb, hb)
    d['cbs'] = [[C.fs(c[0]), C.fs(c[1]), c[2], c[3]] for c in cbs]
    d['_py']['cform'] = form if len(cbs) == 1 and cbs[0][2] == 0 and cbs[0][3] == d['n'] else '4tuples'
  if cls == 'ADevice':
    lbf = [Fraction(x) for x in d['lb']]; hbf = [Fraction(x) for x in d['hb']]
    r = rng.random()     # user constraints: absent / explicitly empty / one / several  (x cumulative bounds present or not)
    if r < 0.3: d['ucons'] = []
    elif r < 0.55: d['ucons'] = gen.gen_ucons(rng, d['n'], lbf, hbf)[:1]
    elif r < 0.8: d['ucons'] = gen.gen_ucons(rng, d['n'], lbf, hbf) + gen.gen_ucons(rng, d['n'], lbf, hbf)
  return d


def leaf_probes(rng, d, k=2):
  out = []
  for _ in range(k):
    s = gen.leaf_flow(rng, d, rng.choice(['interior', 'mixed', 'interior', 'upper']))
    if d['cls'] == 'WindowDevice' and sum(Fraction(x) for x in s) == 0:
      s = list(d['hb'])
    out.append({'s': s, 'p': gen.gen_price(rng, d['n'])})
  if d['cls'] == 'WindowDevice':
    # the centre of mass at either edge of the horizon, a little flow at the far end (where a wide window still bites)
    n = d['n']
    for first in (True, False):
      s = list(d['lb'])
      heavy = 0 if first else n - 1
      s[heavy] = d['hb'][heavy]
      far = n - 1 - heavy
      if far != heavy:
        s[far] = C.fs((Fraction(d['lb'][far]) + Fraction(d['hb'][far]))/2)
      out.append({'s': s, 'p': gen.gen_price(rng, n)})
  return out


def tree_obj(rng, t):
  """gen.gen_tree description -> nested constructor dictionaries."""
  if t['k'] == 'leaf':
    return leaf_obj(rng, t['dev'], t['id'])
  if t['k'] == 'mf':
    dev = leaf_obj(rng, t['dev'], t['id'])
    kw = [['device', V('obj', dev)], ['flows', V('strs', list(t['flows']))]]
    if t.get('ratios') is not None or t.get('_tworatio'):
      kw.append(['ratios', V('vec', list(t['ratios']), **{'as': 'list'}) if t.get('ratios') else V('none')])
      if t.get('ctype') and (t['ctype'] != 'eq' or rng.random() < 0.5):
        kw.append(['constraint_type', V('str', t['ctype'])])
      o = {'cls': 'TwoRatioMFDeviceSet', 'kw': kw}
      return vary(rng, o)
    return {'cls': 'MFDeviceSet', 'kw': kw}
  kids = [tree_obj(rng, c) for c in t['ch']]
  kw = [['id', V('str', mixed_id(rng, t['id'], False))], ['devices', V('objs', kids)]]
  if t.get('sb') is not None:
    kw.append(['sbounds', V('table', [list(r) for r in t['sb']], **({'as': 'list'} if rng.random() < 0.3 else {}))])
  elif rng.random() < 0.3:
    kw.append(['sbounds', V('none')])
  if t.get('sub'):
    opt = [['labels', V('strs', list(t.get('labels', [])))], ['constraint_type', V('str', t.get('ctype', 'eq'))],
           ['sign', V('num', t.get('sign', '1'))], ['apply_to_remaining', V('bool', bool(t.get('rem', False)))]]
    if not t.get('_full'):
      opt = [x for x in opt if rng.random() < 0.8]
    kw += opt
    o = {'cls': 'SubBalancedDeviceSet', 'kw': kw}
    return vary(rng, o)
  o = {'cls': 'DeviceSet', 'kw': kw}
  return vary(rng, o)


def set_case(rng, tier, cls):
  """a case whose ROOT is the given set class, with nested children (sets, adaptors, every leaf class)."""
  for _ in range(50):
    t, n = gen.gen_tree(rng, tier, depth=rng.choice([1, 2, 2, 3]), want_mf=True)
    if cls in ('MFDeviceSet', 'TwoRatioMFDeviceSet'):
      mfs = [b for b in gen.tree_leaves(t) if b['k'] == 'mf']
      if not mfs:
        continue
      t = dict(rng.choice(mfs))
      if cls == 'TwoRatioMFDeviceSet':
        t['flows'] = ['e', 'h']; t['_tworatio'] = True
        t['ratios'] = [C.fs(C.dy(rng, 1, 3)), C.fs(C.dy(rng, 1, 3))]   # ratios=None is rejected since daf94a5
        t['ctype'] = rng.choice(['eq', 'ineq', 'ineq'])
      else:
        t['ratios'] = None
    else:
      t = dict(t)
      t['sub'] = (cls == 'SubBalancedDeviceSet')
      if t['sub']:
        t['labels'] = rng.sample(['e', 'h', 'g', '1', '2'], rng.randint(1, 2)); t['ctype'] = rng.choice(['eq', 'ineq'])
        t['sign'] = rng.choice(['1', '-1', '2']); t['rem'] = rng.random() < 0.6; t['_full'] = rng.random() < 0.8
      if t.get('sb') is None and rng.random() < 0.7:
        t['sb'] = [[C.fs(C.dy(rng, -9, -1)), C.fs(C.dy(rng, 1, 12))] for _ in range(n)]
    o = tree_obj(rng, t)
    probes = [{'s': gen.tree_flow(rng, t, n, rng.choice(['interior', 'mixed'])), 'p': gen.gen_price_mat(rng, gen.tree_rows(t), n)} for _ in range(2)]
    return {'kind': 'tree', 'obj': o, 'probes': probes, 'n': n}
  raise AssertionError('no tree with a multi-flow adaptor generated')


CHEAP = ['Device', 'PVDevice', 'CDevice', 'CDevice2', 'IDevice', 'IDevice2', 'GDevice', 'WindowDevice']   # no O(n^2) constraints / recurrences


def leaf_case(rng, tier, cls):
  n = None
  if rng.random() < 0.1:      # long horizons now and then; very long ones (beyond any "usual" planning window) for the cheap classes
    n = rng.choice([24, 48, 96] + ([192, 288] if cls in CHEAP else []))
  d = gen_leaf_desc(rng, tier, cls, n=n)
  return {'kind': 'leaf', 'obj': leaf_obj(rng, d), 'probes': leaf_probes(rng, d), 'n': d['n']}


# ---------------------------------------------------------------- comparison helpers (oracle side)
def same_value(a, b, tol=0.0):
  """np.array_equal-style equality that also accepts the SAME live object (functions, devices, constraint dicts)."""
  N = np()
  if a is b:
    return True
  if a is None or b is None:
    return False
  if isinstance(a, (str, bool)) or isinstance(b, (str, bool)):
    return type(a) == type(b) and a == b
  Base = C.repo().BaseDevice
  if isinstance(a, Base) and isinstance(b, Base):
    return same_device(a, b)
  if isinstance(a, dict) and isinstance(b, dict):
    return sorted(a.keys()) == sorted(b.keys()) and all(same_value(a[k], b[k]) for k in a)
  if isinstance(a, dict) or isinstance(b, dict) or callable(a) or callable(b) or isinstance(a, Base) or isinstance(b, Base):
    return False   # distinct live objects (functions, closures) have no value form
  if isinstance(a, (list, tuple)) and isinstance(b, (list, tuple)):
    return len(a) == len(b) and all(same_value(x, y) for x, y in zip(a, b))
  try:
    x, y = N.asarray(a, dtype=float), N.asarray(b, dtype=float)
    return x.shape == y.shape and bool(N.array_equal(x, y, equal_nan=True))
  except (TypeError, ValueError):
    pass
  try:
    return bool(a == b)
  except Exception:
    return False


def has_params_kwarg(o):
  """`params=` is among the constructor keywords of the object or of any nested child (discriminator of the open finding)."""
  for k, v in o['kw']:
    if k == 'params': return True
    if v['t'] == 'obj' and has_params_kwarg(v['v']): return True
    if v['t'] == 'objs' and any(has_params_kwarg(x) for x in v['v']): return True
  return False


def same_device(a, b):
  """two device objects are the same device BY VALUE: same class and the same dumped settings (recursively for
  children). Identity is sufficient but not required: a `to_dict` that dumped child dictionaries and a `from_dict` that
  rebuilt them would be a genuine value round trip."""
  if a is b:
    return True
  if type(a) is not type(b):
    return False
  try:
    da, db = a.to_dict(), b.to_dict()
  except Exception:
    return False
  return sorted(da.keys()) == sorted(db.keys()) and all(same_value(da[k], db[k]) for k in da)


def expected_dump(cls, k, val, n, supplied):
  """what `to_dict()[k]` must be for the supplied argument, by the documented storage forms (device.py docstrings):
  bounds -> (len, 2) table; cbounds -> None / list of 4-tuples; rate_clip -> pair; everything else as given.
  Returns (True, value) or (False, None) when the class computes the stored value (CDevice2's defaulted cbounds)."""
  N = np()
  t, v = val['t'], val.get('v')
  if k in ('bounds', 'sbounds') and t in ('pairNum', 'pairVec', 'table'):
    if t == 'pairNum': return True, N.array([[C.pf(v[0]), C.pf(v[1])]]*n)
    if t == 'pairVec': return True, N.array([[C.pf(a), C.pf(b)] for a, b in zip(v[0], v[1])])
    return True, N.array([[C.pf(r[0]), C.pf(r[1])] for r in v])
  if k == 'cbounds':
    if cls == 'CDevice2' and (t == 'none' or (t == 'cbs' and not v)): return False, None     # falsy -> the class defaults it
    if t == 'none': return True, None
    if t == 'pairNum': return True, [(C.pf(v[0]), C.pf(v[1]), 0, n)]
    return True, supplied
  if k == 'rate_clip':
    if t == 'num': return True, (C.pf(v), C.pf(v))
    if t == 'none': return True, (None, None)
  if t in ('obj', 'objs'):
    return False, None      # children are compared by value between original and twin (a dump may hold objects or dictionaries)
  return True, supplied


def flat_py(k, x):
  """mirror of the Lean driver's `valFlat`: a dumped Python value as [count, entries…]."""
  N = np()
  Base = C.repo().BaseDevice
  if x is None: return [0]
  if k == 'rate_clip':
    out = [4]
    for y in x:
      out += [0, 0] if y is None else [1, float(y)]
    return out
  if k in ('constraints', 'devices'): return [1, len(x)]
  if isinstance(x, Base) or callable(x): return [0]
  if isinstance(x, str): return [len(x)] + [ord(c) for c in x]
  if isinstance(x, bool): return [1, int(x)]
  if isinstance(x, (list, tuple)) and len(x) and all(isinstance(y, str) for y in x):
    out = []
    for y in x:
      out += [len(y)] + [ord(c) for c in y]
    return [len(out)] + out
  a = N.asarray(x, dtype=float).reshape(-1)
  return [int(a.size)] + [float(y) for y in a]


def outcome(thunk):
  N = np()
  try:
    v = thunk()
  except Exception as e:
    return ('raise', type(e).__name__)
  try:
    return ('ok', N.asarray(v, dtype=float))
  except Exception:
    return ('ok', v)


def same_outcome(a, b):
  N = np()
  if a[0] != b[0]:
    return False
  if a[0] == 'raise':
    return a[1] == b[1]
  x, y = a[1], b[1]
  if isinstance(x, N.ndarray) and isinstance(y, N.ndarray):
    return x.shape == y.shape and bool(N.all((N.abs(x - y) <= 1e-9*N.maximum(1, N.abs(y))) | (N.isnan(x) & N.isnan(y)) | (x == y)))
  return same_value(x, y)


def show(o):
  return str(o[1] if o[0] == 'raise' else np().round(o[1], 6).tolist() if hasattr(o[1], 'tolist') else o[1])[:120]


def kw_text(o, depth=0):
  """readable constructor call for failure reports."""
  def tv(v):
    if v['t'] == 'obj': return kw_text(v['v'], depth + 1)
    if v['t'] == 'objs': return '[' + ', '.join(kw_text(x, depth + 1) for x in v['v']) + ']'
    if v['t'] == 'fn': return '<Function %s>' % v['v']['k']
    if v['t'] == 'dict': return '{' + ', '.join('%r: %s' % (k, tv(x)) for k, x in v['v']) + '}'
    if v['t'] == 'cons': return '<%d constraint dict(s)>' % len(v['v'])
    if v['t'] == 'none': return 'None'
    def num(x):
      if isinstance(x, list): return '[' + ', '.join(num(y) for y in x) + ']'
      if isinstance(x, str) and v['t'] not in ('str', 'strs'):
        try: return repr(C.pf(x))
        except Exception: return json.dumps(x)
      return json.dumps(x)
    return num(v.get('v'))
  return '%s(%s)' % (o['cls'], ', '.join('%s=%s' % (k, tv(v)) for k, v in o['kw']))


class C16(Prop):
  id = 'C16'
  lean_module = 'DK.Props.C16'
  uses_t1 = True      # vk.translate.regenerate_all -> vk.translate_classes.regenerate (lean/DK/Gen/Classes.lean)
  theorems = [
    'DK.C16.roundtrip_plain', 'DK.C16.roundtrip_Device', 'DK.C16.roundtrip_PVDevice', 'DK.C16.roundtrip_CDevice',
    'DK.C16.roundtrip_IDevice', 'DK.C16.roundtrip_IDevice2', 'DK.C16.roundtrip_GDevice', 'DK.C16.roundtrip_CDevice2',
    'DK.C16.roundtrip_SDevice', 'DK.C16.roundtrip_ADevice', 'DK.C16.old_ADevice_dump_counterexample',
    'DK.C16.roundtrip_TDevice', 'DK.C16.construct_roundtrip_TDevice', 'DK.C16.roundtrip_WindowDevice',
    'DK.C16.WindowDevice_rejects_f', 'DK.C16.roundtrip_DeviceSet', 'DK.C16.roundtrip_SubBalancedDeviceSet',
    'DK.C16.roundtrip_MFDeviceSet', 'DK.C16.roundtrip_TwoRatioMFDeviceSet', 'DK.C16.TwoRatio_requires_ratios', 'DK.C16.TwoRatio_rejects_none',
    'DK.Serial.Dev.roundtrip', 'DK.Serial.Dev.construct_roundtrip',
    'DK.C16.keys_Dev', 'DK.C16.keys_TDevice',
    'DK.C16.same_behaviour_Dev', 'DK.C16.same_behaviour_TDevice',
    'DK.C16.same_behaviour_DeviceSet', 'DK.C16.same_behaviour_SubBalancedDeviceSet',
  ]
  # obligations over the table regenerated from the source (T1) and the model/table bridge. They live in DK.Props.C16
  # (the runner audits `bridge` names in DK.Lemmas.Bridge, which is the kernels' bridge), so they are listed with the theorems.
  bridge = []
  table_obligations = [
    'DK.C16.extraction_clean', 'DK.C16.shipped_present', 'DK.C16.mro_resolved', 'DK.C16.sig_agrees_ast', 'DK.C16.dump_defined',
    'DK.C16.dumped_keys_accepted', 'DK.C16.required_args_dumped', 'DK.C16.dump_covers_ctor', 'DK.C16.from_dict_binds',
    'DK.C16.from_dict_is_ctor',
    'DK.C16.bridge_keys', 'DK.C16.bridge_varkw', 'DK.C16.bridge_total',
  ]
  theorems = theorems + table_obligations

  rule = ('every shipped class (11 atomic, 4 set classes as the ROOT of a nested tree) x horizon n x bounds forms (scalar pair / vector pair / '
          'table) x cbounds forms (None / 2-tuple / 4-tuples) x class parameters (scalar and vector, 2-D generator coefficients, rate_clip '
          'scalar / pair / None, f and user constraints for ADevice, labels/sign/apply_to_remaining, ratios) x extra **meta keys; '
          'non-trivial: every optional constructor argument of the class is passed')
  sizes = {'quick': 150, 'thorough': 3000}
  assumptions = [
    'T1 table: vk/translate_classes.py (AST + inspect.signature) is trusted to report what the class bodies say; its two sources are cross-checked (sig_agrees_ast) and its derived key sets are compared with the real to_dict() keys on every case (T2)',
    'validators are modelled as an arbitrary predicate of the constructed state (the same code validates the same values twice); which values they accept is C11',
    'child devices, Function objects and constraint dicts are live objects stored by reference: the model is the identity on them',
  ]

  def __init__(self):
    self.notes = {}
    self.dist = {}

  # ---- cases
  def cases(self, rng, tier, count):
    classes = LEAF_CLASSES + SET_CLASSES
    per = max(1, count // len(classes))
    out = []
    for cls in classes:
      for _ in range(per):
        out.append(leaf_case(rng, tier, cls) if cls in LEAF_CLASSES else set_case(rng, tier, cls))
    self.record(out)
    return out

  def record(self, cases):
    """input distribution for the evidence file: classes (at any depth), horizons, value forms per key."""
    dist = self.dist
    def walk(o, depth):
      dist.setdefault('classes', {}).setdefault(o['cls'], 0); dist['classes'][o['cls']] += 1
      dist.setdefault('depth', {}).setdefault(str(depth), 0); dist['depth'][str(depth)] += 1
      for k, v in o['kw']:
        if k in ('bounds', 'cbounds', 'sbounds', 'rate_clip', 'cost_coeffs', 'c', 'ratios') or k not in sum(NAMED.values(), []) + sum(OPTIONAL.values(), []):
          key = '%s:%s' % (k if k in sum(NAMED.values(), []) + sum(OPTIONAL.values(), []) else '<extra>', v['t'])
          dist.setdefault('forms', {}).setdefault(key, 0); dist['forms'][key] += 1
        if v['t'] == 'obj': walk(v['v'], depth + 1)
        if v['t'] == 'objs':
          for x in v['v']: walk(x, depth + 1)
    for c in cases:
      dist.setdefault('n', {}).setdefault(str(c['n']), 0); dist['n'][str(c['n'])] += 1
      walk(c['obj'], 0)

  def corpus(self):
    # the two repaired defects' witnesses (fixes/demos.py d15a, d15b) and the ADevice cbounds+constraints shape
    w = {'kind': 'leaf', 'n': 4, 'obj': {'cls': 'WindowDevice', 'kw': [['id', V('str', 'w')], ['length', V('nat', 4)], ['bounds', V('pairNum', ['0', '2'])],
         ['w', V('num', '2')], ['cbounds', V('none')], ['c', V('num', '1')]]}, 'probes': [{'s': ['1', '1/2', '2', '1'], 'p': '1/2'}]}
    t = {'kind': 'leaf', 'n': 3, 'obj': {'cls': 'TDevice', 'kw': [['id', V('str', 't')], ['length', V('nat', 3)], ['bounds', V('pairNum', ['0', '2'])],
         ['sustainment', V('num', '7/8')], ['efficiency', V('num', '3/2')], ['t_init', V('num', '15')], ['t_optimal', V('num', '20')],
         ['t_range', V('num', '4')], ['t_external', V('vec', ['10', '10', '10'])], ['c', V('num', '3')]]},
         'probes': [{'s': ['1', '1/2', '2'], 'p': '1/4'}]}
    # ADevice with cumulative bounds AND user constraints (repaired by /repo 31f4c67: the dump used to carry the
    # cumulative-bound closures too); `params=` as a constructor keyword (OPEN finding: to_dict() recurses forever)
    ucons = [{'type': 'ineq', 'w': ['1', '1'], 'c': '-1/2', 'n': 2, 'jac': True}]
    a = {'kind': 'leaf', 'n': 2, 'obj': {'cls': 'ADevice', 'kw': [['id', V('str', 'a')], ['length', V('nat', 2)], ['bounds', V('pairNum', ['0', '2'])],
         ['cbounds', V('pairNum', ['1', '3'])], ['constraints', V('cons', ucons)]]}, 'probes': [{'s': ['1', '1/2'], 'p': '1/4'}]}
    b = {'kind': 'leaf', 'n': 2, 'obj': {'cls': 'CDevice', 'kw': [['id', V('str', 'c')], ['length', V('nat', 2)], ['bounds', V('pairNum', ['0', '2'])],
         ['params', V('dict', [['a', V('num', '-1')]])]]}, 'probes': [{'s': ['1', '1/2'], 'p': '1/4'}]}
    # a window WIDER than the horizon, probed with the mass at an edge (the cost is built from the raw width: seeded C16-C);
    # cumulative bounds with an explicitly EMPTY user constraint list (seeded C16-F)
    w2 = {'kind': 'leaf', 'n': 10, 'obj': {'cls': 'WindowDevice', 'kw': [['id', V('str', 'win')], ['length', V('nat', 10)], ['bounds', V('pairNum', ['0', '2'])],
          ['w', V('num', '14')], ['c', V('num', '5/2')]]},
          'probes': [{'s': ['2', '2', '0', '0', '0', '0', '0', '0', '0', '1'], 'p': '1/4'}, {'s': ['1', '0', '0', '0', '0', '0', '0', '0', '2', '2'], 'p': '0'}]}
    a0 = {'kind': 'leaf', 'n': 6, 'obj': {'cls': 'ADevice', 'kw': [['id', V('str', 'a')], ['length', V('nat', 6)], ['bounds', V('pairNum', ['0', '2'])],
          ['cbounds', V('cbs', [['1', '4', 0, 3], ['1', '5', 3, 6]])], ['f', V('fn', {'k': 'null'})], ['constraints', V('cons', [])]]},
          'probes': [{'s': ['1', '1/2', '1', '1', '1', '1'], 'p': '1/4'}]}
    # a NEGATIVE window width and a NEGATIVE penalty scale (both accepted; the penalty is built from the raw values);
    # a horizon far beyond the usual planning window; None-valued / underscore-named / boolean extra fields
    w3 = {'kind': 'leaf', 'n': 4, 'obj': {'cls': 'WindowDevice', 'kw': [['id', V('str', 'wneg')], ['length', V('nat', 4)], ['bounds', V('pairNum', ['0', '2'])],
          ['w', V('num', '-2')], ['c', V('num', '-3/2')]]},
          'probes': [{'s': ['2', '1/2', '0', '1'], 'p': '0'}, {'s': ['1', '0', '0', '2'], 'p': '1/4'}]}
    long = {'kind': 'leaf', 'n': 192, 'obj': {'cls': 'Device', 'kw': [['id', V('str', 'long')], ['length', V('nat', 192)], ['bounds', V('pairNum', ['0', '1'])],
            ['remark', V('none')], ['_tag', V('str', 'Zone_B')], ['enabled', V('bool', False)], ['note', V('str', 'x')]]},
            'probes': [{'s': ['1/2']*192, 'p': '1/4'}]}
    return [w, t, a, b, w2, a0, w3, long]

  def nontrivial(self, case):
    o = case['obj']
    have = dict(o['kw'])
    return all(k in have and have[k]['t'] != 'none' for k in OPTIONAL[o['cls']])

  def canon(self, case):
    return json.dumps(case['obj'], sort_keys=True)

  # ---- T2
  def ops(self, case):
    o = case['obj']
    if any(v['t'] == 'dict' for _, v in o['kw']):
      return []      # the value model has no dictionary-valued parameter (`params=` bulk setter): oracle only
    obj = build_obj(o)
    keys = [k for k, _ in o['kw']]
    extra = [k for k in keys if k not in NAMED[o['cls']]]
    universe = sorted(set(sum([[n for n, _ in (r['sig_params'])] + r['props'] + ['id', 'length', 'bounds', 'cbounds'] for r in t1()['records']], [])) | set(keys))

    def vec(ks, flags=()):
      ks = list(ks)
      return [1 if u in ks else 0 for u in universe] + [len(ks)] + list(flags)

    def impl_model():
      d = obj.to_dict()
      try:
        twin = type(obj).from_dict(d)
        again = 1 if list(twin.to_dict().keys()) == list(d.keys()) else 0
      except Exception:
        again = 0
      return vec(d.keys(), [again])
    def impl_values():
      out = []
      for k, x in obj.to_dict().items():
        out += flat_py(k, x)
      return out
    have = dict(o['kw'])
    # exact, except where the class COMPUTES the stored number (CDevice2 sums the bounds for its defaulted cbounds)
    cbv = have.get('cbounds', {'t': 'none'})
    vtol = 1e-12 if o['cls'] == 'CDevice2' and (cbv['t'] == 'none' or (cbv['t'] == 'cbs' and not cbv['v'])) else 0
    return [
      Op({'op': 'serial.values', 'cls': o['cls'], 'kw': lean_kw(o)}, impl_values, vtol, 'dumped VALUES vs the model\'s toDict'),
      Op({'op': 'serial.tablekeys', 'cls': o['cls'], 'extra': extra, 'universe': universe}, lambda: vec(obj.to_dict().keys()), 0, 'to_dict keys vs generated table'),
      Op({'op': 'serial.modelkeys', 'cls': o['cls'], 'kw': lean_kw(o), 'universe': universe}, impl_model, 0, 'to_dict keys / twin vs model'),
    ]

  # ---- oracle: the property itself
  def oracle(self, case):
    N = np()
    o = case['obj']; cls = o['cls']
    text = kw_text(o)
    F = lambda kind, detail, **more: {'key': dict({'cls': cls, 'kind': kind}, **more), 'detail': '%s: %s   [constructed as %s]' % (cls, detail, text)}
    supplied = {}
    try:
      obj = build_obj(o, supplied)
    except Exception as e:
      # never on the unchanged tree: every generated parameterisation is one the shipped constructors accept
      return [F('construct-raises', 'the constructor raised %s: %s' % (type(e).__name__, str(e)[:160]), exc=type(e).__name__)]
    try:
      d = obj.to_dict()
    except Exception as e:
      via = {'via': 'params-kwarg'} if has_params_kwarg(o) else {}
      return [F('to_dict-raises', 'to_dict() raised %s: %s' % (type(e).__name__, str(e)[:120]), exc=type(e).__name__, **via)]
    keys = list(d.keys())
    try:
      twin = type(obj).from_dict(d)
    except Exception as e:
      return [F('from_dict-raises', '%s.from_dict(obj.to_dict()) raised %s: %s; dumped keys %s' % (cls, type(e).__name__, str(e)[:160], keys), exc=type(e).__name__)]
    fails = []
    if type(twin) is not type(obj):
      fails.append(F('type', 'twin is a %s' % type(twin).__name__))
    # identity, length, shape, bounds
    for name, get in (('id', lambda x: x.id), ('len', lambda x: len(x)), ('shape', lambda x: tuple(int(v) for v in x.shape)),
                      ('bounds', lambda x: N.array(x.bounds, dtype=float)), ('lbounds', lambda x: x.lbounds), ('hbounds', lambda x: x.hbounds)):
      a, b = outcome(lambda: get(obj)), outcome(lambda: get(twin))
      if not (same_outcome(a, b) if name not in ('id',) else (a[0] == b[0] and a[1] == b[1])):
        fails.append(F(name, '%s of the twin is %s, of the original %s' % (name, show(b), show(a))))
    for name in ('cbounds', 'sbounds'):
      if hasattr(obj, name) and not callable(getattr(type(obj), name, None)):
        try:
          a, b = getattr(obj, name), getattr(twin, name)
        except Exception:
          continue
        if not same_value(a, b):
          fails.append(F(name, '%s of the twin is %s, of the original %s' % (name, b, a)))
    # every dumped parameter, and the twin's own dump
    try:
      d2 = twin.to_dict()
    except Exception as e:
      d2 = None
      fails.append(F('twin-to_dict-raises', 'twin.to_dict() raised %s' % type(e).__name__))
    if d2 is not None and sorted(d2.keys()) != sorted(keys):
      fails.append(F('twin-keys', 'the twin dumps keys %s, the original %s' % (list(d2.keys()), keys)))
    passed = [k for k, _ in o['kw']]
    for k in keys:
      if k == 'constraints':
        continue      # compared by count / type / value / Jacobian at the probes below
      a = outcome(lambda: getattr(obj, k))
      if a[0] == 'ok':     # (the multi-flow adaptors keep `flows` / `device` private: those are compared through the dumps)
        b = outcome(lambda: getattr(twin, k))
        if b[0] == 'raise' or not same_value(getattr(obj, k), getattr(twin, k)):
          fails.append(F('param', 'parameter %r of the twin is %s, of the original %r' % (k, show(b), getattr(obj, k)), param=k))
      if d2 is not None and k in d2 and not same_value(d[k], d2[k]):
        fails.append(F('param', 'the twin dumps %r = %r, the original %r' % (k, d2[k], d[k]), param=k))
    # every constructor argument that was passed must be in the dump and equal on the twin
    for k in passed:
      if k not in keys:
        fails.append(F('undumped-arg', 'constructor argument %r was passed but to_dict() does not dump it (keys %s)' % (k, keys), param=k))
      if k in ('constraints', 'devices', 'device'):
        continue
      try:
        a = getattr(obj, k)
      except Exception:
        continue
      b = outcome(lambda: getattr(twin, k))
      if b[0] == 'raise' or not same_value(a, getattr(twin, k)):
        fails.append(F('param', 'constructor argument %r: twin has %s, original %r' % (k, show(b), a), param=k))
    # every SUPPLIED value must be the dumped value — exactly (np.array_equal, no tolerance): these numbers are only stored
    n_self = obj_len(o)
    for k, val in o['kw']:
      if k not in d:
        continue
      ok, want = expected_dump(cls, k, val, n_self, supplied[k])
      if ok and not same_value(want, d[k]):
        brief = lambda x: ('%d constraint dict(s)' % len(x)) if k == 'constraints' and isinstance(x, (list, tuple)) else repr(x)
        fails.append(F('dumped-value', 'to_dict()[%r] is %s, but %s was supplied' % (k, brief(d[k]), brief(want)), param=k))
    # children BY VALUE (same class, same dumped settings, recursively); their behaviour is compared through the set's
    # cost / deriv / constraints below. (Today the twin holds the very same child objects: see the module doc-string.)
    for k in ('devices', 'device'):
      if k in d and d2 is not None and k in d2 and not same_value(d[k], d2[k]):
        fails.append(F('children', 'the twin\'s %s are not the original\'s by value (class + dumped settings)' % k))
    for key, attr in (('devices', '_devices'), ('device', '_device')):
      if key in supplied and not same_value(vars(obj).get(attr), vars(twin).get(attr)):
        fails.append(F('children', 'the twin\'s %s are not the original\'s by value (class + dumped settings)' % key))
    # behaviour at the probes
    rows = obj_rows(o); n = case['n']
    for pr in case['probes']:
      s = build.arr(pr['s']); p = build.price(pr['p'])
      if case['kind'] == 'tree':
        s = s.reshape(rows, n)
      for name in ('cost', 'deriv'):
        a, b = outcome(lambda: getattr(obj, name)(s, p)), outcome(lambda: getattr(twin, name)(s, p))
        if not same_outcome(a, b):
          fails.append(F(name, '%s at s=%s p=%s: twin %s, original %s' % (name, pr['s'], pr['p'], show(b), show(a))))
      ca, cb = outcome(lambda: obj.constraints), outcome(lambda: twin.constraints)
      if ca[0] == 'raise' or cb[0] == 'raise':
        if not (ca[0] == cb[0] and ca[1] == cb[1]):
          fails.append(F('constraints-raise', 'constraints: twin %s, original %s' % (show(cb), show(ca))))
        continue
      la, lb = obj.constraints, twin.constraints
      if len(la) != len(lb):
        fails.append(F('constraints-count', 'the twin has %d constraints, the original %d (dumped keys %s)' % (len(lb), len(la), keys)))
        continue
      x = s.reshape(-1) if case['kind'] == 'tree' else s
      for i, (u, v) in enumerate(zip(la, lb)):
        if u['type'] != v['type'] or ('jac' in u) != ('jac' in v):
          fails.append(F('constraint-type', 'constraint %d: twin %s%s, original %s%s' % (i, v['type'], '+jac' if 'jac' in v else '', u['type'], '+jac' if 'jac' in u else ''))); break
        a, b = outcome(lambda: u['fun'](x)), outcome(lambda: v['fun'](x))
        if not same_outcome(a, b):
          fails.append(F('constraint-value', 'constraint %d at s=%s: twin %s, original %s' % (i, pr['s'], show(b), show(a)))); break
        if 'jac' in u:
          a, b = outcome(lambda: u['jac'](x)), outcome(lambda: v['jac'](x))
          if not same_outcome(a, b):
            fails.append(F('constraint-jac', 'Jacobian of constraint %d at s=%s: twin %s, original %s' % (i, pr['s'], show(b), show(a)))); break
    self.alias_notes(cls, obj, twin, d)
    # one failure per (kind, param) is enough
    seen, out = set(), []
    for f in fails:
      kk = json.dumps(f['key'], sort_keys=True)
      if kk not in seen:
        seen.add(kk); out.append(f)
    return out

  def alias_notes(self, cls, obj, twin, d):
    """NOT a C16 failure (C12 territory): which dumped values are the original's own mutable state, i.e. mutating the dump
    (or the twin) would change the original."""
    N = np()
    def note(kind, what):
      l = self.notes.setdefault(kind, {}).setdefault(what, [])
      if cls not in l:
        l.append(cls); l.sort()
    for k, v in d.items():
      if isinstance(v, (list, dict, N.ndarray)):
        for attr, inner in list(vars(obj).items()):
          if inner is v:
            note('dump value is the live internal object (mutating the dump changes the device)', '%s -> %s' % (k, attr))
    for attr, inner in vars(obj).items():
      if isinstance(inner, (list, dict, N.ndarray)) and vars(twin).get(attr) is inner:
        note('twin shares a mutable object with the original', attr)

  def extra_evidence(self):
    T1 = t1()
    return {'t1_class_units': T1['t1_units'], 't1_class_problems': T1['t1_fallback_units'],
            'table_diagnosis': T1['diagnosis'], 'input_distribution': self.dist,
            'aliasing_notes (C12 territory, not failures)': self.notes}


PROP = C16()
