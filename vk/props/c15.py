"""C15 — cost models have the documented closed forms and end-point behaviour.

T2 (model <-> implementation): ABSOLUTE `leaf.cost` (the additive constant matters here: DK.C15.hlqCost_const
states what it is) and `leaf.deriv`, for every shipped class, at the drawn in-bounds flow and at the two
flows lying exactly on the lower / upper bounds.

Oracle (implementation only): the documented formula of every class coded independently below, from
README.md, the class docstrings and the text of property C15 — never from the model:
  Device / PVDevice  s.p                         CDevice   a*sum(s) + b + s.p
  GDevice            sum_i poly_i(-s_i) + s.p    (poly = explicit sum c_j x^(deg-j))
  IDevice            sum_i c_i q_i^b_i + s.p,    q linear, 1 at the lower bound, a at the upper (also non-integer b)
  IDevice2           marginal cost p_l at the lower bound, p_h at the upper, linear between; the cost is an
                     antiderivative of it (cost differences = trapezoid area); additive constant not documented
  CDevice2           the same curve at the cumulative low / high of each cumulative bound, on the sum over its range
  SDevice            c1 r^2 - c2 r_i r_(i+1) + c3 max(0, depth*capacity - soc_i)^2 + s.p   (soc by the documented loop)
  TDevice            sum_i c_i ((t_opt - T_i)/t_range)^2 + s.p   (T by the documented recurrence; once per slot)
  ADevice            f(s) + s.p  (f rebuilt fresh from the description)
  zero-width slots contribute nothing (formula; and a fresh twin device without those slots costs the same).

Scope notes (read before counting these as evidence):
  * the ADevice "closed form" compares the code with ITSELF: `f` is rebuilt with the same builder from the same
    `functions.py` classes, so it only shows that ADevice adds `s.p` to whatever `f` returns.  What the shipped
    preference functions compute is tied to the model through T2 on `Fn` (`leaf.cost` of ADevice here, `fn.*` in C01/C14).
  * "slots whose bounds coincide contribute no preference cost" is proved (DK.C15.zero_width_*) and checked (formula,
    fresh twin) ONLY for the two per-slot curves that have bounds as parameters: the high/low quadratic (IDevice2) and the
    ABC curve (IDevice), plus their combinator forms through T2.  The other classes have no per-slot bound parameter in
    their preference cost (CDevice, GDevice, SDevice, TDevice depend on the flow only), so a zero-width slot there
    contributes whatever the flow pinned in it costs; nothing is claimed for them.
  * CDevice2 with exactly one cumulative bound over a proper sub-range is an OPEN FINDING.  A failure gets the key
    {"cls": "CDevice2", "kind": "single-subrange-cbound", "check": <linear-between|antiderivative|end-point>} only when the
    observed value is what the finding predicts (the curve evaluated at the sum of the WHOLE flow vector); any other
    deviation in such a device keeps the ordinary kind and is reported as a new violation.
Generator additions (round 3, from the blind-spot audit): GDevice cost curves of degree 4-5 with SIGNED lower-order
coefficients (1-D and per-slot; the polynomial may be negative on part of the range); CDevice2 with 4-6 contiguous cumulative
ranges; slots of width 2^-30..2^-24 (1e-9..6e-8, dyadic flows) that are NOT zero-width; TDevice at freezer / cold-climate
temperatures (t_optimal -25..5, t_external -30..45, |efficiency| up to 8); PROBES (oracle only): parameters outside a
validator (IDevice2 / CDevice2 slopes > 0, CDevice a > 0, IDevice c < 0): the constructor may reject them (fine), but if it
ACCEPTS them the documented closed form / end-points must hold for the GIVEN values.
Generator additions: narrow but NON-degenerate slots / cumulative bands at a large level (1024 and 1024 + 2^-8: narrower
than numpy's isclose tolerance 1e-8 + 1e-5*|x|), CDevice with slope a = 0 and offset b != 0 (30% of CDevice cases).
"""
import copy
from fractions import Fraction
from .. import common as C, gen, build
from ..common import F, fs, dy, pf
from ..check import Prop, Op, strip_private
from ..leafcommon import np, has_curve, interior_slot


def vec(v, n):
  """scalar-or-vector protocol parameter -> list of n floats."""
  return [pf(x) for x in v] if isinstance(v, list) else [pf(v)]*n


def close(a, b, scale=1.0, tol=1e-9):
  return abs(a - b) <= tol*max(1.0, abs(a), abs(b), scale)


def poly_explicit(cs, x):
  deg = len(cs) - 1
  return sum(c*x**(deg - j) for j, c in enumerate(cs))


def hl_marginal(pl, ph, xl, xh, x):
  return 0.0 if xl == xh else pl + (ph - pl)*(x - xl)/(xh - xl)


def hl_area(pl, ph, xl, xh, x0, x):
  return (x - x0)*(hl_marginal(pl, ph, xl, xh, x0) + hl_marginal(pl, ph, xl, xh, x))/2


def storage_soc(prm, r):
  """documented: charge decays by `sustainment` per slot; a flow r is stored as r*e when charging and drawn as r/e when discharging."""
  sus, e = pf(prm['sustainment']), pf(prm['efficiency'])
  level = pf(prm['start'])*pf(prm['capacity'])
  out = []
  for x in r:
    level = level*sus + (x*e if x > 0 else (x/e if x < 0 else 0.0))
    out.append(level)
  return out


def thermal_T(prm, r):
  """tdevice.py docstring: T(i) = T(i-1) + A(TE(i) - T(i-1)) + B Q(i), A = 1 - sustainment, B = efficiency, T(-1) = t_init."""
  A, B = 1 - pf(prm['sustainment']), pf(prm['efficiency'])
  T = pf(prm['t_init'])
  out = []
  for te, x in zip([pf(v) for v in prm['t_external']], r):
    T = T + A*(te - T) + B*x
    out.append(T)
  return out


def doc_pref(d, s):
  """documented preference cost (the part of the cost that is not s.p) where the documentation gives it absolutely; else None."""
  cls, n, p = d['cls'], d['n'], d['prm']
  lb = [pf(x) for x in d['lb']]; hb = [pf(x) for x in d['hb']]
  if cls in ('Device', 'PVDevice'):
    return 0.0
  if cls == 'CDevice':
    return pf(p['a'])*sum(s) + pf(p['b'])
  if cls == 'GDevice':
    cc = p['cost_coeffs']
    rows = [[pf(x) for x in r] for r in cc] if isinstance(cc[0], list) else [[pf(x) for x in cc]]*n
    return sum(poly_explicit(rows[i], -s[i]) for i in range(n))
  if cls == 'IDevice':
    a, b, c = vec(p['a'], n), vec(p['b'], n), vec(p['c'], n)
    tot = 0.0
    for i in range(n):
      if lb[i] == hb[i]:
        continue
      q = 1 + (a[i] - 1)*(s[i] - lb[i])/(hb[i] - lb[i])
      tot += c[i]*q**b[i]
    return tot
  if cls == 'SDevice':
    soc = storage_soc(p, s)
    c1, c2, c3 = pf(p['c1']), pf(p['c2']), pf(p['c3'])
    floor = pf(p['damage_depth'])*pf(p['capacity'])
    tot = 0.0
    for i in range(n):
      tot += c1*s[i]**2 + c3*max(0.0, floor - soc[i])**2
      if i + 1 < n:
        tot -= c2*s[i]*s[i + 1]
    return tot
  if cls == 'TDevice':
    T = thermal_T(p, s)
    c = vec(p['c'], n); rng_ = pf(p['t_range']); opt = pf(p['t_optimal'])
    if rng_ == 0:
      return 0.0
    return sum(c[i]*((opt - T[i])/rng_)**2 for i in range(n))
  return None


def single_subrange(d):
  """CDevice2 with exactly one cumulative bound whose range is a proper sub-range of the horizon."""
  cbs = d.get('cbs') or []
  return d['cls'] == 'CDevice2' and len(cbs) == 1 and (int(cbs[0][2]) != 0 or int(cbs[0][3]) != d['n'])


PROBES = ['IDevice2.p>0', 'IDevice2.p>0', 'CDevice2.p>0', 'CDevice.a>0', 'IDevice.c<0']


def gen_probe(rng, tier, name):
  """parameters OUTSIDE a validator.  Rejection (ValueError) is the expected outcome and is fine for C15; if the
  constructor accepts them, the documented formulas must hold for the values that were GIVEN."""
  cls = name.split('.')[0]
  while True:
    d = gen.gen_leaf(rng, tier, [cls])
    if any(a != b for a, b in zip(d['lb'], d['hb'])):
      break
  n, p = d['n'], d['prm']
  L = lambda v: [fs(x) for x in v]
  if name == 'IDevice2.p>0':
    if rng.random() < 0.5:
      pl = dy(rng, -2, 1); ph = max(pl, F(0)) + dy(rng, Fraction(1, 4), 2)
      p['p_l'], p['p_h'] = fs(pl), fs(ph)
    else:
      pls = [dy(rng, -2, 1) for _ in range(n)]; phs = [max(x, F(0)) + dy(rng, 0, 2) for x in pls]
      phs[rng.randrange(n)] += Fraction(1, 4)
      p['p_l'], p['p_h'] = L(pls), L(phs)
  elif name == 'CDevice2.p>0':
    pl = dy(rng, -2, 1); p['p_l'] = fs(pl); p['p_h'] = fs(max(pl, F(0)) + dy(rng, Fraction(1, 4), 2))
  elif name == 'CDevice.a>0':
    p['a'] = fs(dy(rng, Fraction(1, 4), 3))
  elif name == 'IDevice.c<0':
    p['c'] = fs(-dy(rng, Fraction(1, 4), 2))
  d['_special'] = 'probe:' + name
  return d


class C15(Prop):
  id = 'C15'
  lean_module = 'DK.Props.C15'
  theorems = ['DK.C15.device_cost_doc', 'DK.C15.cdevice_cost_doc', 'DK.C15.polyEval_eq_doc', 'DK.C15.gdevice_cost_doc',
              'DK.C15.hlqDeriv_eq_doc', 'DK.C15.hlqDeriv_at_low', 'DK.C15.hlqDeriv_at_high', 'DK.C15.hlqDeriv_affine', 'DK.C15.gen_hlq_deriv_end_points',
              'DK.C15.hl_marginal_unique', 'DK.C15.hlqCost_antideriv', 'DK.C15.hlqCost_diff', 'DK.C15.hlqCost_const',
              'DK.C15.hlqCost_linear', 'DK.C15.hlqCost_at_vertex', 'DK.C15.hlqCost_eq_doc',
              'DK.C15.idevice2_cost_doc', 'DK.C15.idevice2_deriv_low', 'DK.C15.idevice2_deriv_high', 'DK.C15.idevice2_deriv_doc',
              'DK.C15.cdevice2_cost_doc_partial', 'DK.C15.cdevice2_single_subrange_counterexample',
              'DK.C15.cdevice2_deriv_low', 'DK.C15.cdevice2_deriv_high', 'DK.C15.cdevice2_deriv_ranges',
              'DK.C15.abcQ_eq_doc', 'DK.C15.abcQ_at_low', 'DK.C15.abcQ_at_high', 'DK.C15.abcQ_affine',
              'DK.C15.abcCost_eq_doc', 'DK.C15.idevice_cost_doc', 'DK.C15.abcCost_at_low', 'DK.C15.abcCost_at_high',
              'DK.C15.minZero_sq', 'DK.C15.chargeCost_eq_doc', 'DK.C15.sdevice_cost_doc', 'DK.C15.no_shortfall',
              'DK.C15.tSlotCost_eq_doc', 'DK.C15.tdevice_cost_doc', 'DK.C15.thermal_end_points',
              'DK.C15.zero_width_hlq', 'DK.C15.zero_width_abc', 'DK.C15.idevice2_all_zero_width',
              'DK.C15.idevice_all_zero_width', 'DK.C15.idevice2_zero_width_slot']
  bridge = ['DK.Bridge.hlq_cost', 'DK.Bridge.hlq_deriv', 'DK.Bridge.abc_cost', 'DK.Bridge.abc_q']
  bridge_vec = ['DK.BridgeVec.Device_cost', 'DK.BridgeVec.CDevice_cost', 'DK.BridgeVec.SDevice_flip_cost_at',
                'DK.BridgeVec.SDevice_deep_damage_at', 'DK.BridgeVec.SDevice_charge_costs', 'DK.BridgeVec.SDevice_costv',
                'DK.BridgeVec.SDevice_charge_at_lossless', 'DK.BridgeVec.IDevice2_costv', 'DK.BridgeVec.IDevice_costv',
                'DK.BridgeVec.TDevice_costv_t', 'DK.BridgeVec.TDevice_costv',
                'DK.BridgeVec.GDevice_cost']      # T1v: vector method bodies (vk/translate_vec.py, DK/Lemmas/BridgeVec.lean)
  bridge = bridge + bridge_vec
  uses_t1 = True
  rule = ('leaf of every shipped class x n (1..8 quick plus 5 % from {12,16,24,25,31,48}; ..60 thorough; 25 % of prices, interior flows and cost parameters are non-dyadic decimals) x bounds with zero-width slots x scalar/vector parameters x '
          'in-bounds flow (interior / mixed / per-slot on a bound) AND the flows exactly on the lower and on the upper bounds x '
          'scalar/vector price; IDevice also with non-integer exponents (oracle only). non-trivial: n >= 2 and a non-zero curve parameter')
  sizes = {'quick': 1000, 'thorough': 4000}   # exact rational arithmetic on nano-width slots, degree-5 curves and horizons up to 60 costs ~0.25 s per case in the Lean driver
  assumptions = ['the additive constant of the high/low quadratic cost is not documented; DK.C15.hlqCost_const states the code\'s choice, the oracle checks cost differences',
                 'state of charge / temperature recurrences are taken from the docstrings (their correctness is C09)',
                 'non-integer IDevice exponents: theorem (generic pow) + oracle, not T2 (the executable model has integer powers)']

  def __init__(self):
    self.stats = {'special': {}, 'classes': {}, 'zero_width_cases': 0, 'oracle_only': 0, 'single_subrange': 0, 'endpoint_checks': 0, 'twin_checks': 0}

  # ------------------------------------------------------------------ cases
  def cases(self, rng, tier, count):
    out = []
    for _ in range(count):
      probe = None
      if rng.random() < 0.04:
        probe = rng.choice(PROBES)
        d = gen_probe(rng, tier, probe)
      else:
        d = gen.gen_leaf(rng, tier)
        self._special(rng, d)
      mode = rng.choice(['interior', 'mixed', 'mixed', 'onbound', 'lower', 'upper'])
      if d.get('_special') == 'tiny-slot' and mode in ('interior', 'mixed'):
        mode = 'onbound'      # dyadic positions only: (x - x_l)/(x_h - x_l) is then exact in binary floating point
      if mode == 'onbound':
        lb = [F(x) for x in d['lb']]; hb = [F(x) for x in d['hb']]
        s = [fs(rng.choice([a, b, a + (b - a)*Fraction(rng.randint(1, 7), 8)])) for a, b in zip(lb, hb)]
      else:
        s = gen.leaf_flow(rng, d, mode)
      case = {'dev': d, 's': s, 'p': gen.gen_price(rng, d['n']), '_shape': rng.choice(['flat', 'flat', 'row'])}
      if probe:
        case['probe'] = probe; case['oracle_only'] = True
      if d['cls'] == 'IDevice' and not probe and rng.random() < 0.25:
        # real exponents: covered by the theorem (generic pow) and the oracle, not by the integer-power executable model
        nb = lambda: rng.choice(['1/2', '3/2', '5/2', '5/4', '3'])
        d['prm']['b'] = nb() if rng.random() < 0.5 else [nb() for _ in range(d['n'])]
        case['oracle_only'] = True
      out.append(case)
    return out

  def corpus(self):
    # the Lean witness DK.C15.cdevice2_single_subrange_counterexample replayed on the implementation on every run, so that the
    # open finding is reproduced (same KNOWN-FINDING lines) whatever the seed draws
    d = {'cls': 'CDevice2', 'n': 4, 'lb': ['0', '0', '0', '0'], 'hb': ['2', '2', '2', '2'], 'cbs': [['1', '3', 1, 3]],
         'prm': {'p_l': '-2', 'p_h': '0'}, '_py': {'bform': 'table', 'cform': '4tuples'}}
    d2 = copy.deepcopy(d); d2['lb'] = ['1', '0', '0', '1']      # outer slots cannot be emptied: the end-point check differs too
    return [{'dev': d, 's': ['1', '1/2', '1/2', '1'], 'p': '0', '_shape': 'flat'},
            {'dev': d2, 's': ['1', '1/2', '1/2', '1'], 'p': '0', '_shape': 'flat'}]

  def _special(self, rng, d):
    """boundary configurations the plain generator hardly ever draws (in place)."""
    cls, n = d['cls'], d['n']
    tiny = Fraction(1, 256)
    if cls == 'CDevice' and rng.random() < 0.3:
      d['prm']['a'] = '0'
      if Fraction(d['prm']['b']) == 0:
        d['prm']['b'] = fs(rng.choice([-1, 1])*dy(rng, Fraction(1, 4), 2))
      d['_special'] = 'a=0'
    elif cls in ('IDevice', 'IDevice2') and rng.random() < 0.15:
      # some slots narrower than isclose's tolerance at their level, but not zero-width
      lb = [F(x) for x in d['lb']]; hb = [F(x) for x in d['hb']]
      ks = [k for k in range(n) if rng.random() < 0.5] or [rng.randrange(n)]
      for k in ks:
        lb[k] = 1024 + dy(rng, 0, 4); hb[k] = lb[k] + tiny
      d['lb'] = [fs(x) for x in lb]; d['hb'] = [fs(x) for x in hb]
      d['cbs'] = []; d['_py']['cform'] = None
      d['_py']['bform'] = 'table' if (n == 2 or d['_py'].get('bform') == 'scalar') else d['_py'].get('bform', 'table')
      d['_special'] = 'narrow-slot'
    elif cls == 'CDevice2' and rng.random() < 0.2:
      # one whole-horizon cumulative band of width 2^-8 at a level above 1024
      lb = [F(x) for x in d['lb']]; hb = [F(x) for x in d['hb']]
      lb[0] += 1024; hb[0] += 1024
      if len(set(lb)) > 1 or len(set(hb)) > 1:
        d['_py']['bform'] = 'table' if (n == 2 or d['_py'].get('bform') == 'scalar') else d['_py'].get('bform', 'table')
      lo, hi = sum(lb, F(0)), sum(hb, F(0))
      l = lo + (hi - lo)*Fraction(rng.randint(0, 3), 4)
      d['lb'] = [fs(x) for x in lb]; d['hb'] = [fs(x) for x in hb]
      d['cbs'] = [[fs(l), fs(l + tiny), 0, n]]
      d['_py']['cform'] = rng.choice(['2tuple', '4tuples'])
      d['_special'] = 'narrow-band'
    elif cls in ('IDevice', 'IDevice2') and rng.random() < 0.12:
      # slots of width 1e-9 .. 6e-8: far below any "strip the float noise" rounding, yet not zero-width
      lb = [F(x) for x in d['lb']]; hb = [F(x) for x in d['hb']]
      ks = [k for k in range(n) if rng.random() < 0.5] or [rng.randrange(n)]
      for k in ks:
        lb[k] = dy(rng, 0, 4); hb[k] = lb[k] + Fraction(1, 2**rng.choice([24, 26, 27, 28, 30]))
      d['lb'] = [fs(x) for x in lb]; d['hb'] = [fs(x) for x in hb]
      d['cbs'] = []; d['_py']['cform'] = None
      d['_py']['bform'] = 'table' if (n == 2 or d['_py'].get('bform') == 'scalar') else d['_py'].get('bform', 'table')
      d['_special'] = 'tiny-slot'
    elif cls == 'CDevice2' and n >= 4 and rng.random() < 0.3:
      # 4 - 6 contiguous cumulative ranges covering the horizon, each with its own limits
      lb = [F(x) for x in d['lb']]; hb = [F(x) for x in d['hb']]
      k = rng.randint(4, min(6, n))
      pts = [0] + sorted(rng.sample(range(1, n), k - 1)) + [n]
      cbs = []
      for a, b in zip(pts[:-1], pts[1:]):
        lo, hi = sum(lb[a:b], F(0)), sum(hb[a:b], F(0))
        w = hi - lo
        l = lo + w*Fraction(rng.randint(-2, 3), 8)
        h = max(l, lo) + (w if w > 0 else 1)*Fraction(rng.randint(1, 6), 8)
        cbs.append([fs(l), fs(h if h > l else l + 1), a, b])
      d['cbs'] = cbs; d['_py']['cform'] = '4tuples'
      d['_special'] = 'ranges>=4'
    elif cls == 'GDevice' and rng.random() < 0.45:
      # degree up to 5, signed lower-order coefficients (the curve may dip below zero on part of the range)
      def coeffs():
        deg = rng.choice([2, 3, 4, 4, 5, 5])
        return [fs(dy(rng, Fraction(1, 4), 2))] + [fs(dy(rng, -2, 2)) for _ in range(deg)]
      d['prm']['cost_coeffs'] = coeffs() if rng.random() < 0.65 else self._rows(rng, n, coeffs)
      d['_special'] = 'gdevice-signed-deg<=5'
    elif cls == 'TDevice' and rng.random() < 0.35:
      # freezers and cold climates
      prm = d['prm']
      prm['t_optimal'] = fs(dy(rng, -25, 5)); prm['t_init'] = fs(dy(rng, -30, 40))
      prm['t_external'] = [fs(dy(rng, -30, 45, 1)) for _ in range(n)]
      prm['efficiency'] = fs(rng.choice([1, -1, -1])*dy(rng, Fraction(1, 4), 8))
      d['_special'] = 'tdevice-cold'
    if d.get('_special'):
      self.stats['special'][d['_special']] = self.stats['special'].get(d['_special'], 0) + 1

  @staticmethod
  def _rows(rng, n, coeffs):
    """per-slot coefficient table: every row the same degree (numpy needs a rectangular table)."""
    first = coeffs()
    rows = [first]
    for _ in range(n - 1):
      rows.append([fs(dy(rng, Fraction(1, 4), 2))] + [fs(dy(rng, -2, 2)) for _ in first[1:]])
    return rows

  def _flows(self, case):
    d = case['dev']
    return [('s', case['s']), ('lower bounds', d['lb']), ('upper bounds', d['hb'])]

  def _arr(self, case, v):
    a = build.arr(v)
    return a.reshape(1, -1) if case.get('_shape') == 'row' else a

  # ------------------------------------------------------------------ T2
  def ops(self, case):
    d = case['dev']
    self.stats['classes'][d['cls']] = self.stats['classes'].get(d['cls'], 0) + 1
    if any(a == b for a, b in zip(d['lb'], d['hb'])):
      self.stats['zero_width_cases'] += 1
    if case.get('oracle_only'):
      self.stats['oracle_only'] += 1
      return []
    dev = build.build_leaf(d)
    p = build.price(case['p'])
    ops = []
    for name, v in self._flows(case):
      s = self._arr(case, v)
      ops.append(Op({'op': 'leaf.cost', 'dev': d, 's': v, 'p': case['p']}, (lambda s=s: dev.cost(s, p)), 1e-9, 'absolute cost at ' + name))
      ops.append(Op({'op': 'leaf.deriv', 'dev': d, 's': v, 'p': case['p']},
                    (lambda s=s: np().array(dev.deriv(s, p), dtype=float).reshape(-1)), 1e-9, 'deriv at ' + name))
    return ops

  # ------------------------------------------------------------------ oracle
  def oracle(self, case):
    N = np()
    d = case['dev']; cls, n, prm = d['cls'], d['n'], d['prm']
    if case.get('probe'):
      try:
        dev = build.build_leaf(d)
      except ValueError:
        self.stats['probes_rejected'] = self.stats.get('probes_rejected', 0) + 1
        return []       # rejected: fine (what must be rejected is C11's / C07's claim)
      self.stats['probes_accepted'] = self.stats.get('probes_accepted', 0) + 1
    else:
      dev = build.build_leaf(d)
    p = build.price(case['p'])
    pv = (N.array(p, dtype=float)*N.ones(n)).tolist()
    lb = [pf(x) for x in d['lb']]; hb = [pf(x) for x in d['hb']]
    out = []
    desc = '%s n=%d lb=%s hb=%s cbs=%s prm=%s p=%s' % (cls, n, d['lb'], d['hb'], d.get('cbs'), strip_private(prm), case['p'])
    def fail(kind, detail):
      key = {'cls': cls, 'kind': kind}
      if kind.startswith('single-subrange-cbound:'):
        key = {'cls': cls, 'kind': 'single-subrange-cbound', 'check': kind.split(':', 1)[1]}
      out.append({'key': key, 'detail': '%s: %s' % (desc, detail)})
    cost = lambda v: float(dev.cost(self._arr(case, v), p))
    deriv = lambda v: N.array(dev.deriv(self._arr(case, v), p), dtype=float).reshape(-1)
    lin = lambda s: sum(a*b for a, b in zip(s, pv))

    # ---- classes with an absolutely documented cost
    for name, v in self._flows(case):
      s = [pf(x) for x in v]
      want = doc_pref(d, s)
      if want is None:
        continue
      got = cost(v)
      if not close(got, want + lin(s), scale=abs(want) + abs(lin(s))):
        fail('closed-form', 'cost at %s %s is %.12g, documented %.12g (preference %.12g + s.p %.12g)' % (name, v, got, want + lin(s), want, lin(s)))
        break
    if cls == 'ADevice':
      f = build.build_fn(build.annotate_fn(copy.deepcopy(prm['f']), n))
      for name, v in self._flows(case):
        s = [pf(x) for x in v]
        want = float(f(N.array(s))) + lin(s)
        got = cost(v)
        if not close(got, want, scale=abs(want)):
          fail('closed-form', 'cost at %s %s is %.12g, f(s) + s.p = %.12g' % (name, v, got, want))
          break

    # ---- high/low quadratic, per slot
    if cls == 'IDevice2':
      pl, ph = vec(prm['p_l'], n), vec(prm['p_h'], n)
      for name, v, want in (('lower bounds', d['lb'], pl), ('upper bounds', d['hb'], ph)):
        g = deriv(v)
        for i in range(n):
          if lb[i] == hb[i]:
            continue
          self.stats['endpoint_checks'] += 1
          if not close(g[i] - pv[i], want[i]):
            fail('end-point', 'marginal cost (less price) of slot %d at the %s is %.12g, documented %s=%.12g' % (
              i, name, g[i] - pv[i], 'p_l' if name[0] == 'l' else 'p_h', want[i]))
            break
      s = [pf(x) for x in case['s']]
      g = deriv(case['s'])
      for i in range(n):
        m = hl_marginal(pl[i], ph[i], lb[i], hb[i], s[i])
        if not close(g[i] - pv[i], m):
          fail('linear-between' if lb[i] != hb[i] else 'zero-width', 'marginal cost (less price) of slot %d at s=%s is %.12g, documented %.12g' % (i, case['s'], g[i] - pv[i], m))
          break
      area = sum(hl_area(pl[i], ph[i], lb[i], hb[i], lb[i], s[i]) for i in range(n))
      dl = lin(s) - lin(lb)
      got = cost(case['s']) - cost(d['lb'])
      if not close(got, area + dl, scale=abs(area) + abs(dl)):
        fail('antiderivative', 'cost(s) - cost(lower bounds) = %.12g, area under the documented marginal cost + price term = %.12g (s=%s)' % (got, area + dl, case['s']))

    # ---- high/low quadratic of the cumulative consumption
    if cls == 'CDevice2':
      pl, ph = pf(prm['p_l']), pf(prm['p_h'])
      cbs = [(pf(c[0]), pf(c[1]), int(c[2]), int(c[3])) for c in d['cbs']]
      sub = single_subrange(d)
      if sub:
        self.stats['single_subrange'] += 1
      def kind_of(check, observed, predicted_by_finding):
        """open finding (DK.C15.cdevice2_single_subrange_counterexample): the curve is evaluated at the sum of the WHOLE
        flow vector.  Only an observation equal to that prediction is the known finding; anything else is new."""
        if sub and close(observed, predicted_by_finding, tol=1e-7):
          return 'single-subrange-cbound:' + check
        return check
      s = [pf(x) for x in case['s']]
      g = deriv(case['s'])
      L0, H0 = cbs[0][0], cbs[0][1]
      for i in range(n):
        m = sum(hl_marginal(pl, ph, l, h, sum(s[a:b])) for (l, h, a, b) in cbs if a <= i < b)
        if not close(g[i] - pv[i], m):
          fail(kind_of('linear-between', g[i] - pv[i], hl_marginal(pl, ph, L0, H0, sum(s))),
               'marginal cost (less price) of slot %d at s=%s is %.12g; documented: the curve at the cumulative consumption of the bound(s) covering the slot = %.12g' % (
            i, case['s'], g[i] - pv[i], m))
          break
      area = sum(hl_area(pl, ph, l, h, sum(lb[a:b]), sum(s[a:b])) for (l, h, a, b) in cbs)
      dl = lin(s) - lin(lb)
      got = cost(case['s']) - cost(d['lb'])
      if not close(got, area + dl, scale=abs(area) + abs(dl)):
        fail(kind_of('antiderivative', got, hl_area(pl, ph, L0, H0, sum(lb), sum(s)) + dl),
             'cost(s) - cost(lower bounds) = %.12g, area under the documented marginal cost + price term = %.12g (s=%s)' % (got, area + dl, case['s']))
      # flows whose cumulative consumption over a bound's range is exactly the cumulative low / high
      for which, want in ((0, pl), (1, ph)):
        t = list(lb); hit = []
        for (l, h, a, b) in cbs:
          lo, hi = sum(lb[a:b]), sum(hb[a:b])
          target = (l, h)[which]
          if hi > lo and lo <= target <= hi and not any(a2 < b and a < b2 for (a2, b2) in hit):
            w = (target - lo)/(hi - lo)
            for k in range(a, b):
              t[k] = lb[k] + w*(hb[k] - lb[k])
            hit.append((a, b))
        if not hit:
          continue
        g = N.array(dev.deriv(N.array(t), p), dtype=float).reshape(-1)
        for (a, b) in hit:
          self.stats['endpoint_checks'] += 1
          bad = [i for i in range(a, b) if not close(g[i] - pv[i], want, tol=1e-7)]
          if bad:
            fail(kind_of('end-point', g[bad[0]] - pv[bad[0]], hl_marginal(pl, ph, L0, H0, sum(t))),
                 'cumulative consumption over slots [%d,%d) at its cumulative %s (flow %s): marginal cost (less price) of slot %d is %.12g, documented %s=%.12g' % (
              a, b, 'low' if which == 0 else 'high', [round(x, 6) for x in t], bad[0], g[bad[0]] - pv[bad[0]], 'p_l' if which == 0 else 'p_h', want))
            break

    # ---- zero-width slots: a fresh twin without them has the same preference cost
    if cls in ('IDevice', 'IDevice2'):
      keep = [i for i in range(n) if lb[i] != hb[i]]
      if 0 < len(keep) < n:
        self.stats['twin_checks'] += 1
        sub = lambda v: [v[i] for i in keep] if isinstance(v, list) else v
        d2 = {'cls': cls, 'n': len(keep), 'lb': sub(d['lb']), 'hb': sub(d['hb']), 'cbs': [], 'prm': {k: sub(v) for k, v in prm.items()},
              '_py': {'bform': 'table', 'cform': None}}
        twin = build.build_leaf(d2)
        a = float(dev.cost(build.arr(case['s']), 0)); b = float(twin.cost(build.arr(sub(case['s'])), 0))
        if not close(a, b):
          fail('zero-width', 'preference cost %.12g, but the same device without its zero-width slots %s costs %.12g (s=%s)' % (
            a, [i for i in range(n) if i not in keep], b, case['s']))
      elif not keep:
        a = float(dev.cost(build.arr(case['s']), 0))
        if not close(a, 0.0):
          fail('zero-width', 'every slot has zero width but the preference cost is %.12g' % a)
    return out

  def nontrivial(self, case):
    return case['dev']['n'] >= 2 and has_curve(case['dev'])

  def extra_evidence(self):
    return {'c15_inputs': self.stats}


PROP = C15()
