"""C04 — set-level coupling constraints encode the documented aggregate limits."""
import json, os, re
from fractions import Fraction
from .. import common as C, gen, build, gen_sets as G
from ..check import Prop, Op

TOL = 1e-9


def np():
  import numpy
  return numpy


def mat(P):
  return np().array([[C.pf(v) for v in row] for row in P], dtype=float)


def fmat(P):
  return [[Fraction(v) for v in row] for row in P]


def scalar(v):
  """a constraint value (some closures return a size-1 array)."""
  a = np().asarray(v, dtype=float).reshape(-1)
  if a.size != 1:
    raise ValueError('constraint value has %d entries' % a.size)
  return float(a[0])


def impl_cons(obj, S):
  """the implementation's constraint list at S as a sorted multiset of [1|0 (eq|ineq), value]."""
  out = sorted((1.0 if c['type'] == 'eq' else 0.0, scalar(c['fun'](S))) for c in obj.constraints)
  return [[a, b] for a, b in out]


def impl_verdict(cons, S):
  """every exported constraint holds at S (SciPy convention), and the worst offender."""
  worst = None
  for k, c in enumerate(cons):
    v = scalar(c['fun'](S))
    ok = abs(v) <= TOL if c['type'] == 'eq' else v >= -TOL
    if not ok and worst is None:
      worst = (k, c['type'], v)
  return worst is None, worst


def input_forms(S):
  """the same matrix in other array forms a caller may legitimately pass."""
  n_ = np()
  forms = [('Fortran-ordered array', n_.asfortranarray(S))]
  big = n_.zeros((2*S.shape[0], S.shape[1])); big[::2] = S
  forms.append(('strided (non-contiguous) view', big[::2]))
  forms.append(('flat vector', S.reshape(-1).copy()))
  if (S == n_.round(S)).all():
    forms.append(('integer dtype', S.astype(n_.int64)))
    forms.append(('flat integer vector', S.astype(n_.int64).reshape(-1)))
  return forms


def build_handles(t, blocks, nodes):
  """build.build_tree, also recording the atomic / wrapped device of every block (row order) and every node object."""
  dk = C.repo()
  if t['k'] == 'leaf':
    dev = build.build_block_device(t['dev'], t['id']); blocks.append(dev)
    return dev
  if t['k'] == 'mf':
    dev = build.build_block_device(t['dev'], t['id']); blocks.append(dev)
    if t.get('ratios'):
      return dk.TwoRatioMFDeviceSet(dev, list(t['flows']), G.py_ratios(t), t.get('ctype', 'eq'))
    return dk.MFDeviceSet(dev, list(t['flows']))
  kids = [build_handles(c, blocks, nodes) for c in t['ch']]
  sb = None if t.get('sb') is None else np().array([[C.pf(a), C.pf(b)] for a, b in t['sb']])
  if t.get('sub'):
    obj = dk.SubBalancedDeviceSet(t['id'], kids, sb, labels=list(t.get('labels', [])), constraint_type=t.get('ctype', 'eq'),
                                  sign=C.pf(t.get('sign', '1')), apply_to_remaining=bool(t.get('rem', False)))
  else:
    obj = dk.DeviceSet(t['id'], kids, sb)
  nodes.append((t, obj))
  return obj


def build_tree_x(t):
  """the real objects from the description (like build.build_tree; ratios passed in the case's sequence form)."""
  return build_handles(t, [], [])


def same_cons(a, b):
  return len(a) == len(b) and all(x[0] == y[0] and abs(x[1] - y[1]) <= 1e-9*max(1.0, abs(x[1]), abs(y[1])) for x, y in zip(a, b))


def dup_affected(t):
  """some sub-balanced set has two rows with the same qualified id under it."""
  return any(s['k'] == 'node' and s.get('sub') and G.has_duplicate_ids(s) for _, s in G.sets_of(t))


def documented_row_sets(t):
  """rows (relative to the set) whose qualified id ends with each label, and the rows matched by none."""
  ids = G.fqids(t)
  labelled = [[k for k, q in enumerate(ids) if q.endswith(l)] for l in t.get('labels', [])]
  rest = [k for k, q in enumerate(ids) if not any(q.endswith(l) for l in t.get('labels', []))]
  return labelled, rest


def set_class(t):
  if t['k'] == 'mf':
    return 'TwoRatioMFDeviceSet' if t.get('ratios') else 'MFDeviceSet'
  return 'SubBalancedDeviceSet' if t.get('sub') else 'DeviceSet'


class C04(Prop):
  id = 'C04'
  lean_module = 'DK.Props.C04'
  uses_t1 = True      # T1s regenerates DK/Gen/Sets/*.lean from the current source before the bridge is audited
  bridge_sets = ['DK.BridgeSets.DeviceSet_constraints', 'DK.BridgeSets.DeviceSet_constraints_node',
                 'DK.BridgeSets.SubBalancedDeviceSet_constraints', 'DK.BridgeSets.SubBalancedDeviceSet_constraints_node',
                 'DK.BridgeSets.MFDeviceSet_constraints', 'DK.BridgeSets.MFDeviceSet_constraints_ofMF',
                 'DK.BridgeSets.TwoRatioMFDeviceSet_constraints']      # T1s: set-level glue (vk/translate_sets.py, DK/Lemmas/BridgeSets/*.lean)
  bridge = bridge_sets
  theorems = ['DK.C04.sbounds_sat_iff', 'DK.C04.sbounds_eq_of_sat', 'DK.C04.sbounds_kinds', 'DK.C04.label_sat_iff',
              'DK.C04.balance_sat_iff', 'DK.C04.holds_sign', 'DK.C04.labelSum_rows', 'DK.C04.ownCons_sat_iff',
              'DK.C04.ratio_sat_iff', 'DK.C04.ratio_eq', 'DK.C04.mf_cons_sat_iff', 'DK.C04.leaf_cons_sat_iff',
              'DK.C04.tree_feasible_iff', 'DK.C04.block_spec_iff', 'DK.C04.tree_feasible_iff_shipped',
              'DK.C04.codeRows_eq_of_nodup', 'DK.C04.duplicate_id_counterexample']
  rule = ('random trees (depth 1-3, fan-out 1-4, children with different row counts, adaptors with 1-3 conduits over devices with '
          'cumulative bounds / user constraints, two-ratio sets) x horizon n (1..6 quick, ..10 thorough) x aggregate bounds None / '
          'inequality / equality / per-slot mixed x sub-balanced sets with 1-3 labels (incl. overlapping and matching nothing), eq/ineq, '
          'signs 1,-1,2,-1/2, apply_to_remaining x probe matrices: a base matrix built to meet the own limits, single-entry / whole-row '
          'moves of it, an in-box flow, an arbitrary matrix; non-trivial: some set has aggregate bounds, labels or a ratio AND the probes '
          'fall on both sides of the documented limits')
  sizes = {'quick': 220, 'thorough': 2500}
  assumptions = ['labels are matched as plain suffixes of the dot-joined qualified id (labels with . ( ) [ ] + and whole-path labels are generated); '
                 'duplicate qualified ids (5 % of the trees) are an open finding: the model follows the documented semantics, T2 skips the constraint '
                 'values of such trees and the oracle keys the failure label-rows-duplicate-id',
                 'glue variants (oracle): the same matrix as Fortran-ordered / strided / flat / integer-typed array; second read; read -> public setter (child cbounds = 2-tuple | None, set sbounds) -> read, compared with a fresh twin built from the final parameters',
                 'oracle compares membership verdicts (tolerance 1e-9 on exact dyadic inputs), not the shape of the constraint list']

  dup_rate = float(os.environ.get('VERIF_C04_DUP', '0.05'))

  def __init__(self):
    self.hist = {'duplicate_id_trees': 0, 'labels_with_dot': 0, 'labels_with_regex_chars': 0, 'labels_whole_path': 0, 'label_suffix_of_label': 0,
                 'separator_siblings': 0, 'sb_none': 0, 'sb_eq_slots': 0, 'sb_ineq_slots': 0, 'sub': 0, 'sub_ineq': 0, 'rem': 0, 'labels>=2': 0, 'mf': 0, 'ratio': 0,
                 'mf_with_constraints': 0, 'probes_spec_true': 0, 'probes_spec_false': 0, 'n': {}, 'depth': {}}

  # ------------------------------------------------------------ cases
  def cases(self, rng, tier, count):
    out = []
    for _ in range(count):
      dup = rng.random() < self.dup_rate
      t, n = G.gen_set_tree(rng, tier, dup=dup)
      S = G.craft(rng, t, n)
      out.append({'tree': t, 'n': n, 'probes': G.probes(rng, t, n, S, 7 if tier == 'quick' else 8), '_flat': rng.random() < 0.5,
                  'dup': G.has_duplicate_ids(t),
                  'hist': {'block': rng.randrange(64), 'node': rng.randrange(64), 'mode': rng.choice(['tuple', 'tuple', 'none', 'sbounds']), 'pick': rng.randrange(3)}})
    return out

  def _count(self, case):
    t, n = case['tree'], case['n']
    h = self.hist
    h['n'][n] = h['n'].get(n, 0) + 1
    h['duplicate_id_trees'] += bool(case.get('dup'))
    dp = gen.tree_depth(t); h['depth'][dp] = h['depth'].get(dp, 0) + 1
    for _, s in G.sets_of(t):
      if s['k'] == 'mf':
        h['mf'] += 1
        h['ratio'] += 1 if s.get('ratios') else 0
        h['negative_ratio'] = h.get('negative_ratio', 0) + bool(s.get('ratios') and any(Fraction(x) < 0 for x in s['ratios']))
        h['conduits>4'] = h.get('conduits>4', 0) + (len(s['flows']) > 4)
        h['mf_with_constraints'] += 1 if (s['dev'].get('cbs') or s['dev'].get('ucons')) else 0
        continue
      if s.get('sb') is None:
        h['sb_none'] += 1
      else:
        for lo, hi in s['sb']:
          h['sb_eq_slots' if lo == hi else 'sb_ineq_slots'] += 1
      if s.get('sub'):
        h['sub'] += 1
        ls = s.get('labels', []); ids = G.fqids(s)
        h['empty_label_list'] = h.get('empty_label_list', 0) + (not ls)
        h['labels_differing_in_case_only'] = h.get('labels_differing_in_case_only', 0) + any(
          l.lower() != l and any(q.lower().endswith(l.lower()) and not q.endswith(l) for q in ids) for l in ls) + 0
        h['labels_with_dot'] += any('.' in l for l in ls)
        h['labels_with_regex_chars'] += any(re.search(r'[()\[\]+.]', l) for l in ls)
        h['labels_whole_path'] += any(l in ids for l in ls)
        h['label_suffix_of_label'] += any(a != b and b.endswith(a) for a in ls for b in ls)
        h['separator_siblings'] += any(q.replace('_', '.').replace('-', '.') in ids and q not in (q.replace('_', '.').replace('-', '.'),) for q in ids)
        h['sub_ineq'] += 1 if s.get('ctype') == 'ineq' else 0
        h['rem'] += 1 if s.get('rem') else 0
        h['labels>=2'] += 1 if len(s.get('labels', [])) >= 2 else 0

  # ------------------------------------------------------------ T2
  def ops(self, case):
    t, n = case['tree'], case['n']
    self._count(case)
    obj = build_tree_x(t)
    ops = [Op({'op': 'tree.rows', 'tree': t, 'n': n}, lambda: obj.shape[0], TOL, 'rows')]
    if dup_affected(t):
      # known finding (duplicate qualified ids collapse in _labelled_sets): the model follows the documented
      # semantics, so the constraint values are left to the oracle, which keys the failure as the known finding
      return ops
    for P in case['probes']:
      S = mat(P)
      if case.get('_flat'):
        S = S.reshape(-1)
      ops.append(Op({'op': 'sets.cons', 'tree': t, 'n': n, 'S': P}, (lambda S=S: impl_cons(obj, S)), TOL,
                    'constraint list as a multiset of (type, value)'))
    return ops

  # ------------------------------------------------------------ oracle
  def oracle(self, case):
    t, n = case['tree'], case['n']
    fails = []
    # (A) every set standalone, atomic leaves replaced by constraint-free Devices: the whole exported list is then
    #     exactly the own constraints of the sets under it -> verdict must equal the documented limits
    subs = [s for _, s in G.sets_of(t)]
    offs = [o for o, _ in G.sets_of(t)]
    for off, s in zip(offs, subs):
      R = gen.tree_rows(s)
      sk = G.skeleton(s, n)
      try:
        obj = build_tree_x(sk)
        cons = obj.constraints
        ids = [k for k, _ in obj.leaf_devices()]
      except Exception as e:
        fails.append({'key': {'cls': set_class(s), 'kind': 'raised', 'exc': type(e).__name__},
                      'detail': '%s %s (labels %s over rows %s) cannot be built / lists no constraints: %s: %s' % (
                        set_class(s), s['id'], s.get('labels'), G.fqids(sk), type(e).__name__, str(e)[:160])})
        continue
      if ids != G.fqids(sk):
        fails.append({'key': {'cls': set_class(s), 'kind': 'leaf-ids'}, 'detail': 'leaf_devices() ids %s, documented %s' % (ids, G.fqids(sk))})
        continue
      if s['k'] == 'node' and s.get('sub') and hasattr(obj, 'labelled_sets'):
        want_l, want_r = documented_row_sets(sk)
        got_l = [sorted(int(k) for k in x) for x in obj.labelled_sets]
        got_r = sorted(int(k) for k in obj.unlabelled_set)
        if got_l != want_l or (s.get('rem') and got_r != want_r):
          dupes = G.has_duplicate_ids(sk)
          fails.append({'key': {'cls': set_class(s), 'kind': 'label-rows-duplicate-id' if dupes else 'label-rows'},
                        'detail': ('SubBalancedDeviceSet "%s" over rows %s with labels %s: labelled_sets = %s, unlabelled_set = %s; the rows whose '
                                   'qualified id ends with each label are %s, the rest %s%s') % (
                                     s['id'], ids, s.get('labels'), got_l, got_r, want_l, want_r,
                                     ' (two rows share a qualified id: OrderedDict(leaf_devices()) collapses them)' if dupes else '')})
          if not dupes:
            return fails
      if dup_affected(sk):
        continue              # known finding (or a set above it): the verdict comparison would only repeat it
      for P in case['probes']:
        rows = fmat(P)[off:off + R]
        cl = G.clauses(sk, rows, n)
        spec = all(ok for _, ok in cl)
        self.hist['probes_spec_true' if spec else 'probes_spec_false'] += 1
        try:
          got, worst = impl_verdict(cons, mat(P)[off:off + R])
        except Exception as e:
          fails.append({'key': {'cls': set_class(s), 'kind': 'raised', 'exc': type(e).__name__},
                        'detail': '%s %s: evaluating its constraints raised %s: %s' % (set_class(s), s['id'], type(e).__name__, str(e)[:160])})
          break
        if got != spec:
          broken = [nm for nm, ok in cl if not ok][:3]
          fails.append({'key': {'cls': set_class(s), 'kind': 'feasible-set'},
                        'detail': ('%s "%s" (rows %d..%d of the tree, n=%d): flow matrix %s %s the documented limits (%s) but the exported '
                                   'constraints say %s%s; set description %s') % (
                                     set_class(s), s['id'], off, off + R - 1, n, json.dumps(P[off:off + R]), 'meets' if spec else 'violates',
                                     'all hold' if spec else 'violated: ' + '; '.join(broken), 'feasible' if got else 'infeasible',
                                     '' if got else ' (constraint #%d %s value %.6g)' % worst,
                                     json.dumps({k: v for k, v in sk.items() if k not in ('ch', 'dev')}))})
          break
      if fails:
        return fails
    if dup_affected(t):
      return fails
    # (B) the real tree: all constraints hold <=> every atomic leaf's own exported constraints hold on its row
    #     AND every set's documented limits hold (children and sets simultaneously, every depth)
    try:
      obj = build_tree_x(t)
      cons = obj.constraints
      leaves = []
      r = 0
      for b in gen.tree_leaves(t):
        if b['k'] == 'leaf':
          leaves.append((r, build.build_block_device(b['dev'], b['id'])))
        r += gen.tree_rows(b)
    except Exception as e:
      return [{'key': {'cls': 'tree', 'kind': 'raised', 'exc': type(e).__name__}, 'detail': 'building the tree raised %s: %s' % (type(e).__name__, str(e)[:200])}]
    for P in case['probes']:
      A = mat(P)
      spec = all(ok for _, ok in G.clauses(t, fmat(P), n))
      leaf_ok = True
      for r, d in leaves:
        ok, _ = impl_verdict(d.constraints, A[r])
        leaf_ok = leaf_ok and ok
      got, worst = impl_verdict(cons, A)
      if got != (spec and leaf_ok):
        fails.append({'key': {'cls': 'tree', 'kind': 'feasible-set'},
                      'detail': 'whole tree: constraints say %s but leaves %s and set limits %s at %s' % (
                        'feasible' if got else 'infeasible (#%d %s %.6g)' % worst, 'hold' if leaf_ok else 'fail', 'hold' if spec else 'fail', json.dumps(P))})
        break
    if fails:
      return fails
    try:
      fails += self.input_form_checks(case, obj)
      if not fails:
        fails += self.history(case)
    except Exception as e:
      import traceback
      fails.append({'key': {'cls': 'tree', 'kind': 'raised', 'exc': type(e).__name__}, 'detail': 'input-form / history family raised %s: %s | %s' % (
        type(e).__name__, str(e)[:200], traceback.format_exc()[-400:])})
    return fails

  # (C) the same matrix in another array form (order, strides, flat, integer dtype) meets the same limits; inputs are not modified
  def input_form_checks(self, case, obj):
    for P in case['probes'][:2] + case['probes'][-1:]:
      S = mat(P); keep = S.copy()
      base = impl_cons(obj, S)
      for name, X in input_forms(S):
        Xk = X.copy()
        try:
          got = impl_cons(obj, X)
        except Exception as e:
          return [{'key': {'cls': 'tree', 'kind': 'input-form', 'form': name, 'exc': type(e).__name__},
                   'detail': 'constraints raise %s (%s) when the flow matrix %s is passed as a %s' % (type(e).__name__, str(e)[:120], json.dumps(P), name)}]
        self.hist['input_forms'] = self.hist.get('input_forms', 0) + 1
        if not same_cons(got, base):
          j = next((i for i, (x, y) in enumerate(zip(got, base)) if x[0] != y[0] or abs(x[1] - y[1]) > 1e-9*max(1.0, abs(y[1]))), -1)
          return [{'key': {'cls': 'tree', 'kind': 'input-form', 'form': name},
                   'detail': 'constraint values differ when the same flow matrix %s is passed as a %s: %s vs %s (sorted position %d)' % (
                     json.dumps(P), name, got[j] if j >= 0 else len(got), base[j] if j >= 0 else len(base), j)}]
        if not (X == Xk).all() or not (S == keep).all():
          return [{'key': {'cls': 'tree', 'kind': 'mutates-input', 'form': name}, 'detail': 'evaluating the constraints modified the caller\'s flow array (%s) %s' % (name, json.dumps(P))}]
    return []

  # (D) read -> public setter on a child / on a set -> read again: the limits are those of the tree as it is NOW
  #     (compared with a fresh twin built from the final parameters), for every set class above the changed object
  def history(self, case):
    import copy
    t, n = case['tree'], case['n']
    plan = case.get('hist')
    if not plan:
      return []
    t2 = copy.deepcopy(t)
    blocks2 = gen.tree_leaves(t2)
    nodes2 = [s for _, s in G.sets_of(t2) if s['k'] == 'node']
    mode = plan['mode']
    b = blocks2[plan['block'] % len(blocks2)]
    d = b['dev']
    lo, hi = sum((Fraction(v) for v in d['lb']), Fraction(0)), sum((Fraction(v) for v in d['hb']), Fraction(0))
    if mode == 'none' and not (d.get('cbs') and d['cls'] != 'CDevice2'):
      mode = 'tuple'
    if mode == 'tuple' and (hi <= lo or d['cls'] == 'CDevice2'):
      mode = 'sbounds'
    what = None
    if mode == 'tuple':
      w = hi - lo
      cb = [(lo + w*Fraction(3, 8), lo + w*Fraction(5, 8)), (lo + w/2, hi + 1), (lo - 1, lo + w/4)][plan['pick'] % 3]
      d['cbs'] = [[C.fs(cb[0]), C.fs(cb[1]), 0, n]]; d.setdefault('_py', {})['cform'] = '2tuple'
      assign = lambda blocks, nodes: setattr(blocks[plan['block'] % len(blocks)], 'cbounds', (float(cb[0]), float(cb[1])))
      what = '%s "%s".cbounds = (%s, %s)' % (d['cls'], b['id'], cb[0], cb[1])
    elif mode == 'none':
      d['cbs'] = []; d.setdefault('_py', {})['cform'] = None
      assign = lambda blocks, nodes: setattr(blocks[plan['block'] % len(blocks)], 'cbounds', None)
      what = '%s "%s".cbounds = None' % (d['cls'], b['id'])
    else:
      j = plan['node'] % len(nodes2)
      s2 = nodes2[j]
      if s2.get('sb') is None:
        sb = [[C.fs(Fraction(-2) + i), C.fs(Fraction(2) + i)] if (i + plan['pick']) % 3 else [C.fs(Fraction(i)), C.fs(Fraction(i))] for i in range(n)]
      else:
        sb = [[C.fs(Fraction(a) + Fraction(1, 4)), C.fs(Fraction(b_) + Fraction(1, 4) + (i + plan['pick']) % 2)] for i, (a, b_) in enumerate(s2['sb'])]
      s2['sb'] = sb
      arr = np().array([[C.pf(a), C.pf(b_)] for a, b_ in sb])
      def assign(blocks, nodes, j=j, arr=arr):
        # nodes are recorded post-order, as G.sets_of lists them
        nodes[j][1].sbounds = arr
      what = '%s "%s".sbounds = %s' % (set_class(s2), s2['id'], sb)
    blocks, nodes = [], []
    obj = build_handles(t, blocks, nodes)
    R = gen.tree_rows(t)
    # probes: the case's, plus the changed block's rows moved to its low / middle / high totals
    mats = [mat(P) for P in case['probes'][:4]]
    off = 0
    for k_, bb in enumerate(gen.tree_leaves(t)):
      if k_ == plan['block'] % len(blocks2):
        break
      off += gen.tree_rows(bb)
    kb = gen.tree_rows(b)
    for f in (Fraction(0), Fraction(1, 2), Fraction(1)):
      M = mats[0].copy()
      x = [float(Fraction(a) + (Fraction(h_) - Fraction(a))*f)/kb for a, h_ in zip(d['lb'], d['hb'])]
      for r in range(kb):
        M[off + r] = x
      mats.append(M)
    first = [impl_cons(obj, S) for S in mats]
    again = [impl_cons(obj, S) for S in mats]
    if not all(same_cons(a, b_) for a, b_ in zip(first, again)):
      return [{'key': {'cls': 'tree', 'kind': 'second-read'}, 'detail': 'reading .constraints twice gives different values on the same flow matrix (tree root, n=%d)' % n}]
    try:
      assign(blocks, nodes)
    except Exception:
      return []                # the setter refuses the value: nothing to re-read
    self.hist['histories'] = self.hist.get('histories', 0) + 1
    self.hist.setdefault('history_modes', {}); self.hist['history_modes'][mode] = self.hist['history_modes'].get(mode, 0) + 1
    after = [impl_cons(obj, S) for S in mats]
    twin = build_tree_x(t2)
    want = [impl_cons(twin, S) for S in mats]
    for S, a, w_ in zip(mats, after, want):
      if not same_cons(a, w_):
        ok_a = all((abs(v) <= 1e-9) if ty else (v >= -1e-9) for ty, v in a); ok_w = all((abs(v) <= 1e-9) if ty else (v >= -1e-9) for ty, v in w_)
        above = [set_class(s) for _, s in G.sets_of(t)]
        return [{'key': {'cls': 'tree', 'kind': 'reread-after-setter', 'mode': mode},
                 'detail': ('read root.constraints, then %s, then read root.constraints again: the values at the flow matrix %s differ from those of a fresh tree built with '
                            'the final parameters (%d vs %d constraints; the re-read says %s, the fresh twin says %s); set classes in the tree: %s') % (
                              what, S.tolist(), len(a), len(w_), 'feasible' if ok_a else 'infeasible', 'feasible' if ok_w else 'infeasible', sorted(set(above)))}]
    return []

  def nontrivial(self, case):
    t, n = case['tree'], case['n']
    has = any((s['k'] == 'mf' and s.get('ratios')) or (s['k'] == 'node' and (s.get('sb') is not None or s.get('sub'))) for _, s in G.sets_of(t))
    if not has:
      return False
    sk = G.skeleton(t, n)
    vs = set(all(ok for _, ok in G.clauses(sk, fmat(P), n)) for P in case['probes'])
    return len(vs) == 2

  def extra_evidence(self):
    return {'input_distribution': self.hist,
            'outside_model': 'duplicate qualified ids (OrderedDict collapse in _labelled_sets): open finding, oracle only'}


PROP = C04()
