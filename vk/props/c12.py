"""C12 — devices are stateless: reads and solves never change behaviour or caller data.

T2: the same history is run on the real objects and on the Lean heap model (`hist.run`); both sides
emit the same integer encoding of the observation tokens (which closure each constraint entry holds,
which cached polynomial / matrix objects an evaluation used, table sizes / allocations, content
versions of every caller cell, and "no other library-level or per-device mutable state changed") after
every operation.
Oracle (the property itself, never consults the model): after every operation of the history the
behavioural fingerprint of the used objects is compared with the fingerprint of a twin constructed
from the same description before the history started, the operation's own result is compared with
the result of the same call on its own fresh twin (computed before the history starts, default-option
calls first, so that leaks through library-level state cannot contaminate the reference), and every
array / list / dict the caller
passed in (constructor arguments and call arguments) is compared with a deep copy taken beforehand.
"""
import os, sys, json, copy, math
# the matrices here are tiny (<= 60 variables): BLAS worker threads only spin.  numpy is first imported lazily (common.repo()),
# i.e. after this module, so the setting takes effect; it is a no-op if numpy is already loaded.
for _v in ('OMP_NUM_THREADS', 'OPENBLAS_NUM_THREADS', 'MKL_NUM_THREADS'):
  os.environ.setdefault(_v, '1')
from .. import common as C, gen, build
from .. import gen_history as H
from .. import scipy_guard as SG
from ..check import Prop, Op


def np():
  import numpy
  return numpy


def utils():
  C.repo()
  import logging
  logging.getLogger('device_kit').setLevel(logging.CRITICAL)      # solve.step logs whole OptimizeResults at WARNING
  return sys.modules['device_kit.utils']


# ---------------------------------------------------------------- executing a history on the real objects
def pristine_sust(s, l):
  n_ = np()
  i = n_.arange(l).reshape(l, 1); j = n_.arange(l).reshape(1, l)
  if s == 1:
    return n_.tril(n_.ones((l, l)))
  return n_.tril(float(s)**n_.maximum(0, i - j).astype(float))


def deriv_coeffs(c, order):
  c = [float(x) for x in c]
  m = len(c)
  for _ in range(order):
    k = len(c)
    c = [c[j]*(k - 1 - j) for j in range(k - 1)] or [0.0]
  return [0.0]*(m - len(c)) + c


def poly_status(P, attr, order):
  n_ = np()
  q = getattr(P, attr, None)
  if q is None:
    return 0
  try:
    if type(q) is not type(P):
      return 9
    want = n_.array([deriv_coeffs(c, order) for c in P.coeffs])
    if n_.array(q.coeffs).shape != want.shape or not n_.allclose(q.coeffs, want, rtol=1e-12, atol=0):
      return 9
    if hasattr(P, 'offsets') and not n_.array_equal(q.offsets, P.offsets):
      return 9
    return order
  except Exception:
    return 9


def tok(fn, reg):
  """closure token of a constraint entry (mirror of Driver/History.lean `encE`)."""
  if fn is None:
    return [0]
  if id(fn) in reg:
    return list(reg[id(fn)])
  code = getattr(fn, '__code__', None)
  if code is None:
    return [98]
  stem = os.path.splitext(os.path.basename(code.co_filename))[0]
  dflt = fn.__defaults__ or ()
  inner = [x for x in dflt if callable(x)]
  if stem == 'mfdeviceset' and inner:
    return [13] + tok(inner[0], reg)
  if stem == 'adevice' and inner:           # fix 0f214fb: the getter's reshaping wrapper around the user's closure
    return [15] + tok(inner[0], reg)
  if stem == 'deviceset' and inner:
    i = dflt[0]
    return [14, int(i[0]), int(i[1])] + tok(inner[0], reg)
  return [12, H.TAGS.get(stem, 99)]


def tok_dict(c, reg):
  return [-70, 1 if c.get('type') == 'eq' else 0] + tok(c.get('fun'), reg) + tok(c.get('jac'), reg)


def is_fn_object(x):
  return hasattr(x, 'deriv') and hasattr(x, 'hess') and not hasattr(x, 'to_dict') and hasattr(x, '__dict__')


def reachable_fns(obj):
  """the preference-function objects reachable from a device (`f`, `_cost_fn`, and through their fields / lists)."""
  seen, out, todo = set(), [], []
  for k in ('_f', '_cost_fn'):
    v = vars(obj).get(k, getattr(type(obj), k, None))
    if v is not None:
      todo.append(v)
  while todo:
    x = todo.pop()
    if id(x) in seen:
      continue
    seen.add(id(x))
    if is_fn_object(x):
      out.append(x)
      for v in fields_of(x).values():
        todo += list(v) if isinstance(v, (list, tuple)) else [v]
  return out


MODELLED_FIELDS = ('_deriv', '_hess')      # the Poly2D / Poly2DOffset caches are cells of the model


def fields_of(x):
  C.repo()
  from device_kit import functions as Fm
  drop = MODELLED_FIELDS if isinstance(x, (Fm.Poly2D, Fm.Poly2DOffset)) else ()
  return {k: v for k, v in vars(x).items() if k not in drop}


def inst_snapshot(obj):
  """the instance fields of a device object (own __dict__; an adaptor's __getattr__ delegation is not followed) and of
  every function object reachable from it."""
  return [(x, {k: H.snap(v) for k, v in fields_of(x).items()}) for x in [obj] + reachable_fns(obj)]


def inst_changed(obj, snp):
  now = [obj] + reachable_fns(obj)
  if len(now) != len(snp) or any(a is not b[0] for a, b in zip(now, snp)):
    return True
  for x, old in snp:
    cur = fields_of(x)
    if list(cur.keys()) != list(old.keys()) or any(not H.same(cur[k], old[k]) for k in old):
      return True
  return False


class Exec:
  """builds the world of a case and executes its operations; keeps handles on all caller data.
  Operations are indexed history-first: 0..H-1 the history, H.. the `early` operations (executed on a device right
  after it has been constructed, before its parents exist)."""

  def __init__(self, case, clear=True, only=None, early=True):
    """`only=k`: a twin that will execute operation k alone (only its call arguments are created, in fresh arrays);
    `early=False`: the early operations are not executed (twins)."""
    U = utils()
    if clear:
      U.sustainment_matrix.cache_clear(); U.power_matrix.cache_clear()
    self.case = case
    self.n = case['n']
    self.only = only
    self.ops = list(case['ops']) + list(case.get('early', []))
    self.nhist = len(case['ops'])
    self.miss_base = 0
    self.skipped = 0
    self.g0 = None
    self.inst0 = {}
    self.args = [None]*len(self.ops)
    self.early_results = {}
    self._early_cells = {}
    self._probes = {}
    self.last_cons = []
    self._do_early = early and only is None and bool(case.get('early'))
    self.walk = None
    self.walk = H.Walk(case['tree'], case['n'], True, self._built)
    self.world = self.walk.world(case['ncaller'])
    self.live = self.walk.live
    self.cells = self.walk.cells
    for k in range(self.nhist):
      if only is None or only == k:
        self.args[k] = self.make_args(k, self.cells)
    for k in range(self.nhist, len(self.ops)):
      if k in self._early_cells:
        self.cells += self._early_cells[k]
      elif only is None or only == k:
        self.args[k] = self.make_args(k, self.cells)
    assert only is not None or len(self.cells) == case['ncaller'], 'cells %d != %d' % (len(self.cells), case['ncaller'])

  def _built(self, walk, hid):
    """construction hook: device `hid` exists now, its parents do not."""
    self.live = walk.live
    self.walk = walk
    obj = walk.live.get(hid)
    if obj is not None and self.only is None:
      self.inst0[hid] = (obj, inst_snapshot(obj))
    if not self._do_early:
      return
    for k in range(self.nhist, len(self.ops)):
      if self.ops[k]['t'] == hid:
        cells = []
        self.args[k] = self.make_args(k, cells)
        self._early_cells[k] = cells
        res = self.run_op(k)
        self.early_results[k] = res if res[0] != 'ok' else ('ok', canon(res[1]))
        self.scribble(k, res)

  # -- caller-owned call arguments (created up front: the caller owns them for the whole history)
  def arr(self, S, rows, shape, as_float=False):
    a = build.arr(S)
    if as_float:
      a = a.astype(float)
    return a.reshape(rows*self.n) if shape == 'flat' else a.reshape(rows, self.n)

  def make_args(self, k, cells):
    op = self.ops[k]
    o = op['o']
    cls = type(self.live[op['t']]).__name__ if 't' in op else ''
    def reg(name, obj):
      cells.append([name, obj, H.snap(obj), cls]); return obj
    def flow(name='s'):
      shape = H.buf_shape(op) if o != 'step' else 'mat'
      if 'buf' in op and self.only is None:
        root = op['buf']
        return self.args[root][H.S_POS[self.ops[root]['o']]]      # the very same ndarray; written in place before the call
      return reg(name, self.arr(op['s'], op['rows'], shape, bool(op.get('isbuf') or 'buf' in op)))
    opts = lambda: reg('solver_options', None if op.get('opts') is None else dict(op['opts']))
    if o in ('cost', 'deriv'):
      return [flow(), reg('p', build.price(op['p']))]
    if o in ('hess', 'project', 'map'):
      return [flow()]
    if o in ('callFun', 'callJac'):
      return [flow('x')]
    if o == 'solve':
      return [reg('p', build.price(op['p'])), reg('s0', self.arr(op['s0'], op['rows'], 'mat') if op['s0'] is not None else None), opts()]
    if o == 'step':
      return [reg('p', build.price(op['p'])), flow(), opts()]
    if o == 'uproject':
      return [reg('point', self.arr(op['s'], op['rows'], 'flat')), reg('x0', build.arr(op['x0'])), opts()]
    return []

  def run_op(self, k):
    """execute operation k; returns ('ok', result) / ('exc', type name) / ('skip', None)."""
    dk = C.repo(); U = utils()
    op = self.ops[k]; a = self.args[k]; o = op['o']
    try:
      if o == 'cacheClear':
        self.miss_base += U.sustainment_matrix.cache_info().misses + U.power_matrix.cache_info().misses
        U.sustainment_matrix.cache_clear(); U.power_matrix.cache_clear()
        return ('ok', None)
      d = self.live[op['t']]
      if 'buf' in op and self.only is None:
        # the caller overwrites its own buffer with the new flow, in place, and hands the same ndarray over again
        pos = H.S_POS[o]
        np().copyto(a[pos], self.arr(op['s'], op['rows'], H.buf_shape(op) if o != 'step' else 'mat'))
        self.cells[op['a'][pos]][2] = H.snap(a[pos])
      if o in ('solve', 'step', 'uproject') and not SG.safe_to_solve(d):
        self.skipped += 1
        return ('skip', None)           # SciPy's SLSQP may abort the interpreter on this family (vk/scipy_guard.py)
      if o == 'cost': return ('ok', d.cost(a[0], a[1]))
      if o == 'deriv': return ('ok', d.deriv(a[0], a[1]))
      if o == 'hess': return ('ok', d.hess(a[0]))
      if o == 'bounds': return ('ok', [d.bounds, d.lbounds, d.hbounds])
      if o == 'readConstraints':
        self.last_cons = d.constraints
        return ('ok', self.last_cons)
      if o == 'callFun':
        self.last_cons = cs = d.constraints
        return ('ok', cs[op['i']]['fun'](a[0]))
      if o == 'callJac':
        self.last_cons = cs = d.constraints
        c = cs[op['i']]
        return ('ok', c['jac'](a[0]) if 'jac' in c else None)
      if o == 'project': return ('ok', d.project(a[0]))
      if o == 'map': return ('ok', list(d.map(a[0])))
      if o == 'toDict': return ('ok', d.to_dict())
      if o == 'leafDevices':
        ld = d.leaf_devices()
        return ('ok', [ld, d.get(ld[-1][0].split('.')[-1]), d.find('.*')])
      if o == 'solve':
        kw = {}
        if a[2] is not None:
          kw['solver_options'] = a[2]
        if op.get('prox'):
          kw['prox'] = pf_(op['prox'])
        if op.get('cb'):
          kw['cb'] = lambda dev, x: None
        x, res = dk.solve(d, a[0], a[1], **kw)
        return ('ok', [x, None if res is None else int(res.status)])
      if o == 'step':
        st = pf_(op['stepsize'])
        x, res = dk.step(d, a[0], a[1], st) if a[2] is None else dk.step(d, a[0], a[1], st, solver_options=a[2])
        return ('ok', [x, int(res.status)])
      if o == 'uproject':
        x, res = (dk.project(a[0], a[1], d.bounds, d.constraints) if a[2] is None else
                  dk.project(a[0], a[1], d.bounds, d.constraints, solver_options=a[2]))
        return ('ok', [x, int(res.status)])
      raise AssertionError('unknown op ' + o)
    except AssertionError:
      raise
    except Exception as e:
      return ('exc', type(e).__name__)

  def scribble(self, k, res):
    """the caller does what it likes with what it was handed back: overwrites returned arrays, reorders / shortens
    returned lists, edits returned dicts.  Only objects the API creates for the caller are touched (not the dicts of
    the caller's own constraint list, not `Device.bounds`, which is documented internal state, not `map`'s row views
    of the caller's own flow array)."""
    op = self.ops[k]
    if not op.get('mut') or res[0] != 'ok' or res[1] is None:
      return
    n_ = np(); o = op['o']; r = res[1]
    def over(x):
      if isinstance(x, n_.ndarray) and x.flags.writeable and x.dtype.kind in 'fiu':
        x[...] = 7
    def shuffle(l):
      if isinstance(l, list):
        l.reverse()
        if len(l) > 1:
          l.pop()
    if o in ('deriv', 'hess', 'project', 'callJac'):
      over(r)
    elif o in ('solve', 'step', 'uproject'):
      over(r[0])
    elif o == 'bounds':
      over(r[1]); over(r[2])
    elif o in ('readConstraints', 'map'):
      shuffle(r)
    elif o == 'leafDevices':
      shuffle(r[0]); shuffle(r[2])
    elif o == 'toDict' and isinstance(r, dict):
      r['__scribbled__'] = True
      for key in list(r.keys())[:1]:
        del r[key]

  # -- observation tokens (non-perturbing: attributes and cache_info only)
  def enc_state(self):
    U = utils()
    out = [-2]
    for c in self.walk.udict_objs:
      out += tok(c.get('fun'), self.walk.reg) + tok(c.get('jac'), self.walk.reg)
    out += [-20] + [poly_status(P, '_deriv', 1) for P in self.walk.polys]
    out += [-21] + [poly_status(P, '_hess', 2) for P in self.walk.polys]
    si, pi = U.sustainment_matrix.cache_info(), U.power_matrix.cache_info()
    out += [-22, si.currsize, pi.currsize, self.miss_base + si.misses + pi.misses, -23]
    out += self.cell_versions(range(len(self.cells)))
    # state the model does not have: library-level mutable globals, instance fields of the device objects
    g = 0 if (self.g0 is None or differ(global_state(), self.g0) is None) else 1
    i = 1 if any(inst_changed(obj, snp) for obj, snp in self.inst0.values()) else 0
    out += [-24, g, i]
    return out

  def cell_versions(self, ids):
    """content version of caller cells as the model counts them: a user constraint *list* is its sequence of dict
    objects (the dicts' contents are the separate `dicts` cells); everything else is compared deeply."""
    out = []
    for i in ids:
      obj, snp = self.cells[i][1], self.cells[i][2]
      held = self.walk.ulists.get(id(obj))
      if held is not None:
        out.append(0 if (len(obj) == len(held) and all(a is b for a, b in zip(obj, held))) else 1)
      else:
        out.append(0 if H.same(obj, snp) else 1)
    return out

  def mat_tokens(self, dev):
    U = utils(); n_ = np()
    cap, seen = [], []
    for lf in H.w_leaves(dev):
      if lf['mat'] is None:
        continue
      obj = self.live[lf['id']]
      sstr = [m[2] for m in self.walk.mats if m[0] == lf['id']][0]
      s = C.pf(sstr); l = lf['mat'][1]
      want = pristine_sust(s, l)
      held = getattr(obj, '_sustainment_matrix', None)
      if held is None:
        held = obj.sustainment_matrix
      cap.append(1 if (held.shape == want.shape and n_.allclose(held, want, rtol=1e-12, atol=0)) else 9)
      got = U.sustainment_matrix(s, l)      # a hit: the evaluation just looked this key up
      seen.append(1 if (got.shape == want.shape and n_.allclose(got, want, rtol=1e-12, atol=0)) else 9)
    return cap + seen

  def enc_out(self, k, res):
    op = self.ops[k]; o = op['o']
    if o == 'cacheClear':
      return [-1, 1, -3, -4, -5, -6, -7, -8, 0]
    dev = H.w_find(self.world['root'], op['t'])
    live = self.live[op['t']]
    reg = self.walk.reg
    found, polys, mats, refs, args, cons, clo = 1, [], [], [], self.cell_versions(op['a']), [], [0]
    evaluates = o in ('cost', 'deriv', 'hess', 'step') or (o == 'solve' and not H.w_fixed(dev))
    if evaluates:
      ps = [p for lf in H.w_leaves(dev) for p in lf['polys']]
      if o == 'hess':
        polys = [poly_status(self.walk.polys[p], '_hess', 2) for p in ps]
      elif o != 'cost':
        polys = [poly_status(self.walk.polys[p], '_deriv', 1) for p in ps]
      mats = self.mat_tokens(dev)
      refs = self.cell_versions(H.w_refs(dev))
      if o in ('solve', 'step'):
        for c in live.constraints:
          cons += tok_dict(c, reg)
    elif o in ('solve', 'uproject'):       # the all-fixed shortcut of solve / utils.project: bounds and constraints only
      for c in live.constraints:
        cons += tok_dict(c, reg)
    elif o == 'readConstraints':
      for c in self.last_cons:
        cons += tok_dict(c, reg)
    elif o in ('callFun', 'callJac'):
      cs = self.last_cons          # the list the call itself read (no second read)
      if op['i'] < len(cs):
        clo = tok(cs[op['i']].get('fun' if o == 'callFun' else 'jac'), reg)
      else:
        found = 0
    elif o == 'toDict':
      refs = self.cell_versions(H.w_refs(dev))
      for lf in H.w_leaves(dev):
        for u in lf['ucons']:
          cons += tok_dict(self.walk.udict_objs[u], reg)
    elif o in ('bounds', 'leafDevices'):
      args = []
    return [-1, found, -3] + polys + [-4] + mats + [-5] + refs + [-6] + args + [-7] + cons + [-8] + clo

  def stream(self):
    """token stream of the history.  Stops before the first evaluation that raises inside the library (a partial
    evaluation — only part of the leaves ran — is not compared); operations the SciPy guard refuses are left out
    (`self.kept` = indices of the operations compared)."""
    self.g0 = global_state()
    out = self.enc_state()
    self.kept = []
    self.truncated = False
    for k in range(self.nhist):
      res = self.run_op(k)
      if res[0] == 'skip':
        continue
      if res[0] == 'exc' and res[1] != 'OptimizationException' and self.ops[k]['o'] in ('cost', 'deriv', 'hess', 'solve', 'step'):
        self.truncated = True
        break
      out += self.enc_out(k, res) + self.enc_state()
      self.scribble(k, res)
      self.kept.append(k)
    return out

  def model_line(self):
    ops = []
    for k in self.kept:
      op = self.ops[k]
      m = {'o': op['o']}
      for key in ('t', 'i', 'a'):
        if key in op:
          m[key] = op[key]
      ops.append(m)
    return {'op': 'hist.run', 'world': self.world, 'ops': ops, 'pre': False}


def pf_(s):
  return C.pf(s)


# ---------------------------------------------------------------- the oracle: fresh-twin fingerprints
def canon(x, depth=0):
  """canonical, comparable form of a result / to_dict (arrays -> lists, devices -> their dict, closures -> a mark)."""
  n_ = np()
  if depth > 12:
    return '...'
  if x is None or isinstance(x, (bool, str)):
    return x
  if isinstance(x, (int, float, n_.integer, n_.floating)):
    return float(x)
  if isinstance(x, n_.ndarray):
    return ['nd', list(x.shape)] + [canon(v, depth + 1) for v in x.reshape(-1).tolist()]
  if hasattr(x, 'to_dict') and hasattr(x, 'cost'):
    return {'__cls__': type(x).__name__, 'dict': canon(x.to_dict(), depth + 1)}
  if isinstance(x, dict):
    return {str(k): canon(v, depth + 1) for k, v in sorted(x.items(), key=lambda kv: str(kv[0]))}
  if isinstance(x, (list, tuple)):
    return [canon(v, depth + 1) for v in x]
  if hasattr(x, 'deriv') and hasattr(x, 'hess'):      # a preference function object: public attributes only
    return {'__fn__': type(x).__name__, 'attrs': {k: canon(v, depth + 1) for k, v in sorted(vars(x).items()) if not k.startswith('_')}}
  if isinstance(x, n_.poly1d):
    return ['poly1d'] + [float(v) for v in x.coeffs]
  if callable(x):
    return '<callable>'
  return str(type(x).__name__)


def differ(a, b, tol=1e-9, path=''):
  """None when equal (floats to tol, nan == nan), else the path of the first difference."""
  if isinstance(a, float) and isinstance(b, float):
    if a == b or (a != a and b != b):
      return None
    if math.isfinite(a) and math.isfinite(b) and abs(a - b) <= tol*max(1.0, abs(a), abs(b)):
      return None
    return '%s: %r != %r' % (path, a, b)
  if type(a) is not type(b):
    return '%s: %s != %s' % (path, type(a).__name__, type(b).__name__)
  if isinstance(a, dict):
    if list(a.keys()) != list(b.keys()):
      return '%s: keys %s != %s' % (path, list(a.keys())[:6], list(b.keys())[:6])
    for k in a:
      d = differ(a[k], b[k], tol, path + '.' + k)
      if d:
        return d
    return None
  if isinstance(a, list):
    if len(a) != len(b):
      return '%s: length %d != %d' % (path, len(a), len(b))
    for i, (x, y) in enumerate(zip(a, b)):
      d = differ(x, y, tol, '%s[%d]' % (path, i))
      if d:
        return d
    return None
  return None if a == b else '%s: %r != %r' % (path, a, b)


def guarded(thunk):
  try:
    return canon(thunk())
  except Exception as e:
    return 'EXC:' + type(e).__name__


def probes(walk, hid, n):
  """two fixed in-bounds probe flows and prices of device `hid` (from the description only)."""
  import random
  rng = random.Random(1000 + hid)
  rows, lb, hb = H.target_box(walk, hid, n)
  out = []
  for mode in ('interior', 'mixed'):
    flat = gen.gen_flow(rng, lb, hb, mode)
    S = np().array([float(x) for x in flat]).reshape(rows, n)
    P = np().array([[float(C.dy(rng, -2, 2, 2)) for _ in range(n)] for _ in range(rows)])
    out.append((S, P))
  return out


def fingerprint(ex, hids):
  """behaviour of the devices `hids` of a built world: cost / deriv at probes, bounds, every constraint's type,
  value and Jacobian at probes, to_dict."""
  fp = {}
  for hid in hids:
    d = ex.live[hid]
    if hid not in ex._probes:
      ex._probes[hid] = probes(ex.walk, hid, ex.n)
    pr = ex._probes[hid]
    e = {}
    numeric_hess = any(lf['mat'] is not None for lf in H.w_leaves(H.w_find(ex.world['root'], hid)))
    def take(thunk):
      """the answer (flattened), after which the caller overwrites the array it was handed."""
      try:
        r = thunk()
        c = canon(np().array(r, dtype=float).reshape(-1))
        if isinstance(r, np().ndarray) and r.flags.writeable:
          r[...] = 7
        return c
      except Exception as e_:
        return 'EXC:' + type(e_).__name__
    for j, (S, P) in enumerate(pr):
      e['cost%d' % j] = guarded(lambda: d.cost(S.copy(), P.copy()))
      e['deriv%d' % j] = take(lambda: d.deriv(S.copy(), P.copy()))
      if not numeric_hess:           # storage / thermal Hessians are numdifftools runs: only compared op by op
        e['hess%d' % j] = take(lambda: d.hess(S.copy()))
    e['bounds'] = guarded(lambda: [d.bounds, d.lbounds, d.hbounds])
    try:
      cs = d.constraints
      e['ncons'] = float(len(cs))
      for k, c in enumerate(cs):
        e['c%d.type' % k] = c.get('type')
        e['c%d.keys' % k] = sorted(c.keys())
        for j, (S, P) in enumerate(pr):
          e['c%d.fun%d' % (k, j)] = guarded(lambda: float(c['fun'](S.reshape(-1).copy())))
          if 'jac' in c:
            e['c%d.jac%d' % (k, j)] = guarded(lambda: np().array(c['jac'](S.reshape(-1).copy()), dtype=float).reshape(-1))
    except Exception as ex_:
      e['constraints'] = 'EXC:' + type(ex_).__name__
    e['to_dict'] = guarded(lambda: d)
    fp[str(hid)] = e
  return fp


def watch_ids(world, walk=None):
  """the root, every adaptor, every wrapped / atomic ADevice, every storage / thermal leaf."""
  ids = [world['root']['id']]
  def go(dev):
    if dev['k'] == 'leaf':
      if dev['ucons'] or dev['mat'] is not None or dev['polys'] or (walk is not None and walk.desc[dev['id']][1]['cls'] == 'ADevice'):
        ids.append(dev['id'])
    elif dev['k'] == 'mf':
      ids.append(dev['id']); go(dev['w'])
    else:
      for c in dev['ch']:
        go(c)
  go(world['root'])
  return sorted(set(ids))


def global_state():
  """every library-level mutable container: module globals, mutable default arguments of module functions and
  methods, class-level mutable attributes — of every loaded device_kit module (the lru tables are modelled separately)."""
  C.repo()
  n_ = np()
  import types
  MUT = (dict, list, set, n_.ndarray)
  out = {}
  def defaults(name, fn):
    fn = getattr(fn, '__func__', fn)
    fn = getattr(fn, 'fget', fn) if isinstance(fn, property) else fn
    d = getattr(fn, '__defaults__', None) or ()
    kd = getattr(fn, '__kwdefaults__', None) or {}
    vals = [v for v in list(d) + list(kd.values()) if isinstance(v, MUT)]
    if vals:
      out[name + '()'] = canon(vals)
  for mname, mod in sorted(sys.modules.items()):
    if not (mname == 'device_kit' or mname.startswith('device_kit.')) or mod is None:
      continue
    for k, v in sorted(vars(mod).items()):
      if k.startswith('__'):
        continue
      if isinstance(v, MUT):
        out[mname + '.' + k] = canon(v)
      elif isinstance(v, types.FunctionType) and v.__module__ == mname:
        defaults(mname + '.' + k, v)
      elif isinstance(v, type) and v.__module__ == mname:
        for ck, cv in sorted(vars(v).items()):
          if ck.startswith('__') and ck != '__init__':
            continue
          if isinstance(cv, MUT):
            out['%s.%s.%s' % (mname, k, ck)] = canon(cv)
          elif isinstance(cv, (types.FunctionType, staticmethod, classmethod, property)):
            defaults('%s.%s.%s' % (mname, k, ck), cv)
  return out


BAD_BOUNDS = [
  # (n, bounds factory): forms around D13/D29 — the non-copying path of validate_bounds
  (3, lambda: [0, 1, 2]), (3, lambda: [0.0, 1.0, 2.0]), (3, lambda: [[0, 1, 2]]), (3, lambda: [0, 1]), (3, lambda: [[0, 0, 0], 1]),
  (3, lambda: [0, [1, 1, 1]]), (2, lambda: [0, 1]), (2, lambda: [[0, 1], [0, 1]]), (1, lambda: [0, 1]), (1, lambda: [[0, 1]]),
  (3, lambda: [[0, 1], [0, 1], [0, 1]]), (4, lambda: [0, 1, 2]), (3, lambda: [2, 1]), (3, lambda: [0, 1, None]), (3, lambda: [1]),
  (3, lambda: [np().array([0., 0, 0]), 2]), (3, lambda: [0, np().array([1., 1, 1])]), (3, lambda: [[1., 2, 3]]),
]


def ctor_probe():
  """constructors / setters-at-construction must not write into the caller's lists, whether or not they accept them."""
  dk = C.repo()
  out = []
  for n, mk in BAD_BOUNDS:
    for cls, extra in (('Device', {}), ('IDevice2', {}), ('DeviceSet', None)):
      b = mk(); s = H.snap(b)
      try:
        if cls == 'DeviceSet':
          dk.DeviceSet('x', [dk.Device('d', n, (0, 1))], b)
        else:
          getattr(dk, cls)('d', n, b, **extra)
        verdict = 'accepted'
      except Exception as e:
        verdict = type(e).__name__
      if not H.same(b, s):
        out.append({'key': {'kind': 'caller-data-mutated', 'op': 'construct', 'cls': cls},
                    'detail': '%s(n=%d, bounds=%r) (%s) left the caller\'s list as %r' % (cls, n, s, verdict, b)})
  for mk in (lambda: [1, 3], lambda: [[1, 3, 0, 3]], lambda: [[1, 3, 0, 2], [0, 2, 2, 3]]):
    cb = mk(); s = H.snap(cb)
    try:
      dk.Device('d', 3, (0, 2), cb)
    except Exception:
      pass
    if not H.same(cb, s):
      out.append({'key': {'kind': 'caller-data-mutated', 'op': 'construct', 'cls': 'Device'}, 'detail': 'cbounds %r became %r' % (s, cb)})
  return out


# ---- projection regions (device_kit.projection): used by Device.project; `List` / `Intersection` are public helpers
def gen_region(rng, n, depth=0):
  k = rng.choice(['cube', 'cube', 'half', 'slice'] + (['inter'] if depth == 0 else []))
  L = lambda v: [C.fs(x) for x in v]
  if k == 'cube':
    lb, hb = gen.gen_bounds(rng, n)
    return {'k': 'cube', 'lb': L(lb), 'hb': L(hb), 'lst': rng.random() < 0.5}
  normal = [C.dy(rng, -2, 2) for _ in range(n)]
  if all(x == 0 for x in normal):
    normal[0] = C.F(1)
  if k == 'half':
    return {'k': 'half', 'normal': L(normal), 'offset': C.fs(C.dy(rng, -3, 3)), 'sign': rng.choice([1, -1])}
  if k == 'slice':
    lo = C.dy(rng, -3, 2)
    return {'k': 'slice', 'normal': L(normal), 'low': C.fs(lo), 'high': C.fs(lo + C.dy(rng, 0, 3))}
  return {'k': 'inter', 'a': gen_region(rng, n, 1), 'b': gen_region(rng, n, 1)}


def gen_region_case(rng, tier):
  n = rng.choice([1, 2, 3, 4])
  if rng.random() < 0.5:
    r = rng.choice([1, 2, 3])
    axis = rng.choice([0, 1])
    R = {'k': 'list', 'axis': axis, 'regions': [gen_region(rng, n, 1) for _ in range(r)]}
    shape = [r, n] if axis == 0 else [n, r]
  else:
    R = gen_region(rng, n)
    shape = [n]
  ops = []
  for _ in range(rng.randint(2, 8 if tier == 'quick' else 30)):
    size = shape[0]*(shape[1] if len(shape) > 1 else 1)
    ops.append({'o': rng.choice(['project', 'project', 'is_in']), 'pt': [C.fs(C.dy(rng, -5, 5)) for _ in range(size)], 'aslist': rng.random() < 0.3})
  return {'kind': 'regions', 'region': R, 'shape': shape, 'ops': ops}


def build_region(R, cells):
  C.repo()
  from device_kit import projection as P
  n_ = np()
  def reg(name, obj):
    cells.append([name, obj, H.snap(obj)]); return obj
  k = R['k']
  if k == 'cube':
    lb = [C.pf(x) for x in R['lb']]; hb = [C.pf(x) for x in R['hb']]
    b = reg('cube bounds', [[a, c] for a, c in zip(lb, hb)] if R.get('lst') else n_.stack((n_.array(lb), n_.array(hb)), axis=1))
    return P.HyperCube(b)
  if k == 'half':
    return P.HalfSpace(reg('normal', [C.pf(x) for x in R['normal']]), C.pf(R['offset']), R['sign'])
  if k == 'slice':
    return P.Slice(reg('normal', n_.array([C.pf(x) for x in R['normal']])), C.pf(R['low']), C.pf(R['high']))
  if k == 'inter':
    return P.Intersection(build_region(R['a'], cells), build_region(R['b'], cells))
  return P.List(reg('regions', [build_region(x, cells) for x in R['regions']]), R['axis'])


def run_region_oracle(case):
  n_ = np()
  fails = []
  cells = []
  used = build_region(case['region'], cells)
  cls = type(used).__name__
  shape = tuple(case['shape'])
  hist = []
  for op in case['ops']:
    hist.append(op['o'])
    mk = lambda: (n_.array([C.pf(x) for x in op['pt']]).reshape(shape).tolist() if op['aslist'] else n_.array([C.pf(x) for x in op['pt']]).reshape(shape))
    pt = mk(); cells.append(['point', pt, H.snap(pt)])
    call = lambda reg_, p_: getattr(reg_, op['o'])(p_)
    a = guarded(lambda: call(used, pt))
    b = guarded(lambda: call(build_region(case['region'], []), mk()))
    for name, obj, sn in cells:
      if not H.same(obj, sn):
        return [{'key': {'kind': 'caller-data-mutated', 'op': op['o'], 'cls': cls},
                 'detail': 'region %s, calls %s: caller-owned %s changed from %r to %r' % (json.dumps(case['region']), hist, name, sn, obj)}]
    d = differ(a, b, 1e-9, 'result')
    if d:
      return [{'key': {'kind': 'behaviour-changed', 'op': op['o'], 'cls': cls},
               'detail': 'region %s, calls %s: the last call differs from the same call on a fresh twin: %s' % (json.dumps(case['region']), hist, d)}]
  return fails


def helper_probe():
  """care2bounds / on2bounds promise a converted *copy* of the caller's dict."""
  dk = C.repo(); n_ = np()
  out = []
  for name, mk, call in (
      ('care2bounds', lambda: {'id': 'x', 'care': n_.array([1., 0., 1.]), 'bounds': [0.0, 2.0]}, lambda d: dk.care2bounds(d)),
      ('care2bounds', lambda: {'id': 'x', 'care': n_.array([1., 0., 1.]), 'bounds': n_.array([1., 2., 3.])}, lambda d: dk.care2bounds(d)),
      ('on2bounds', lambda: {'id': 'x', 'on': [0, 1], 'bounds': [0.0, 2.0]}, lambda d: dk.on2bounds(d, 3))):
    d = mk(); s = H.snap(d)
    r1 = guarded(lambda: call(d)); r2 = guarded(lambda: call(d))
    if not H.same(d, s):
      out.append({'key': {'kind': 'caller-data-mutated', 'op': name, 'cls': 'utils'}, 'detail': '%s changed the caller\'s dict from %r to %r' % (name, s, d)})
    elif differ(r1, r2):
      out.append({'key': {'kind': 'behaviour-changed', 'op': name, 'cls': 'utils'}, 'detail': '%s answers differently the second time: %s' % (name, differ(r1, r2))})
  return out


def result_form(res):
  return canon(res[1]) if res[0] == 'ok' else ('SKIP' if res[0] == 'skip' else 'EXC:' + res[1])


def run_oracle(case, stats=None):
  if case.get('kind') == 'ctor-probe':
    return ctor_probe() + helper_probe()
  if case.get('kind') == 'regions':
    return run_region_oracle(case)
  fails = []
  def fail(kind, op, cls, detail):
    fails.append({'key': {'kind': kind, 'op': op, 'cls': cls}, 'detail': detail})
  U = utils()
  U.sustainment_matrix.cache_clear(); U.power_matrix.cache_clear()
  g0 = global_state()
  # reference answers: every operation of the case on its own freshly constructed twin (fresh argument arrays), computed
  # BEFORE anything is used, calls relying on default options first — so a leak through library-level state
  # (shared default dicts, cached arrays, class attributes) cannot also contaminate the reference
  allops = list(case['ops']) + list(case.get('early', []))
  nh = len(case['ops'])
  R = {}
  for k in sorted(range(len(allops)), key=lambda k: (1 if allops[k].get('opts') else 0, k)):
    if allops[k]['o'] == 'cacheClear':
      continue
    tw = Exec(case, clear=False, only=k, early=False)
    R[k] = result_form(tw.run_op(k))
  twin0 = Exec(case, clear=False, early=False)      # pristine reference for the behavioural fingerprint
  hids = watch_ids(twin0.world, twin0.walk)
  F0 = fingerprint(twin0, hids)
  used = Exec(case, clear=False, early=True)
  root_cls = type(used.live[used.world['root']['id']]).__name__
  def label(q):
    return '%s(%s%s%s)' % (q['o'], q.get('t', ''), ', same buffer as op %d' % q['buf'] if 'buf' in q else '', ', result scribbled' if q.get('mut') else '')
  def cells_ok(o, cls, hist, how=''):
    for ci, c in enumerate(used.cells):
      if not H.same(c[1], c[2]):
        fail('caller-data-mutated', o, cls, 'history %s%s: caller-owned %s (cell %d, passed to %s) changed from %r to %r' % (hist, how, c[0], ci, c[3], c[2], c[1]))
        return False
    return True
  for c in used.cells[:used.walk.nctor]:
    if not H.same(c[1], c[2]):
      fail('caller-data-mutated', 'construct', c[3], 'constructing %s changed the caller\'s %s from %r to %r' % (c[3], c[0], c[2], c[1]))
  if fails:
    return fails
  # operations performed on a child before its parents existed
  early_txt = ''
  for k in range(nh, len(allops)):
    q = allops[k]
    got = used.early_results.get(k)
    if got is None:
      continue
    got = got[1] if got[0] == 'ok' else ('SKIP' if got[0] == 'skip' else 'EXC:' + got[1])
    cls = type(used.live[q['t']]).__name__
    early_txt += '[%s right after device %s was constructed] ' % (label(q), q['t'])
    d = differ(got, R[k], 1e-9, 'result')
    if d:
      fail('behaviour-changed', q['o'], cls, '%s on device %s right after it was constructed (before its parents) answers differently '
           'from the same call on a complete fresh twin: %s' % (label(q), q['t'], d))
      return fails
  if not cells_ok('construct', root_cls, early_txt or 'construction'):
    return fails
  ops = case['ops']
  for k, op in enumerate(ops):
    o = op['o']
    cls = type(used.live[op['t']]).__name__ if 't' in op else '<cache>'
    hist = early_txt + ' -> '.join(label(q) for q in ops[:k + 1])
    res = used.run_op(k)
    if res[0] == 'skip' and stats is not None:
      stats['scipy_unsafe_skipped'] += 1
    # (1) caller data
    if not cells_ok(o, cls, hist):
      return fails
    # (2) the answer of this call vs the same call on a fresh twin (reference computed before the history)
    if o != 'cacheClear':
      d = differ(result_form(res), R[k], 1e-7 if o in ('solve', 'step', 'hess', 'uproject') else 1e-9, 'result')
      if d:
        fail('behaviour-changed', o, cls, 'history %s: the last call answers differently on the used object than on a fresh twin: %s' % (hist, d))
        return fails
    used.scribble(k, res)
    # (3) behaviour of the used objects vs the pristine reference (fingerprinting is itself a burst of reads, so part
    #     of the cases only do it after the last operation and let the history run undisturbed)
    mode = case.get('fp', 'every')
    if k < len(ops) - 1 and (mode == 'end' or (mode == 'sparse' and k % 5 != 4)):
      continue
    d = differ(fingerprint(used, hids), F0, 1e-9, 'fingerprint')
    if d:
      fail('behaviour-changed', o, cls, 'history %s on a %s: behaviour now differs from a freshly constructed twin at %s' % (hist, root_cls, d))
      return fails
    # (1') the fingerprint itself only reads (cost, deriv, bounds, constraints + their functions, to_dict)
    if not cells_ok('readConstraints', root_cls, hist, ', then reading cost / deriv / bounds / constraints (and calling their functions) / to_dict of the devices %s' % hids):
      return fails
  # (4) global state: a twin constructed after the history must behave like the pristine one
  tw = Exec(case, clear=False, early=False)
  d = differ(fingerprint(tw, hids), F0, 1e-9, 'fingerprint')
  if d:
    fail('behaviour-changed', 'construct-after-history', root_cls, 'a twin constructed after the history %s differs from one constructed before it at %s' %
         (' -> '.join(label(q) for q in ops), d))
  d = differ(global_state(), g0, 1e-9, 'globals')
  if d:
    fail('behaviour-changed', 'globals', '<global>', 'after the history %s a library-level mutable default / module global / class attribute changed: %s' %
         (' -> '.join(label(q) for q in ops), d))
  return fails


class C12(Prop):
  id = 'C12'
  lean_module = 'DK.Props.C12'
  uses_t1 = False
  theorems = ['DK.History.inv_init', 'DK.History.step_inv', 'DK.History.step_out', 'DK.History.run_inv',
              'DK.History.history_fresh_twin', 'DK.History.history_caller_untouched', 'DK.History.trace_fresh_twin',
              'DK.History.fixed_witness', 'DK.History.prefix_witness', 'DK.History.prefix_not_stateless',
              'DK.History.prefix_mutates_caller']
  rule = ('random world (tree with MF / TwoRatio adaptors over ADevices with user constraint lists and Poly2D caches, SubBalanced sets, '
          'storage / thermal leaves; single leaves of every class; single adaptors) x random history (<= 12 ops quick, <= 60 thorough) of '
          'cost/deriv/hess/bounds/constraints/callFun/callJac/project/map/to_dict/leaf_devices+get+find/solve/step/utils.project/cache_clear '
          'on the root, sub-sets, adaptors, wrapped devices, conduits and leaves, incl. child-then-parent pairs, operations on a child before its '
          'parent is constructed, one caller-owned flow buffer rewritten in place and passed again (forced on every leaf class in every run), '
          'out-of-box and noise-sized (1e-12) entries in ~30% of flow arguments, proximal solves / callbacks / zero prices, explicit solver options followed by default '
          'calls, and the caller scribbling over returned arrays / lists / dicts; non-trivial: the history reads constraints >= 2x, or solves/steps and '
          'then evaluates again')
  sizes = {'quick': 175, 'thorough': 1000}
  assumptions = ['heap abstraction (which cells exist) is validated by T2 only: a new mutable field would be seen by T2 / the oracle, not by Lean',
                 'SciPy SLSQP and numdifftools are exercised by the oracle, not modelled (the model only records which cells a solve reads / fills)',
                 'solve / step / utils.project calls on models where SciPy\'s SLSQP is known to corrupt memory (more equality constraints than the '
                 'variables it works on; vk/scipy_guard.py) are not executed: counted as scipy_unsafe_skipped (oracle) / t2_scipy_unsafe_skipped',
                 'T2 digest ends with two tokens the model fixes at 0: "some library-level mutable global / default / class attribute changed" and '
                 '"some device object\'s instance fields changed" — any new mutable state in the library shows up as a correspondence disagreement']

  t2_ops = 0
  t2_truncated = 0
  stats = {'scipy_unsafe_skipped': 0}

  def extra_evidence(self):
    return {'history_ops_compared': self.t2_ops, 'histories_truncated_at_a_raising_evaluation': self.t2_truncated,
            'scipy_unsafe_skipped': self.stats['scipy_unsafe_skipped'], 't2_scipy_unsafe_skipped': self.t2_skipped}

  t2_skipped = 0

  def corpus(self):
    return [{'kind': 'ctor-probe'}]

  def cases(self, rng, tier, count):
    out = []
    for cls in H.DIRECTED_CLASSES:       # in every run: every leaf class sees one caller-owned buffer rewritten in place
      c = H.gen_case(rng, tier, force_cls=cls)
      c['fp'] = 'end'
      out.append(c)
    for _ in range(max(0, count - len(out))):
      if rng.random() < 0.12:
        out.append(gen_region_case(rng, tier))
      else:
        c = H.gen_case(rng, tier)
        c['fp'] = rng.choice(['every', 'end'] if tier == 'quick' else ['every', 'sparse', 'sparse', 'end', 'end'])
        out.append(c)
    return out

  def ops(self, case):
    if case.get('kind') in ('ctor-probe', 'regions'):
      return []
    ex = Exec(case, clear=True)
    got = ex.stream()
    line = ex.model_line()
    self.t2_ops += len(ex.kept); self.t2_truncated += (1 if ex.truncated else 0); self.t2_skipped += ex.skipped
    return [Op(line, lambda: got, 0, 'history tokens (%d ops)' % len(ex.kept))]

  def oracle(self, case):
    return run_oracle(case, self.stats)

  def nontrivial(self, case):
    if case.get('kind') in ('ctor-probe', 'regions'):
      return False
    names = [o['o'] for o in case['ops']]
    reads = sum(1 for x in names if x in ('readConstraints', 'callFun', 'callJac', 'solve', 'step'))
    solved = [i for i, x in enumerate(names) if x in ('solve', 'step')]
    return reads >= 2 or (bool(solved) and solved[0] < len(names) - 1)


PROP = C12()


if __name__ == '__main__':
  # debug: python -m vk.props.c12 <seed> [index]  — print both token streams of one case side by side
  import random
  seed = int(sys.argv[1]) if len(sys.argv) > 1 else 0
  idx = int(sys.argv[2]) if len(sys.argv) > 2 else 0
  rng = random.Random(seed)
  cs = [H.gen_case(rng, 'quick') for _ in range(idx + 1)]
  case = cs[idx]
  ex = Exec(case)
  got = ex.stream()
  line = ex.model_line()
  ans = C.run_model([line])[0]
  print(json.dumps([o['o'] + ':' + str(o.get('t', '')) for o in case['ops']]))
  if 'err' in ans:
    print('model error', ans)
  else:
    mv = [int(x) for x in ans['ok']]
    def seg(v):
      out, cur = [], []
      for x in v:
        if x in (-1, -2) and cur:
          out.append(cur); cur = []
        cur.append(x)
      out.append(cur)
      return out
    for a, b in zip(seg(mv), seg(got)):
      print('OK ' if a == b else 'DIFF', a, b if a != b else '')
