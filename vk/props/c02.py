"""C02 — a device tree composes its leaves row-wise (cost, gradient, bounds, constraints)."""
import os, json
from fractions import Fraction
from .. import common as C, gen, build
from .. import gen_treex as X
from ..check import Prop, Op
from ..gen_sets import FLOW_NAMES

THEOREMS = ['blocks_offsets', 'blocks_rows_sum', 'cost_eq_sum_blocks', 'deriv_block', 'bounds_block', 'row_owner',
            'row_owner_unique', 'cons_sat_iff', 'lift_jac_support', 'lift_isMGrad', 'unflat_flat', 'flat_unflat']


short, scalar, close = X.short, X.scalar, X.close


def gen_reread(rng, t, n):
  """one or two re-parameterisations of leaves (incl. the device behind an adaptor) through public setters, as data:
  new valid per-slot bounds (upper half of the box cut off), a new whole-horizon cumulative bound, or a curve parameter."""
  F, fs = C.F, C.fs
  blocks = gen.tree_leaves(t)
  out = []
  for bi in rng.sample(range(len(blocks)), min(len(blocks), rng.choice([1, 1, 2]))):
    b = blocks[bi]; d = b['dev']; prm = d.get('prm', {})
    lb = [F(x) for x in d['lb']]; hb = [F(x) for x in d['hb']]
    wrapped = b['k'] == 'mf'
    opts = []
    w = sum(hb, F(0)) - sum(lb, F(0))
    if w > 0:
      lo = sum(lb, F(0))
      opts += [('cbounds', [fs(lo + w/8), fs(lo + 5*w/8)])]*2
    if not wrapped:
      opts += [('bounds', [[fs(x) for x in lb], [fs(a + (c - a)/2) for a, c in zip(lb, hb)]])]*3
    half = lambda v: [fs(F(x)/2) for x in v] if isinstance(v, list) else fs(F(v)/2)
    mid = lambda u, v: ([fs((F(a) + F(c))/2) for a, c in zip(u, v)] if isinstance(u, list) else fs((F(u) + F(v))/2))
    cls = d['cls']
    if cls == 'CDevice':
      opts.append(('a', half(prm['a'])))
    elif cls in ('CDevice2', 'IDevice2') and isinstance(prm['p_l'], list) == isinstance(prm['p_h'], list):
      opts.append(('p_h', mid(prm['p_l'], prm['p_h'])))
    elif cls == 'IDevice':
      opts.append(('c', half(prm['c'])))
    elif cls == 'GDevice':
      cc = prm['cost_coeffs']
      opts.append(('cost_coeffs', [[fs(2*F(x)) for x in row] for row in cc] if isinstance(cc[0], list) else [fs(2*F(x)) for x in cc]))
    elif cls == 'SDevice':
      opts.append(('c1', fs(F(prm['c1']) + Fraction(1, 2))))
    if not opts:
      continue
    attr, val = rng.choice(opts)
    out.append({'block': bi, 'wrapped': wrapped, 'attr': attr, 'value': val})
  return out


class C02(Prop):
  id = 'C02'
  lean_module = 'DK.Props.C02'
  uses_t1 = True      # T1s regenerates DK/Gen/Sets/*.lean from the current source before the bridge is audited
  bridge_sets = ['DK.BridgeSets.DeviceSet_shapes', 'DK.BridgeSets.DeviceSet_shape', 'DK.BridgeSets.DeviceSet_partition',
                 'DK.BridgeSets.DeviceSet_slices', 'DK.BridgeSets.DeviceSet_costv', 'DK.BridgeSets.DeviceSet_cost',
                 'DK.BridgeSets.DeviceSet_deriv', 'DK.BridgeSets.DeviceSet_hess', 'DK.BridgeSets.DeviceSet_bounds',
                 'DK.BridgeSets.DeviceSet_project', 'DK.BridgeSets.DeviceSet_constraints', 'DK.BridgeSets.DeviceSet_constraints_node',
                 'DK.BridgeSets.MFDeviceSet_cost', 'DK.BridgeSets.MFDeviceSet_deriv', 'DK.BridgeSets.MFDeviceSet_hess',
                 'DK.BridgeSets.MFDeviceSet_init_bounds', 'DK.BridgeSets.MFDeviceSet_constraints']      # T1s: set-level glue (vk/translate_sets.py, DK/Lemmas/BridgeSets/*.lean)
  bridge = bridge_sets
  theorems = {'DK.Props.C02': ['DK.C02.' + t for t in THEOREMS],
              'DK.Props.TreeGrad': ['DK.TreeGrad.tree_isMGrad', 'DK.TreeGrad.tree_partial', 'DK.TreeGrad.ofLeaf_isGrad', 'DK.TreeGrad.ofMF_isGrad', 'DK.TreeGrad.shipped_tree_isMGrad']}
  rule = ('random rooted ordered trees of DeviceSet / SubBalancedDeviceSet nodes (depth <= 3 quick / 4 thorough, fan-out <= 3) over '
          'modelled leaves of every class, MFDeviceSet / TwoRatioMFDeviceSet adaptors as children, horizon 1..6 (..10 thorough); '
          'in-bounds flows given flat and matrix-shaped; prices scalar / per-slot vector / full matrix with pairwise different rows; '
          'non-trivial: depth >= 2 and some node whose children have different row counts')
  sizes = {'quick': 300, 'thorough': 2500}
  assumptions = ['oracle: recomposition from the leaves\' own public API (cost, deriv, bounds, constraints) with offsets summed from the '
                 'leaves\' shapes; constraint lists compared as multisets (order of the list is not part of the property)',
                 'oracle: every tree constraint Jacobian is compared with central finite differences (h=1e-3) of its own fun along two directions at the permutation flow',
                 'oracle, metamorphic: the same logical flow (C / Fortran / transpose-view / strided / flat / strided-flat / integer-typed) and price (python/numpy scalar, (n,), (1,n) row, strided, matrix layouts, integer-typed) must give the same cost, deriv, hess and constraint values; caller arrays unchanged',
                 'leaves without a Lean model (WindowDevice; ADevice whose user constraint does not flatten its argument) appear in oracle-only trees (8 % / 4 %): same cost, deriv, Hessian shape and constraint values alone (on the flow vector) and inside the tree; adaptors with 5-7 conduits in 10 % of the trees that have one',
                 'reread family (15 % of the cases, oracle only): the whole tree is read once, then leaves are re-parameterised through public setters (bounds / cbounds / a curve parameter; cbounds also on the device behind an adaptor), then the recomposition is repeated',
                 'T2 compares constraints as sorted projections (type/has-jac code, value), (code, jac.D), (code, value + jac.D) at the case flow']

  reread_rate = 0.15
  ucraw_rate = float(os.environ.get('VERIF_C02_UCRAW', '0.04'))

  def __init__(self):
    self.stats = {'depth': {}, 'price': {}, 'rows': {}, 'n': {}, 'multirow_children': 0, 'mf': 0, 'sub': 0, 'tworatio': 0, 'cases': 0}

  # ------------------------------------------------------------------ cases
  def cases(self, rng, tier, count):
    out = []
    for _ in range(count):
      t, n = X.gen_shape_tree(rng, tier)
      extra = {}
      leaves = [b for b in gen.tree_leaves(t) if b['k'] == 'leaf']
      mfs = [b for b in gen.tree_leaves(t) if b['k'] == 'mf']
      if mfs and rng.random() < 0.10:
        # an adaptor with 5-7 conduits now and then (the random trees draw at most 3)
        b = rng.choice(mfs); b['flows'] = list(FLOW_NAMES[:rng.randint(5, 7)]); b['ratios'] = None; b.pop('ctype', None)
      q = rng.random()
      if leaves and q < 0.08:
        # WindowDevice leaves: no Lean model -> oracle-only tree (alone vs in the tree)
        for b in rng.sample(leaves, min(len(leaves), rng.choice([1, 1, 2]))):
          b.update(X.window_leaf(rng, b['id'], n))
        extra = {'no_model': 'WindowDevice'}
      elif leaves and n >= 2 and q < 0.08 + self.ucraw_rate:
        # an ADevice whose user constraint does not flatten its argument: oracle-only (alone vs in the tree)
        b = rng.choice(leaves); b.update(X.raw_ucons_leaf(rng, b['id'], n))
        extra = {'no_model': 'raw user constraint'}
      R = gen.tree_rows(t)
      case = {'tree': t, 'n': n, 'S': gen.tree_flow(rng, t, n), 'S0': gen.tree_flow(rng, t, n, 'mixed'),
              'P': X.gen_prices(rng, R, n), 'D': X.gen_dir(rng, R, n),
              '_forms': {'S': rng.choice(X.MAT_FORMS), 'flat': rng.choice(['flat', 'flat-strided']), 'P': rng.choice(X.MAT_FORMS)}}
      case.update(extra)
      if rng.random() < self.reread_rate:
        rr = gen_reread(rng, t, n)
        if rr:
          case['reread'] = rr
      out.append(case)
    return out

  def corpus(self):
    """witness of the listed finding `user-constraint-shape`: DeviceSet(root, [ADevice a with the user constraint x[0] - 1/2 >= 0, Device b]), n = 2."""
    u = {'type': 'ineq', 'raw': 'first', 's': 0, 'e': 1, 'w': '1', 'c': '-1/2', 'n': 2, 'jac': True}
    a = {'k': 'leaf', 'id': 'a', 'dev': {'cls': 'ADevice', 'n': 2, 'lb': ['0', '0'], 'hb': ['1', '1'], 'cbs': [], 'prm': {'f': {'k': 'null'}}, 'raw_ucons': [u],
                                         '_py': {'bform': 'table', 'cform': None}}}
    b = {'k': 'leaf', 'id': 'b', 'dev': {'cls': 'Device', 'n': 2, 'lb': ['0', '0'], 'hb': ['1', '1'], 'cbs': [], 'prm': {}, '_py': {'bform': 'table', 'cform': None}}}
    if not self.ucraw_rate:
      return []
    return [{'tree': {'k': 'node', 'id': 'root', 'sb': None, 'ch': [a, b], 'sub': False}, 'n': 2, 'S': [['1', '0'], ['0', '0']], 'S0': [['0', '0'], ['0', '0']],
             'P': '0', 'D': [['1', '1/2'], ['-1', '1/4']], 'no_model': 'raw user constraint'}]

  def _note(self, case):
    t = case['tree']; st = self.stats
    def bump(d, k): d[str(k)] = d.get(str(k), 0) + 1
    st['cases'] += 1
    bump(st['depth'], gen.tree_depth(t)); bump(st['price'], X.price_form(case['P'])); bump(st['rows'], gen.tree_rows(t)); bump(st['n'], case['n'])
    st['multirow_children'] += X.multirow_children(t) > 0
    st['mf'] += gen.tree_has(t, 'mf')
    def any_node(t, f): return t['k'] == 'node' and (f(t) or any(any_node(c, f) for c in t['ch']))
    st['sub'] += any_node(t, lambda x: x.get('sub'))
    st['tworatio'] += any(b['k'] == 'mf' and b.get('ratios') for b in gen.tree_leaves(t))

  def extra_evidence(self):
    return {'input_distribution': self.stats}

  # ------------------------------------------------------------------ T2
  def ops(self, case):
    self._note(case)
    if case.get('no_model'):
      self.stats['oracle_only_' + case['no_model'].split()[0]] = self.stats.get('oracle_only_' + case['no_model'].split()[0], 0) + 1
      return []            # a leaf without a Lean model: the oracle compares it alone and inside the tree
    t, n = case['tree'], case['n']
    dev = build.build_tree(t)
    P = build.price(case['P'])
    ops = [
      Op({'op': 'tree.rows', 'tree': t, 'n': n}, lambda: [dev.shape[0]], 1e-9, 'shape'),
      Op({'op': 'tree.partition', 'tree': t, 'n': n}, lambda: dev.partition, 1e-9, 'partition'),
      Op({'op': 'tree.bounds', 'tree': t, 'n': n}, lambda: dev.bounds, 1e-9, 'bounds'),
    ]
    fm = case.get('_forms', {'S': 'C', 'flat': 'flat', 'P': 'C'})
    P0 = P
    for shp in ('mat', 'flat'):
      lay = fm['S'] if shp == 'mat' else fm['flat']
      S = X.relayout(build.arr(case['S']), lay); S0 = X.relayout(build.arr(case['S0']), lay); D = build.arr(case['D'])
      # price forms: a per-slot vector as (n,) on one pass and as a (1, n) row on the other; a full matrix in the case's layout
      pf_ = X.price_form(case['P'])
      P = (X.relayout(P0, 'row') if shp == 'flat' else P0) if pf_ == 'vector' else (X.relayout(P0, fm['P']) if pf_ == 'matrix' and shp == 'mat' else P0)
      shp = '%s flow, %s layout, price %s' % (shp, lay, getattr(P, 'shape', 'scalar'))
      ops += [
        Op({'op': 'tree.dcost', 'tree': t, 'n': n, 'S': case['S'], 'S0': case['S0'], 'P': case['P']},
           lambda S=S, S0=S0, P=P: dev.cost(S, P) - dev.cost(S0, P), 1e-9, 'cost difference (%s)' % shp),
        Op({'op': 'tree.deriv', 'tree': t, 'n': n, 'S': case['S'], 'P': case['P']}, lambda S=S, P=P: dev.deriv(S, P), 1e-9, 'deriv (%s)' % shp),
        Op({'op': 'treex.cons', 'tree': t, 'n': n, 'S': case['S'], 'D': case['D']}, lambda S=S, D=D: X.enc_cons(dev.constraints, S, D), 1e-9,
           'constraints: sorted (type, value), (type, jac.D), (type, value+jac.D) (%s)' % shp),
      ]
    # every nested child standalone, on its own rows (context-free consequence); partition of nested nodes
    for sub, off in X.subnodes(t):
      k = gen.tree_rows(sub)
      Ss, S0s, Ps = case['S'][off:off + k], case['S0'][off:off + k], X.price_rows(case['P'], off, k)
      if sub['k'] == 'leaf':
        d = sub['dev']
        alone = build.build_block_device(d, sub['id'])
        s, s0, p = build.arr(Ss[0]), build.arr(S0s[0]), build.price(Ps[0] if X.price_form(Ps) == 'matrix' else Ps)
        pl = Ps[0] if X.price_form(Ps) == 'matrix' else Ps
        ops += [
          Op({'op': 'leaf.dcost', 'dev': d, 's': Ss[0], 's0': S0s[0], 'p': pl}, lambda a=alone, s=s, s0=s0, p=p: a.cost(s, p) - a.cost(s0, p), 1e-9,
             'leaf %s standalone cost difference on row %d' % (sub['id'], off)),
          Op({'op': 'leaf.deriv', 'dev': d, 's': Ss[0], 'p': pl}, lambda a=alone, s=s, p=p: a.deriv(s, p), 1e-9,
             'leaf %s standalone deriv on row %d' % (sub['id'], off)),
        ]
      else:
        alone = build.build_tree(sub)
        Sa, S0a, Pa = build.arr(Ss), build.arr(S0s), build.price(Ps)
        ops += [
          Op({'op': 'tree.dcost', 'tree': sub, 'n': n, 'S': Ss, 'S0': S0s, 'P': Ps}, lambda a=alone, Sa=Sa, S0a=S0a, Pa=Pa: a.cost(Sa, Pa) - a.cost(S0a, Pa), 1e-9,
             'subtree %s standalone cost difference on rows %d..%d' % (sub['id'], off, off + k - 1)),
          Op({'op': 'tree.deriv', 'tree': sub, 'n': n, 'S': Ss, 'P': Ps}, lambda a=alone, Sa=Sa, Pa=Pa: a.deriv(Sa, Pa), 1e-9,
             'subtree %s standalone deriv on rows %d..%d' % (sub['id'], off, off + k - 1)),
        ]
        if sub['k'] == 'node':
          ops.append(Op({'op': 'tree.partition', 'tree': sub, 'n': n}, lambda a=alone: a.partition, 1e-9, 'partition of nested node %s' % sub['id']))
    return ops

  # ------------------------------------------------------------------ oracle (implementation only)
  def oracle(self, case):
    t = case['tree']
    dev = X.build_tree_x(t)
    fails = self._compare(dev, case, '', '')
    if case.get('reread') and not fails:
      fails += self._reread(case)
    return fails[:3]

  def _reread(self, case):
    """build the tree, READ it once (bounds, constraints, cost, marginal cost, at every level), then re-parameterise one or
    two leaves through their public setters, then the tree must still agree with its leaves."""
    n_ = X.np()
    t, n = case['tree'], case['n']
    dev = X.build_tree_x(t)
    blocks = X.impl_blocks(dev)
    R = sum(b[1] for b in blocks)
    S = n_.array([[float(r + 1 + (R + 1)*i) for i in range(n)] for r in range(R)])
    try:
      for _, _, node in X.impl_nodes(dev) + [(0, 0, b[2]) for b in blocks if X.is_adaptor(b[2])]:
        node.bounds; node.lbounds; node.hbounds; node.shape; node.partition
        for c in node.constraints:
          k = int(node.shape[0])
          c['fun'](S[:k].reshape(-1))
          if 'jac' in c:
            c['jac'](S[:k].reshape(-1))
      dev.cost(S, 1.0); dev.deriv(S, 1.0); dev.leaf_devices()
    except Exception as e:
      return [{'key': {'cls': type(dev).__name__, 'kind': 'raises'}, 'detail': 'first read of the tree raised %s: %s | n=%d tree=%s' % (type(e).__name__, str(e)[:160], n, short(t))}]
    done = []
    for m in case['reread']:
      off, k, blk, path = blocks[m['block']]
      target = blk.to_dict()['device'] if m['wrapped'] else blk
      if m['attr'] == 'bounds':
        val = n_.stack((n_.array(build.jf(m['value'][0])), n_.array(build.jf(m['value'][1]))), axis=1)
      elif m['attr'] == 'cbounds':
        val = (C.pf(m['value'][0]), C.pf(m['value'][1]))
      else:
        val = build.jf(m['value']) if isinstance(m['value'], list) and m['value'] and isinstance(m['value'][0], list) else build.fv(m['value'])
      try:
        setattr(target, m['attr'], val)
        done.append('%s%s.%s = %s' % ('.'.join(path), ' (wrapped device)' if m['wrapped'] else '', m['attr'], json.dumps(m['value'])))
      except ValueError:
        self.stats['reread_setter_rejected'] = self.stats.get('reread_setter_rejected', 0) + 1
    self.stats['reread_cases'] = self.stats.get('reread_cases', 0) + 1
    if not done:
      return []
    self.stats['reread_applied'] = self.stats.get('reread_applied', 0) + len(done)
    return self._compare(dev, case, 'reread-', ' | after reading bounds/constraints/cost of the whole tree once and THEN assigning ' + '; '.join(done))

  def _compare(self, dev, case, kp, note):
    n_ = X.np()
    dk = C.repo()
    t, n = case['tree'], case['n']
    blocks = X.impl_blocks(dev)
    R = sum(k for _, k, _, _ in blocks)
    fails = []
    where = note + ' | n=%d tree=%s' % (n, short(t))

    def fail(kind, detail, cls=None):
      fails.append({'key': {'cls': cls or type(dev).__name__, 'kind': kp + kind}, 'detail': detail + where})

    if tuple(int(x) for x in dev.shape) != (R, n):
      fail('shape', 'shape is %s but the leaves own %d rows of %d slots' % (tuple(dev.shape), R, n))
      return fails
    for off, k, blk, path in blocks:
      if X.is_adaptor(blk) and len(blk.to_dict()['flows']) != k:
        fail('shape', 'the adaptor %s was given %d conduits %s but owns %d rows' % ('.'.join(path), len(blk.to_dict()['flows']), list(blk.to_dict()['flows']), k))
        return fails
    if gen.tree_rows(t) != R:
      fail('shape', 'the tree was built from %d atomic leaves / conduits but has %d rows' % (gen.tree_rows(t), R))
      return fails
    # permutation-detecting flow, integer-valued: cell (r, i) holds (r+1) + (R+1)*i  (all cells different, all >= 1)
    Sperm = n_.array([[float(r + 1 + (R + 1)*i) for i in range(n)] for r in range(R)])
    SpermI = Sperm.astype(int)      # the same flow handed over as an INTEGER-typed array (callers do: np.arange, literals)
    Pperm = n_.array([[(r + 1)/4.0 + i/32.0 for i in range(n)] for r in range(R)])
    pname0 = 'cell (r,i) = (r+1)+(R+1)*i'
    probes = [(pname0, Sperm, 'P[r][i]=(r+1)/4+i/32', Pperm)]
    if len(case.get('S', [])) == R:
      probes.append(('S=%s' % json.dumps(case['S']), build.arr(case['S']).astype(float), 'P=%s' % json.dumps(case['P']), build.price(case['P'])))

    def rows_of(b):
      return '%s rows %d..%d' % ('.'.join(b[3]), b[0], b[0] + b[1] - 1)

    # ---- cost and marginal cost: sum / stack of the leaves' own values on their own rows
    for sname, S, pname, P in probes:
      Pf = X.full_prices(P, R, n)
      try:
        parts = [float(blk.cost(S[off:off + k, :], Pf[off:off + k, :])) for off, k, blk, _ in blocks]
        dparts = [n_.array(blk.deriv(S[off:off + k, :], Pf[off:off + k, :]), dtype=float).reshape(k, n) for off, k, blk, _ in blocks]
      except Exception as e:
        culprit = None
        for off, k, blk, path in blocks:
          if k == 1 and not X.is_adaptor(blk):
            try:
              blk.cost(S[off], Pf[off]); blk.deriv(S[off], Pf[off])       # alone, on its flow vector: fine ...
            except Exception:
              continue
            try:
              blk.cost(S[off:off + 1, :], Pf[off:off + 1, :]); blk.deriv(S[off:off + 1, :], Pf[off:off + 1, :])
            except Exception as e2:                                          # ... but not on the (1, n) row a set hands it
              culprit = (path, blk, e2); break
        if culprit:
          fail('leaf-alone', 'leaf %s (%s) evaluates its cost/deriv alone on the vector S[%d] but raises %s: %s on the (1, n) row slice a DeviceSet passes it; flow %s, %s'
               % ('.'.join(culprit[0]), type(culprit[1]).__name__, off, type(culprit[2]).__name__, str(culprit[2])[:120], sname, pname), type(culprit[1]).__name__)
        else:
          fail('leaf-raises', 'a leaf cost/deriv raised %s: %s on its own rows; flow %s, %s' % (type(e).__name__, str(e)[:120], sname, pname))
        return fails
      exp = sum(parts); scale = max(1.0, sum(abs(x) for x in parts if x == x))
      dexp = n_.vstack(dparts)
      got = {}
      for shp in ('mat', 'flat'):
        Sx = S if shp == 'mat' else S.reshape(-1)
        try:
          got[shp] = (float(dev.cost(Sx, P)), n_.array(dev.deriv(Sx, P), dtype=float))
        except Exception as e:
          fail('raises', 'cost/deriv raised %s: %s for a %s flow; flow %s, %s' % (type(e).__name__, str(e)[:120], shp, sname, pname))
          return fails
        c, d = got[shp]
        if not close(c, exp, scale):
          fail('cost', 'tree cost %.12g but the sum of the leaves\' costs on their own rows and price rows is %.12g (parts %s); %s flow %s, %s'
               % (c, exp, [round(x, 9) for x in parts], shp, sname, pname))
        if d.shape != (R, n):
          fail('deriv', 'deriv has shape %s, expected (%d, %d); %s flow %s' % (d.shape, R, n, shp, sname))
        elif not close(d, dexp):
          r = int(n_.argmax(n_.abs(d - dexp).max(axis=1)))
          own = [b for b in blocks if b[0] <= r < b[0] + b[1]][0]
          fail('deriv', 'row %d of the tree marginal cost is %s but the owning leaf (%s) reports %s on its own rows; %s flow %s, %s'
               % (r, d[r].tolist(), rows_of(own), dexp[r].tolist(), shp, sname, pname))
      if 'mat' in got and 'flat' in got and not (close(got['mat'][0], got['flat'][0], scale) and close(got['mat'][1].reshape(-1), got['flat'][1].reshape(-1))):
        fail('flat-vs-shaped', 'cost/deriv differ between the flat and the matrix-shaped flow; flow %s, %s' % (sname, pname))
      # a leaf alone, fed its row as a plain vector, agrees with the same leaf fed the (1, n) slice the tree passes
      for off, k, blk, path in blocks:
        if k == 1 and not X.is_adaptor(blk):
          a = float(blk.cost(S[off], Pf[off])); b = parts[[x[0] for x in blocks].index(off)]
          da = n_.array(blk.deriv(S[off], Pf[off]), dtype=float).reshape(-1)
          try:
            ha = n_.array(blk.hess(S[off], Pf[off]), dtype=float)
          except Exception:
            ha = None
          if ha is not None:
            try:
              hb_ = n_.array(blk.hess(S[off:off + 1, :], Pf[off:off + 1, :]), dtype=float)
              if hb_.shape != ha.shape or not close(hb_, ha):
                fail('leaf-alone', 'leaf %s alone on the vector S[%d] has a Hessian of shape %s, on the (1, n) row slice a set passes %s%s; flow %s'
                     % ('.'.join(path), off, ha.shape, hb_.shape, '' if hb_.shape != ha.shape else ' with other values', sname), type(blk).__name__)
            except Exception as e:
              fail('leaf-alone', 'leaf %s: hess works alone on the vector S[%d] but raises %s: %s on the (1, n) row slice a set passes; flow %s'
                   % ('.'.join(path), off, type(e).__name__, str(e)[:100], sname), type(blk).__name__)
          if not close(a, b, max(1.0, abs(b))) or not close(da, dexp[off]):
            fail('leaf-alone', 'leaf %s alone on the vector S[%d] gives cost %.12g / deriv %s, inside the tree (1,n slice) %.12g / %s; flow %s'
                 % ('.'.join(path), off, a, da.tolist(), b, dexp[off].tolist(), sname), type(blk).__name__)

    # ---- the same logical flow / price in another form (memory layout, (1,n) row, integer-typed, scalar kinds) => the same
    # cost, marginal cost and Hessian; the caller's arrays are left as they were
    sname, S, pname, P = probes[-1]
    try:
      ref = [float(dev.cost(S, P)), n_.array(dev.deriv(S, P), dtype=float).reshape(-1)]
      try:
        ref.append(n_.array(dev.hess(S, P), dtype=float))
      except Exception:
        ref.append(None)
      fv_ = X.flow_variants(S)
      rot = (7*R + 3*n + len(blocks)) % len(fv_)          # three of the flow forms per case (rotating), every price form
      fv_ = [fv_[(rot + j) % len(fv_)] for j in range(3)]
      variants = [('flow in %s' % nm, Sv, P) for nm, Sv in fv_] + [('price as %s' % nm, S, Pv) for nm, Pv in X.price_variants(P, R, n)]
      for nm, Sv, Pv in variants:
        keepS = n_.array(Sv, copy=True); keepP = n_.array(Pv, copy=True)
        try:
          got = [float(dev.cost(Sv, Pv)), n_.array(dev.deriv(Sv, Pv), dtype=float).reshape(-1)]
          with_h = ref[2] is not None and (nm in ('price as (1, n) row', 'price as (R, n) matrix, T layout') or nm == 'flow in %s' % fv_[0][0])
          got.append(n_.array(dev.hess(Sv, Pv), dtype=float) if with_h else None)
        except Exception as e:
          fail('input-form', 'cost/deriv/hess raised %s: %s with the %s (same logical input as %s, %s, which works)' % (type(e).__name__, str(e)[:120], nm, sname, pname))
          break
        sc = max(1.0, abs(ref[0]))
        bad = [w for w, a, b in (('cost', got[0], ref[0]), ('deriv', got[1], ref[1]), ('hess', got[2], ref[2])) if a is not None and b is not None and not close(a, b, sc)]
        if bad:
          fail('input-form', '%s differ(s) with the %s: cost %.12g vs %.12g, deriv %s vs %s (same logical input: %s, %s)'
               % ('/'.join(bad), nm, got[0], ref[0], got[1].round(9).tolist(), ref[1].round(9).tolist(), sname, pname))
          break
        if not ((n_.asarray(Sv) == keepS).all() and (n_.asarray(Pv) == keepP).all()):
          fail('caller-buffer', 'cost/deriv/hess changed the caller\'s arrays (%s)' % nm)
          break
    except Exception as e:
      fail('raises', 'cost/deriv raised %s: %s; flow %s, %s' % (type(e).__name__, str(e)[:120], sname, pname))

    # ---- bounds: concatenation in row-major order
    bexp = n_.concatenate([n_.array(blk.bounds, dtype=float).reshape(k*n, 2) for _, k, blk, _ in blocks])
    bgot = n_.array(dev.bounds, dtype=float)
    if bgot.shape != (R*n, 2):
      fail('bounds', 'bounds has shape %s, expected (%d, 2)' % (bgot.shape, R*n))
    elif not close(bgot, bexp):
      kbad = int(n_.argmax(n_.abs(bgot - bexp).max(axis=1)))
      own = [b for b in blocks if b[0] <= kbad // n < b[0] + b[1]][0]
      fail('bounds', 'flat bounds entry %d (row %d slot %d) is %s but the owning leaf (%s) has %s' % (kbad, kbad // n, kbad % n, bgot[kbad].tolist(), rows_of(own), bexp[kbad].tolist()))
    for nm, col in (('lbounds', 0), ('hbounds', 1)):
      v = n_.array(getattr(dev, nm), dtype=float).reshape(-1)
      if v.shape != (R*n,) or not close(v, bexp[:, col]):
        fail('bounds', '%s does not equal the concatenated leaf %s' % (nm, nm))

    # ---- constraints: every leaf constraint, evaluated on exactly that leaf's rows, is one of the tree's
    flows = [p[1] for p in probes]
    tflows = [SpermI] + flows[1:]          # what the TREE is given: the integer-typed array for the permutation flow
    try:
      tcons = dev.constraints
      T = []
      for ti, c in enumerate(tcons):
        vf = [scalar(c['fun'](S.reshape(-1))) for S in tflows]
        vs = [scalar(c['fun'](S)) for S in tflows]
        if not close(vf, vs):
          fail('flat-vs-shaped', 'a tree constraint gives %s on flat flows and %s on the same flows matrix-shaped' % (vf, vs))
        v0 = scalar(c['fun'](Sperm.reshape(-1)))
        if not close(v0, vf[0]):
          fail('constraint-dtype', 'tree constraint #%d gives %.12g on the integer-typed flow and %.12g on the same flow as floats (flow: %s)' % (ti, vf[0], v0, pname0))
        jac = n_.array(c['jac'](SpermI.reshape(-1)), dtype=float) if 'jac' in c else None
        if jac is not None and jac.size != R*n:
          fail('constraint-jac', 'a tree constraint Jacobian has %d entries for %d flow variables' % (jac.size, R*n))
          return fails
        if jac is not None:
          jf_ = n_.array(c['jac'](Sperm.reshape(-1)), dtype=float)
          js_ = n_.array(c['jac'](SpermI), dtype=float)
          if not close(jac.reshape(-1), jf_.reshape(-1)) or not close(jac.reshape(-1), js_.reshape(-1)):
            cells = n_.argwhere(n_.abs(jac.reshape(R, n) - jf_.reshape(R, n)) > 1e-9).tolist()[:6]
            fail('constraint-jac-dtype', 'tree constraint #%d (%s): its Jacobian on the INTEGER-typed flow (np.array(..., dtype=int), %s) is %s but on the same flow as floats it is %s '
                 '(cells %s differ)' % (ti, c['type'], pname0, jac.reshape(R, n).tolist(), jf_.reshape(R, n).round(9).tolist(), cells))
            return fails
        T.append((c['type'], vf, None if jac is None else jac.reshape(R, n)))
    except Exception as e:
      fail('constraint-raises', 'evaluating the tree constraints raised %s: %s (flow: %s, integer-typed)' % (type(e).__name__, str(e)[:160], probes[0][0]))
      return fails
    # ---- the tree constraints do not depend on the memory layout of the flow they are given
    try:
      for nm, Sv in [[v for v in X.flow_variants(Sperm) if v[0].split()[0] in ('F', 'strided', 'flat-strided')][(R + n) % 3]]:
        keep = Sv.copy()
        for ti, c in enumerate(tcons):
          v = scalar(c['fun'](Sv))
          j = n_.array(c['jac'](Sv), dtype=float).reshape(R, n) if 'jac' in c else None
          if not close(v, T[ti][1][0]) or (j is not None and not close(j, T[ti][2])):
            fail('input-form', 'tree constraint #%d (%s): value %.12g / Jacobian %s on the flow given in %s, but %.12g / %s on the same flow as a C-ordered matrix (flow: %s)'
                 % (ti, c['type'], v, None if j is None else j.tolist(), nm, T[ti][1][0], None if T[ti][2] is None else T[ti][2].tolist(), pname0))
            break
        if not (Sv == keep).all():
          fail('caller-buffer', 'evaluating the tree constraints changed the caller\'s flow array (%s)' % nm)
        if fails:
          break
    except Exception as e:
      fail('constraint-raises', 'evaluating the tree constraints on another memory layout of the flow "%s" raised %s: %s' % (pname0, type(e).__name__, str(e)[:160]))
      return fails
    # user constraints of an ADevice that see another shape inside a set than alone (flow vector vs raw (1, n) row slice)
    culprits = []
    for off, k, blk, path in blocks:
      if k == 1 and isinstance(blk, dk.ADevice):
        cs_ = blk.constraints
        for ci in range(len(cs_) - len(blk.to_dict().get('constraints') or []), len(cs_)):
          try:
            va = scalar(cs_[ci]['fun'](Sperm[off]))
            vr = n_.array(cs_[ci]['fun'](Sperm[off:off + 1, :]), dtype=float)
          except Exception:
            continue
          if vr.size != 1 or not close(float(vr.reshape(-1)[0]), va):
            culprits.append(('.'.join(path), ci, va, vr))
    # ---- each re-wrapped Jacobian is the gradient of the re-wrapped function: directional finite differences of `fun`
    # at the permutation flow (all entries >= 1: away from the kinks at zero), then per cell to name the wrong entries
    dirs = [n_.array([[(((r*n + i)*37) % 11 - 5)/4.0 for i in range(n)] for r in range(R)])]
    if len(case.get('D', [])) == R:
      dirs.append(build.arr(case['D']).astype(float))
    h = 1e-3
    try:
      for ti, c in enumerate(tcons):
        if 'jac' not in c or fails:
          continue
        J = T[ti][2]
        for Dm in dirs:
          g = (scalar(c['fun']((Sperm + h*Dm).reshape(-1))) - scalar(c['fun']((Sperm - h*Dm).reshape(-1))))/(2*h)
          jd = float((J*Dm).sum())
          if g == g and abs(g - jd) > 1e-6*max(1.0, abs(g), float(n_.abs(J*Dm).sum())):
            fd = n_.zeros((R, n))
            for r in range(R):
              for i in range(n):
                Em = n_.zeros((R, n)); Em[r, i] = 1.0
                fd[r, i] = (scalar(c['fun']((Sperm + h*Em).reshape(-1))) - scalar(c['fun']((Sperm - h*Em).reshape(-1))))/(2*h)
            bad = n_.argwhere(n_.abs(fd - J) > 1e-6*n_.maximum(1.0, n_.abs(fd)))
            cul = [x for x in culprits if x[3].size == 1 and close(float(x[3].reshape(-1)[0]), T[ti][1][0])]
            if cul:
              fail('user-constraint-shape', 'tree constraint #%d is user constraint #%d of the ADevice %s: alone it receives the flow vector (n,) and gives %s, inside the set it receives the raw '
                   '(1, n) row slice and gives %s (its Jacobian %s is then not the gradient of what the tree evaluates: finite differences %s); flow "%s"'
                   % (ti, cul[0][1], cul[0][0], cul[0][2], cul[0][3].tolist(), J.round(9).tolist(), fd.round(6).tolist(), probes[0][0]), 'ADevice')
              return fails[:3]
            fail('constraint-jac', 'tree constraint #%d (%s, value %s at the flow "%s"): its Jacobian is not the gradient of its fun: jac=%s but finite differences of '
                 'fun give %s; wrong (row, slot) cells: %s' % (ti, c['type'], T[ti][1][0], probes[0][0], J.round(9).tolist(), fd.round(6).tolist(), bad.tolist()[:8]))
            break
    except Exception as e:
      fail('constraint-raises', 'evaluating a tree constraint near the flow "%s" raised %s: %s' % (probes[0][0], type(e).__name__, str(e)[:160]))
      return fails
    if fails and fails[-1]['key']['kind'] == kp + 'constraint-jac':
      return fails[:3]

    Tv = n_.array([x[1] for x in T], dtype=float).reshape(len(T), len(flows))

    def match_all(E, what):
      """every expected (type, values, padded Jacobian) is a distinct tree constraint; returns the used mask or None."""
      used = n_.zeros(len(T), dtype=bool)
      for pos, (ty, vals, jac, b, ci) in enumerate(E):
        v = n_.array(vals, dtype=float)
        cand = n_.where(~used & (n_.abs(Tv - v) <= 1e-9*n_.maximum(1.0, n_.abs(v))).all(axis=1))[0] if len(T) else []
        hit = None
        for ti in cand:
          tt, _, tj = T[ti]
          if tt != ty or (tj is None) != (jac is None):
            continue
          if jac is not None and not close(tj, jac):
            continue
          hit = ti; break
        if hit is None:
          near = ''
          if pos < len(T) and what == 'leaf':
            near = '; the tree constraint at the same list position is (%s, %s%s)' % (T[pos][0], T[pos][1], '' if T[pos][2] is None or jac is None else
                   ', jac rows non-zero: %s vs leaf rows %d..%d' % (sorted(set(n_.nonzero(T[pos][2])[0].tolist())), b[0], b[0] + b[1] - 1))
          kind_, cls_ = 'constraint', type(b[2]).__name__
          if what == 'leaf' and isinstance(b[2], dk.ADevice):
            nuser = len(b[2].to_dict().get('constraints') or [])
            cc = b[2].constraints[ci]
            if ci >= len(b[2].constraints) - nuser:
              try:
                vrow = n_.array(cc['fun'](flows[0][b[0]:b[0] + 1, :]), dtype=float)
              except Exception as e:
                vrow = 'raises %s' % type(e).__name__
              if isinstance(vrow, str) or vrow.size != 1 or not close(float(vrow.reshape(-1)[0]), vals[0]):
                kind_, cls_ = 'user-constraint-shape', 'ADevice'
                near = ('; it is a USER constraint of the ADevice: alone it receives the flow vector (n,) and gives %s, inside a DeviceSet it receives the raw (1, n) row slice and gives %s'
                        % (vals[0], vrow if isinstance(vrow, str) else vrow.tolist()))
          fail(kind_, 'constraint #%d of %s%s (%s) has values %s on exactly its own rows (flows: %s%s) and %s, but no tree constraint has these values with the '
               'zero-padded Jacobian%s' % (ci, 'the device wrapped by ' if what == 'wrapped' else '', rows_of(b), ty, vals, probes[0][0], '; case S' if len(flows) > 1 else '',
                                           'a Jacobian' if jac is not None else 'no Jacobian', near), cls_)
          return None
        used[hit] = True
      return used

    try:
      E, W = [], []
      for b in blocks:
        off, k, blk, path = b
        atom = k == 1 and not X.is_adaptor(blk)
        own = (lambda S_: S_[off]) if atom else (lambda S_: S_[off:off + k, :])      # a leaf alone sees its flow VECTOR
        for ci, c in enumerate(blk.constraints):
          vals = [scalar(c['fun'](own(S))) for S in flows]
          jac = None
          if 'jac' in c:
            jac = n_.zeros((R, n)); jac[off:off + k, :] = n_.array(c['jac'](own(Sperm)), dtype=float).reshape(k, n)
          E.append((c['type'], vals, jac, b, ci))
        if X.is_adaptor(blk):
          # the device behind an adaptor: its CURRENT constraints act on the sum of the conduits, Jacobian repeated per conduit row
          for ci, c in enumerate(blk.to_dict()['device'].constraints):
            vals = [scalar(c['fun'](S[off:off + k, :].sum(axis=0))) for S in flows]
            jac = None
            if 'jac' in c:
              jac = n_.zeros((R, n)); jac[off:off + k, :] = n_.array(c['jac'](Sperm[off:off + k, :].sum(axis=0)), dtype=float).reshape(1, n)
            W.append((c['type'], vals, jac, b, ci))
    except Exception as e:
      fail('leaf-raises', 'evaluating a leaf constraint on its own rows raised %s: %s' % (type(e).__name__, str(e)[:160]))
      return fails
    used = match_all(E, 'leaf')
    if used is not None and W:
      match_all(W, 'wrapped')
    if used is not None:
      # every remaining tree constraint must be one of some node's documented own constraints (aggregate bounds per slot,
      # label balancing per slot); how many of those a node emits is not C02's business
      cands = []
      for off, rows, node in X.impl_nodes(dev):
        sb = node.sbounds
        if sb is not None:
          for i in range(n):
            cs = n_.array([S[off:off + rows, i].sum() for S in flows])
            cands += [cs - float(sb[i][0]), float(sb[i][1]) - cs]
        if isinstance(node, dk.SubBalancedDeviceSet):
          rel = X.impl_labels(node)
          sets = [[r for r, l in enumerate(rel) if l.endswith(str(lab))] for lab in node.labels]
          sets.append([r for r in range(len(rel)) if not any(r in st for st in sets)])
          for st in sets:
            for i in range(n):
              cands.append(n_.array([float(node.sign)*sum(S[off + r, i] for r in st) for S in flows]))
      Cv = n_.array(cands, dtype=float).reshape(len(cands), len(flows)) if cands else n_.zeros((0, len(flows)))
      for ti in n_.where(~used)[0]:
        v = Tv[ti]
        tol = 1e-9*n_.maximum(1.0, n_.abs(v))
        if not (len(Cv) and ((n_.abs(Cv - v) <= tol).all(axis=1) | (n_.abs(Cv + v) <= tol).all(axis=1)).any()):
          fail('constraint-extra', 'tree constraint #%d (%s, values %s at the probe flows) is neither a leaf constraint on that leaf\'s rows nor an aggregate-bound / '
               'label-balance constraint of any node on its own row range' % (ti, T[ti][0], T[ti][1]))
          break
    return fails[:3]

  def nontrivial(self, case):
    t = case['tree']
    return gen.tree_depth(t) >= 2 and X.asymmetric(t)


PROP = C02()
