"""C02 — a device tree composes its leaves row-wise (cost, gradient, bounds, constraints)."""
import json
from fractions import Fraction
from .. import common as C, gen, build
from .. import gen_treex as X
from ..check import Prop, Op

THEOREMS = ['blocks_offsets', 'blocks_rows_sum', 'cost_eq_sum_blocks', 'deriv_block', 'bounds_block', 'row_owner',
            'row_owner_unique', 'cons_sat_iff', 'lift_jac_support', 'lift_isMGrad', 'unflat_flat', 'flat_unflat']


short, scalar, close = X.short, X.scalar, X.close


class C02(Prop):
  id = 'C02'
  lean_module = 'DK.Props.C02'
  theorems = {'DK.Props.C02': ['DK.C02.' + t for t in THEOREMS],
              'DK.Props.TreeGrad': ['DK.TreeGrad.tree_isMGrad', 'DK.TreeGrad.tree_partial', 'DK.TreeGrad.ofLeaf_isGrad', 'DK.TreeGrad.ofMF_isGrad', 'DK.TreeGrad.shipped_tree_isMGrad']}
  rule = ('random rooted ordered trees of DeviceSet / SubBalancedDeviceSet nodes (depth <= 3 quick / 4 thorough, fan-out <= 3) over '
          'modelled leaves of every class, MFDeviceSet / TwoRatioMFDeviceSet adaptors as children, horizon 1..6 (..10 thorough); '
          'in-bounds flows given flat and matrix-shaped; prices scalar / per-slot vector / full matrix with pairwise different rows; '
          'non-trivial: depth >= 2 and some node whose children have different row counts')
  sizes = {'quick': 400, 'thorough': 4000}
  assumptions = ['oracle: recomposition from the leaves\' own public API (cost, deriv, bounds, constraints) with offsets summed from the '
                 'leaves\' shapes; constraint lists compared as multisets (order of the list is not part of the property)',
                 'oracle: every tree constraint Jacobian is compared with central finite differences (h=1e-3) of its own fun along two directions at the permutation flow',
                 'T2 compares constraints as sorted projections (type/has-jac code, value), (code, jac.D), (code, value + jac.D) at the case flow']

  def __init__(self):
    self.stats = {'depth': {}, 'price': {}, 'rows': {}, 'n': {}, 'multirow_children': 0, 'mf': 0, 'sub': 0, 'tworatio': 0, 'cases': 0}

  # ------------------------------------------------------------------ cases
  def cases(self, rng, tier, count):
    out = []
    for _ in range(count):
      t, n = X.gen_shape_tree(rng, tier)
      R = gen.tree_rows(t)
      out.append({'tree': t, 'n': n, 'S': gen.tree_flow(rng, t, n), 'S0': gen.tree_flow(rng, t, n, 'mixed'),
                  'P': X.gen_prices(rng, R, n), 'D': X.gen_dir(rng, R, n)})
    return out

  def _note(self, case):
    t = case['tree']; st = self.stats
    def bump(d, k): d[str(k)] = d.get(str(k), 0) + 1
    st['cases'] += 1
    bump(st['depth'], gen.tree_depth(t)); bump(st['price'], X.price_form(case['P'])); bump(st['rows'], gen.tree_rows(t)); bump(st['n'], case['n'])
    st['multirow_children'] += X.multirow_children(t) > 0
    st['mf'] += gen.tree_has(t, 'mf')
    def any_node(t, f): return t['k'] == 'node' and (f(t) or any(any_node(c, f) for c in t['ch']))
    st['sub'] += any_node(t, lambda x: x.get('sub'))
    st['tworatio'] += any(b['k'] == 'mf' and b.get('ratios') for b in gen.tree_leaves(t))

  def extra_evidence(self):
    return {'input_distribution': self.stats}

  # ------------------------------------------------------------------ T2
  def ops(self, case):
    self._note(case)
    t, n = case['tree'], case['n']
    dev = build.build_tree(t)
    P = build.price(case['P'])
    ops = [
      Op({'op': 'tree.rows', 'tree': t, 'n': n}, lambda: [dev.shape[0]], 1e-9, 'shape'),
      Op({'op': 'tree.partition', 'tree': t, 'n': n}, lambda: dev.partition, 1e-9, 'partition'),
      Op({'op': 'tree.bounds', 'tree': t, 'n': n}, lambda: dev.bounds, 1e-9, 'bounds'),
    ]
    for shp in ('mat', 'flat'):
      S = X.shaped(case['S'], shp); S0 = X.shaped(case['S0'], shp); D = build.arr(case['D'])
      ops += [
        Op({'op': 'tree.dcost', 'tree': t, 'n': n, 'S': case['S'], 'S0': case['S0'], 'P': case['P']},
           lambda S=S, S0=S0: dev.cost(S, P) - dev.cost(S0, P), 1e-9, 'cost difference (%s flow)' % shp),
        Op({'op': 'tree.deriv', 'tree': t, 'n': n, 'S': case['S'], 'P': case['P']}, lambda S=S: dev.deriv(S, P), 1e-9, 'deriv (%s flow)' % shp),
        Op({'op': 'treex.cons', 'tree': t, 'n': n, 'S': case['S'], 'D': case['D']}, lambda S=S, D=D: X.enc_cons(dev.constraints, S, D), 1e-9,
           'constraints: sorted (type, value), (type, jac.D), (type, value+jac.D) (%s flow)' % shp),
      ]
    # every nested child standalone, on its own rows (context-free consequence); partition of nested nodes
    for sub, off in X.subnodes(t):
      k = gen.tree_rows(sub)
      Ss, S0s, Ps = case['S'][off:off + k], case['S0'][off:off + k], X.price_rows(case['P'], off, k)
      if sub['k'] == 'leaf':
        d = sub['dev']
        alone = build.build_block_device(d, sub['id'])
        s, s0, p = build.arr(Ss[0]), build.arr(S0s[0]), build.price(Ps[0] if X.price_form(Ps) == 'matrix' else Ps)
        pl = Ps[0] if X.price_form(Ps) == 'matrix' else Ps
        ops += [
          Op({'op': 'leaf.dcost', 'dev': d, 's': Ss[0], 's0': S0s[0], 'p': pl}, lambda a=alone, s=s, s0=s0, p=p: a.cost(s, p) - a.cost(s0, p), 1e-9,
             'leaf %s standalone cost difference on row %d' % (sub['id'], off)),
          Op({'op': 'leaf.deriv', 'dev': d, 's': Ss[0], 'p': pl}, lambda a=alone, s=s, p=p: a.deriv(s, p), 1e-9,
             'leaf %s standalone deriv on row %d' % (sub['id'], off)),
        ]
      else:
        alone = build.build_tree(sub)
        Sa, S0a, Pa = build.arr(Ss), build.arr(S0s), build.price(Ps)
        ops += [
          Op({'op': 'tree.dcost', 'tree': sub, 'n': n, 'S': Ss, 'S0': S0s, 'P': Ps}, lambda a=alone, Sa=Sa, S0a=S0a, Pa=Pa: a.cost(Sa, Pa) - a.cost(S0a, Pa), 1e-9,
             'subtree %s standalone cost difference on rows %d..%d' % (sub['id'], off, off + k - 1)),
          Op({'op': 'tree.deriv', 'tree': sub, 'n': n, 'S': Ss, 'P': Ps}, lambda a=alone, Sa=Sa, Pa=Pa: a.deriv(Sa, Pa), 1e-9,
             'subtree %s standalone deriv on rows %d..%d' % (sub['id'], off, off + k - 1)),
        ]
        if sub['k'] == 'node':
          ops.append(Op({'op': 'tree.partition', 'tree': sub, 'n': n}, lambda a=alone: a.partition, 1e-9, 'partition of nested node %s' % sub['id']))
    return ops

  # ------------------------------------------------------------------ oracle (implementation only)
  def oracle(self, case):
    n_ = X.np()
    dk = C.repo()
    t, n = case['tree'], case['n']
    dev = build.build_tree(t)
    blocks = X.impl_blocks(dev)
    R = sum(k for _, k, _, _ in blocks)
    fails = []
    where = ' | n=%d tree=%s' % (n, short(t))

    def fail(kind, detail, cls=None):
      fails.append({'key': {'cls': cls or type(dev).__name__, 'kind': kind}, 'detail': detail + where})

    if tuple(int(x) for x in dev.shape) != (R, n):
      fail('shape', 'shape is %s but the leaves own %d rows of %d slots' % (tuple(dev.shape), R, n))
      return fails
    Sperm = build.arr(X.perm_flow(R, n))
    Pperm = n_.array([[(r + 1)/4.0 + i/32.0 for i in range(n)] for r in range(R)])
    probes = [('row r filled with r+1 (+slot/16)', Sperm, 'P[r][i]=(r+1)/4+i/32', Pperm)]
    if len(case.get('S', [])) == R:
      probes.append(('S=%s' % json.dumps(case['S']), build.arr(case['S']), 'P=%s' % json.dumps(case['P']), build.price(case['P'])))

    def rows_of(b):
      return '%s rows %d..%d' % ('.'.join(b[3]), b[0], b[0] + b[1] - 1)

    # ---- cost and marginal cost: sum / stack of the leaves' own values on their own rows
    for sname, S, pname, P in probes:
      Pf = X.full_prices(P, R, n)
      parts = [float(blk.cost(S[off:off + k, :], Pf[off:off + k, :])) for off, k, blk, _ in blocks]
      exp = sum(parts); scale = max(1.0, sum(abs(x) for x in parts if x == x))
      dparts = [n_.array(blk.deriv(S[off:off + k, :], Pf[off:off + k, :]), dtype=float).reshape(k, n) for off, k, blk, _ in blocks]
      dexp = n_.vstack(dparts)
      got = {}
      for shp in ('mat', 'flat'):
        Sx = S if shp == 'mat' else S.reshape(-1)
        try:
          got[shp] = (float(dev.cost(Sx, P)), n_.array(dev.deriv(Sx, P), dtype=float))
        except Exception as e:
          fail('raises', 'cost/deriv raised %s: %s for a %s flow; flow %s, %s' % (type(e).__name__, str(e)[:120], shp, sname, pname))
          return fails
        c, d = got[shp]
        if not close(c, exp, scale):
          fail('cost', 'tree cost %.12g but the sum of the leaves\' costs on their own rows and price rows is %.12g (parts %s); %s flow %s, %s'
               % (c, exp, [round(x, 9) for x in parts], shp, sname, pname))
        if d.shape != (R, n):
          fail('deriv', 'deriv has shape %s, expected (%d, %d); %s flow %s' % (d.shape, R, n, shp, sname))
        elif not close(d, dexp):
          r = int(n_.argmax(n_.abs(d - dexp).max(axis=1)))
          own = [b for b in blocks if b[0] <= r < b[0] + b[1]][0]
          fail('deriv', 'row %d of the tree marginal cost is %s but the owning leaf (%s) reports %s on its own rows; %s flow %s, %s'
               % (r, d[r].tolist(), rows_of(own), dexp[r].tolist(), shp, sname, pname))
      if 'mat' in got and 'flat' in got and not (close(got['mat'][0], got['flat'][0], scale) and close(got['mat'][1].reshape(-1), got['flat'][1].reshape(-1))):
        fail('flat-vs-shaped', 'cost/deriv differ between the flat and the matrix-shaped flow; flow %s, %s' % (sname, pname))
      # a leaf alone, fed its row as a plain vector, agrees with the same leaf fed the (1, n) slice the tree passes
      for off, k, blk, path in blocks:
        if k == 1 and not X.is_adaptor(blk):
          a = float(blk.cost(S[off], Pf[off])); b = parts[[x[0] for x in blocks].index(off)]
          da = n_.array(blk.deriv(S[off], Pf[off]), dtype=float).reshape(-1)
          if not close(a, b, max(1.0, abs(b))) or not close(da, dexp[off]):
            fail('leaf-alone', 'leaf %s alone on the vector S[%d] gives cost %.12g / deriv %s, inside the tree (1,n slice) %.12g / %s; flow %s'
                 % ('.'.join(path), off, a, da.tolist(), b, dexp[off].tolist(), sname), type(blk).__name__)

    # ---- bounds: concatenation in row-major order
    bexp = n_.concatenate([n_.array(blk.bounds, dtype=float).reshape(k*n, 2) for _, k, blk, _ in blocks])
    bgot = n_.array(dev.bounds, dtype=float)
    if bgot.shape != (R*n, 2):
      fail('bounds', 'bounds has shape %s, expected (%d, 2)' % (bgot.shape, R*n))
    elif not close(bgot, bexp):
      kbad = int(n_.argmax(n_.abs(bgot - bexp).max(axis=1)))
      fail('bounds', 'flat bounds entry %d (row %d slot %d) is %s but the owning leaf has %s' % (kbad, kbad // n, kbad % n, bgot[kbad].tolist(), bexp[kbad].tolist()))

    # ---- constraints: every leaf constraint, evaluated on exactly that leaf's rows, is one of the tree's
    flows = [p[1] for p in probes]
    try:
      tcons = dev.constraints
      T = []
      for c in tcons:
        vf = [scalar(c['fun'](S.reshape(-1))) for S in flows]
        vs = [scalar(c['fun'](S)) for S in flows]
        if not close(vf, vs):
          fail('flat-vs-shaped', 'a tree constraint gives %s on flat flows and %s on the same flows matrix-shaped' % (vf, vs))
        jac = n_.array(c['jac'](Sperm.reshape(-1)), dtype=float) if 'jac' in c else None
        if jac is not None and jac.size != R*n:
          fail('constraint-jac', 'a tree constraint Jacobian has %d entries for %d flow variables' % (jac.size, R*n))
          return fails
        T.append((c['type'], vf, None if jac is None else jac.reshape(R, n)))
    except Exception as e:
      fail('constraint-raises', 'evaluating the tree constraints raised %s: %s (flow: %s)' % (type(e).__name__, str(e)[:160], probes[0][0]))
      return fails
    # ---- each re-wrapped Jacobian is the gradient of the re-wrapped function: directional finite differences of `fun`
    # at the permutation flow (all entries >= 1: away from the kinks at zero), then per cell to name the wrong entries
    dirs = [n_.array([[(((r*n + i)*37) % 11 - 5)/4.0 for i in range(n)] for r in range(R)])]
    if len(case.get('D', [])) == R:
      dirs.append(build.arr(case['D']))
    h = 1e-3
    try:
      for ti, c in enumerate(tcons):
        if 'jac' not in c or fails:
          continue
        J = T[ti][2]
        for Dm in dirs:
          g = (scalar(c['fun']((Sperm + h*Dm).reshape(-1))) - scalar(c['fun']((Sperm - h*Dm).reshape(-1))))/(2*h)
          jd = float((J*Dm).sum())
          if g == g and abs(g - jd) > 1e-6*max(1.0, abs(g), float(n_.abs(J*Dm).sum())):
            fd = n_.zeros((R, n))
            for r in range(R):
              for i in range(n):
                Em = n_.zeros((R, n)); Em[r, i] = 1.0
                fd[r, i] = (scalar(c['fun']((Sperm + h*Em).reshape(-1))) - scalar(c['fun']((Sperm - h*Em).reshape(-1))))/(2*h)
            bad = n_.argwhere(n_.abs(fd - J) > 1e-6*n_.maximum(1.0, n_.abs(fd)))
            fail('constraint-jac', 'tree constraint #%d (%s, value %s at the flow "%s"): its Jacobian is not the gradient of its fun: jac=%s but finite differences of '
                 'fun give %s; wrong (row, slot) cells: %s' % (ti, c['type'], T[ti][1][0], probes[0][0], J.round(9).tolist(), fd.round(6).tolist(), bad.tolist()[:8]))
            break
    except Exception as e:
      fail('constraint-raises', 'evaluating a tree constraint near the flow "%s" raised %s: %s' % (probes[0][0], type(e).__name__, str(e)[:160]))
      return fails
    if fails and fails[-1]['key']['kind'] == 'constraint-jac':
      return fails[:3]
    E = []
    for b in blocks:
      off, k, blk, path = b
      for ci, c in enumerate(blk.constraints):
        vals = [scalar(c['fun'](S[off:off + k, :])) for S in flows]
        jac = None
        if 'jac' in c:
          jac = n_.zeros((R, n)); jac[off:off + k, :] = n_.array(c['jac'](Sperm[off:off + k, :]), dtype=float).reshape(k, n)
        E.append((c['type'], vals, jac, b, ci))
    own = 0
    for _, _, node in X.impl_nodes(dev):
      sb = node.sbounds
      if sb is not None:
        own += sum(1 if sb[i][0] == sb[i][1] else 2 for i in range(n))
      if isinstance(node, dk.SubBalancedDeviceSet):
        own += (len(node.labels) + (1 if node.apply_to_remaining else 0))*n
    if len(T) != len(E) + own:
      fail('constraint-count', 'the tree has %d constraints; its leaves have %d and its nodes add %d of their own' % (len(T), len(E), own))
    Tv = n_.array([x[1] for x in T], dtype=float).reshape(len(T), len(flows))
    used = n_.zeros(len(T), dtype=bool)
    for pos, (ty, vals, jac, b, ci) in enumerate(E):
      v = n_.array(vals, dtype=float)
      cand = n_.where(~used & (n_.abs(Tv - v) <= 1e-9*n_.maximum(1.0, n_.abs(v))).all(axis=1))[0] if len(T) else []
      hit = None
      for ti in cand:
        tt, _, tj = T[ti]
        if tt != ty or (tj is None) != (jac is None):
          continue
        if jac is not None and not close(tj, jac):
          continue
        hit = ti; break
      if hit is None:
        near = ''
        if pos < len(T):
          near = '; the tree constraint at the same list position is (%s, %s%s)' % (T[pos][0], T[pos][1], '' if T[pos][2] is None or jac is None else
                 ', jac rows non-zero: %s vs leaf rows %d..%d' % (sorted(set(n_.nonzero(T[pos][2])[0].tolist())), b[0], b[0] + b[1] - 1))
        fail('constraint', 'constraint #%d of %s (%s) has values %s on exactly its own rows (flows: %s%s) and %s, but no tree constraint has these values with the '
             'zero-padded Jacobian%s' % (ci, rows_of(b), ty, vals, probes[0][0], '; case S' if len(flows) > 1 else '',
                                         'a Jacobian' if jac is not None else 'no Jacobian', near), type(b[2]).__name__)
        break
      used[hit] = True
    return fails[:3]

  def nontrivial(self, case):
    t = case['tree']
    return gen.tree_depth(t) >= 2 and X.asymmetric(t)


PROP = C02()
