"""C14 — the reported Hessian is the second derivative of cost (atomic devices and preference functions).

T2: `leaf.hess` (closed-form classes; the model answers "numeric" for storage / thermal, which `agree` skips,
so only the (n, n) size is tied there) and, for storage / thermal, `hess2.leaf`: the implementation's numerically
differentiated Hessian against the model's ANALYTIC second derivative (`sdevHess` / `tdevHess`, proved to be the
Jacobian of the marginal cost in DK.Props.C14b) at 1e-4 relative, n <= 4, away from kinks; thermal: diagonal only.
Oracle (implementation only): central second differences of `cost`
and first differences of `deriv` (two step sizes each; entries where they disagree are skipped) against
`hess`, plus shape (n, n), symmetry, independence of price and positive semidefiniteness for the convex
models.  Storage / thermal Hessians are numdifftools output: compared at 1e-4, n <= 4, away from kinks;
thermal: diagonal only (documented diagonal approximation)."""
import json
from fractions import Fraction
from .. import common as C, gen, build
from ..common import F, fs, dy
from ..check import Prop, Op, strip_private
from ..leafcommon import np, leaf_case, flow_arr, kink_free, has_curve, interior_slot
from .c07 import convex_fn
from .. import gen_fnx

NUMERIC = ('SDevice', 'TDevice')
CLASSES = ['Device', 'PVDevice', 'CDevice', 'CDevice2', 'CDevice2', 'IDevice', 'IDevice', 'IDevice2', 'GDevice', 'GDevice', 'SDevice', 'TDevice',
           'ADevice', 'ADevice', 'ADevice', 'ADevice']
KINK_MARGIN = Fraction(1, 8)
P_SET_SAME = 0.04   # share of hess -> setter -> hess histories on the classes whose cost object is built at construction
P_SET = 0.04      # share of hess -> setter -> hess histories (storage)
P_FNX = 0.3       # share of cases from vk/gen_fnx.py (function classes outside the Lean `Fn` embedding: oracle only)
LONG_SHARE = 80   # per LONG_SHARE cases: one storage / thermal Hessian at n in {7, 9, 13} and one numdifftools-class function at n in {6, 9, 12}
ND_SHARE = 20     # one dedicated ADevice(f = TemporalVariance) case (n <= 4, strictly positive box) per ND_SHARE cases, appended
ND_HESS_TOL = 1e-4   # implementation's nd.Hessian vs the analytic Hessian tvarHess (measured worst 2.0e-10 over 7476 generator cases)


def tvar_top(case):
  """the preference function of an fnx case IS TemporalVariance (top level): the one numdifftools-based class with an exact
  rational model (lean/DK/Model/FnNd.lean `tvarHess`, DK.C01nd.tvar_hess)."""
  return bool(case.get('fnx')) and case['dev']['prm'].get('fx', {}).get('k') == 'tvar'


def fn_kinds(f, acc=None):
  acc = set() if acc is None else acc
  acc.add(f['k'])
  for x in ('f', 'g'):
    if x in f:
      fn_kinds(f[x], acc)
  return acc


def idev_bs(d):
  """all exponents an IDevice / abc function of the description uses."""
  out = []
  def walk(f):
    if f['k'] == 'abc':
      out.extend(f['b'] if isinstance(f['b'], list) else [f['b']])
    for x in ('f', 'g'):
      if x in f:
        walk(f[x])
  if d['cls'] == 'IDevice':
    b = d['prm']['b']; out.extend(b if isinstance(b, list) else [b])
  if d['cls'] == 'ADevice' and 'fx' in d['prm']:
    return gen_fnx.exponents(d['prm']['fx'])
  if d['cls'] == 'ADevice':
    walk(d['prm']['f'])
  return [F(x) for x in out]


def convex_case(case):
  """the description lies in the documented-convex family (PSD is then required)."""
  d = case['dev']
  if case.get('set_same'):
    return False
  if case.get('fnx'):
    return gen_fnx.convex(d['prm']['fx'], [F(x) for x in d['lb']], [F(x) for x in d['hb']])
  if d['cls'] == 'ADevice':
    return bool(case.get('convex_fn'))
  if d['cls'] == 'IDevice':
    return all(b >= 1 for b in idev_bs(d))
  if d['cls'] == 'GDevice':      # honest flag: convex in the generated quantity q = -s over [-hb, -lb] (signed / high-degree coefficients)
    cc = d['prm']['cost_coeffs']; lb = [F(x) for x in d['lb']]; hb = [F(x) for x in d['hb']]
    if isinstance(cc[0], list):
      return all(gen_fnx._poly_convex(row, -hb[i], -lb[i]) for i, row in enumerate(cc))
    return gen_fnx._poly_convex(cc, -max(hb), -min(lb))
  return True   # gen_leaf draws SDevice / HLQ parameters inside the convex region


def storage_state(d, s):
  """exact state of charge by the documented recurrence (used only to keep away from the shortfall kink)."""
  p = d['prm']; sus = F(p['sustainment']); e = F(p['efficiency'])
  x = F(p['start'])*F(p['capacity']); out = []
  for r in s:
    x = sus*x + (r*e if r > 0 else (r/e if r < 0 else 0)); out.append(x)
  return out


def away_from_kinks(case):
  """numdifftools takes steps 0.003 * 2^k and extrapolates; measured on 1500 storage cases: its Hessian is exact to 1e-8
  when every kink is more than 0.07 flow units away and off by up to 30 % inside that distance: margin 1/8."""
  d = case['dev']; s = [F(x) for x in case['s']]
  if case.get('fnx'):
    return gen_fnx.kink_free(d['prm']['fx'], s)
  if d['cls'] == 'SDevice':
    p = d['prm']; e = F(p['efficiency'])
    if F(p['c3']) == 0:
      return True           # the rate / flip-flop terms are one quadratic: no kink
    if e != 1 and any(abs(x) <= KINK_MARGIN for x in s):
      return False          # charging / discharging kink of the state of charge at r_j = 0
    lim = F(p['damage_depth'])*F(p['capacity'])
    if any(abs(x - lim)*min(e, 1/e) <= KINK_MARGIN for x in storage_state(d, s)):
      return False          # shortfall kink: a flow step h moves the state by at most h / efficiency
    return True
  return kink_free(case, 1e-3)


def second_diff(f, x, i, j, h):
  n_ = np()
  ei = n_.zeros(x.size); ej = n_.zeros(x.size); ei[i] = h; ej[j] = h
  return (f(x + ei + ej) - f(x + ei - ej) - f(x - ei + ej) + f(x - ei - ej))/(4*h*h)


class C14(Prop):
  id = 'C14'
  lean_module = 'DK.Props.C14'
  uses_t1 = True      # T1v regenerates DK/Gen/Vec.lean from the current source before the bridge is audited
  bridge_vec = ['DK.BridgeVec.Device_hess', 'DK.BridgeVec.CDevice_hess', 'DK.BridgeVec.IDevice2_hess', 'DK.BridgeVec.IDevice_hess',
                'DK.BridgeVec.HLQuadraticCost_hess', 'DK.BridgeVec.ABCCost_hess', 'DK.BridgeVec.ABCCost_fn',
                'DK.BridgeVec.NullFunction_hess', 'DK.BridgeVec.ReflectedFunction_hess', 'DK.BridgeVec.InnerSumFunction_hess',
                'DK.BridgeVec.GDevice_hess',
                'DK.BridgeVec.CDevice2_hess']      # T1v: vector method bodies (vk/translate_vec.py, DK/Lemmas/BridgeVec.lean)
  bridge = bridge_vec
  theorems = {'DK.Props.C14': ['DK.C14.device_hess', 'DK.C14.cdevice_hess', 'DK.C14.idevice2_hess', 'DK.C14.idevice2_hess_symm', 'DK.C14.idevice2_hess_psd',
              'DK.C14.idevice_hess', 'DK.C14.idevice_hess_int', 'DK.C14.idevice_hess_symm', 'DK.C14.idevice_hess_psd',
              'DK.C14.gdevice_hess', 'DK.C14.gdevice_hess_symm', 'DK.C14.cdevice2_hess', 'DK.C14.cdevice2_hess_symm', 'DK.C14.cdevice2_hess_psd',
              'DK.C14.PSD.zero', 'DK.C14.PSD.add', 'DK.C14.PSD.diag', 'DK.C14.symm_diag', 'DK.C14.isHessAt_diag',
              'DK.C14.psd_range_term', 'DK.C14.psd_range_sum'],
              'DK.Props.C14b': ['DK.C14b.sdevice_hess', 'DK.C14b.sdevice_hess_symm', 'DK.C14b.sdevice_hess_psd',
              'DK.C14b.tdevice_hess', 'DK.C14b.tdevice_hess_symm', 'DK.C14b.tdevice_hess_psd',
              'DK.C14b.tSlotHess_eq', 'DK.C14b.tdevHessDiag_eq', 'DK.C14b.tdevHess_const'],
              'DK.Props.C01c': ['DK.C01c.fn_hess', 'DK.C01c.fn_hess_symm'],
              'DK.Props.C01all': ['DK.C01all.leaf_hess'],
              'DK.Props.Link': ['DK.Link.accepted_hess_psd', 'DK.Link.idevice_real_hess_psd']}
  theorems['DK.Props.C01nd'] = ['DK.C01nd.tvar_hess', 'DK.C01nd.adevice_tvar_hess', 'DK.C01nd.tvar_hess_symm', 'DK.C01nd.tvar_hess_nsd']
  rule = ('random leaf of every shipped class (ADevice x every combinator of functions.py, half of them restricted to the convex family; '
          'IDevice also with non-integer exponents, oracle only) x n in 1..8 plus 5 % from {12,16,24,25,31,48} (..60 thorough; storage / thermal n <= 4) x zero-width slots x '
          'scalar/vector parameters x in-bounds flow x price; non-trivial: n >= 2, a flow strictly inside a non-zero-width slot and a '
          'non-zero curve parameter')
  sizes = {'quick': 1000, 'thorough': 12000}
  assumptions = ['oracle: second differences of cost (h = 1e-3, 2e-3; 2e-4 relative) and first differences of deriv (h = 1e-5, 8e-5; 2e-5 relative)',
                 'storage / thermal Hessians are numdifftools output: compared at 1e-4 relative, n <= 4, more than 1/8 flow unit away from kinks (measured: numdifftools is off by up to 30 % within 0.07); thermal diagonal only',
                 'T2 hess2.leaf (storage / thermal): numdifftools Hessian vs the analytic second derivative of the model (DK.C14b.sdevice_hess / tdevice_hess) under the same restrictions (1e-4 relative per entry, n <= 4, kink margin 1/8); thermal: only the diagonal is compared (the implementation zeroes the off-diagonals by construction, the analytic ones are not zero)',
                 'DK.C01c.fn_hess / fn_hess_symm (combinator trees) are proved in DK.Props.C01c, whose helper names clash with this module\'s: audited by C01']
  rule = rule + ('; plus 1 in %d: ADevice(f = TemporalVariance(c)), n 1..4, strictly positive box, tied by T2 (fnnd.hess) to the exact analytic Hessian' % ND_SHARE)
  assumptions = assumptions + [
    'T2 fnnd.hess (ADevice(f=TemporalVariance(c)), n <= 4, strictly positive box, flows more than 1/4 from 0): the implementation\'s nd.Hessian vs the '
    'analytic Hessian tvarHess = -2c (k - com)(l - com) / sum r (DK.C01nd.tvar_hess: Jacobian of the analytic gradient; symmetric; negative '
    'semidefinite, so no PSD claim) at 1e-4 relative per entry; measured numdifftools deviation on 7476 generator cases (n <= 5): worst 2.0e-10; '
    'nd.Hessian probes up to +-4 flow units away and raises ZeroDivisionError on a zero total flow (open finding, 4.7 % of the cases): skipped, not compared',
    'CobbDouglas / InformationEntropy Hessians: no analytic model; second-difference oracle only']

  def __init__(self):
    self.stat = {}

  def bump(self, k):
    self.stat[k] = self.stat.get(k, 0) + 1

  def cases(self, rng, tier, count):
    out = []
    for _ in range(count):
      if rng.random() < P_FNX:
        out.append(self.fnx_case(rng, tier))
        continue
      if rng.random() < P_SET:     # hess -> assign c1 / c2 through the setters -> hess (storage; half of them without the c3 term)
        case = leaf_case(rng, tier, ['SDevice'], n=rng.randint(1, 4))
        pr = case['dev']['prm']
        if rng.random() < 0.5:
          pr['c3'] = '0'
        c1 = F(pr['c1']) + dy(rng, Fraction(1, 4), 2)
        case['set'] = {'c1': fs(c1), 'c2': fs(dy(rng, 0, c1 - Fraction(1, 4)))}
        n = case['dev']['n']
        case['ij'] = [[i, j] for i in range(n) for j in range(i, n)]
        out.append(case)
        continue
      if rng.random() < P_SET_SAME:
        # hess -> setter -> hess on the classes that keep the cost object built at construction (IDevice2, IDevice, CDevice2): whatever
        # parameters cost / deriv then describe (their staleness is C11's open finding), hess must be the second derivative of THAT cost
        # on the SAME instance.  Oracle only (no model side: which parameters apply is exactly what is open).
        cls = rng.choice(['IDevice2', 'IDevice2', 'IDevice', 'CDevice2'])
        case = leaf_case(rng, tier, [cls])
        pr = case['dev']['prm']; n = case['dev']['n']
        half = lambda v: [fs(F(x)/2) for x in v] if isinstance(v, list) else fs(F(v)/2)
        plus = lambda v, c: [fs(F(x) + c) for x in v] if isinstance(v, list) else fs(F(v) + c)
        if cls in ('IDevice2', 'CDevice2'):
          st = rng.choice([{'p_h': half(pr['p_h'])}, {'p_l': plus(pr['p_l'], -1)}, {'p_l': plus(pr['p_l'], -2), 'p_h': half(pr['p_h'])}])
        else:
          st = rng.choice([{'c': plus(pr['c'], 1)}, {'a': half(pr['a'])}, {'b': plus(pr['b'], 1)}])
        case['set_same'] = st
        case['ij'] = [[i, j] for i in range(n) for j in range(i, n)] if n <= 5 else [[i, i] for i in rng.sample(range(n), 4)] + [sorted(rng.sample(range(n), 2)) for _ in range(6)]
        out.append(case)
        continue
      cls = rng.choice(CLASSES)
      kw = {'n': rng.randint(1, 4)} if cls in NUMERIC else {}
      case = leaf_case(rng, tier, [cls], **kw)
      d = case['dev']; n = d['n']
      if cls == 'ADevice' and rng.random() < 0.5:
        convex_fn(d['prm']['f'], [F(x) for x in d['lb']], [F(x) for x in d['hb']])
        case['convex_fn'] = True
      if cls == 'GDevice' and rng.random() < 0.4:      # degree 4-5, signed lower-order coefficients (half of them repaired to be convex)
        d['prm']['cost_coeffs'] = gen_fnx.rich_coeffs(rng, n, [F(x) for x in d['lb']], [F(x) for x in d['hb']], convex=rng.random() < 0.5)
      if cls == 'CDevice2' and rng.random() < 0.3:     # 4-5 contiguous cumulative ranges
        gen_fnx.wide_cbounds(rng, d)
      if cls == 'IDevice' and rng.random() < 0.3:     # real exponents: theorem idevice_hess + oracle, no rational model
        bs = ['3/2', '5/2', '5/4', '1/2', '3', '1', '65/64']
        d['prm']['b'] = rng.choice(bs) if rng.random() < 0.5 else [rng.choice(bs) for _ in range(n)]
      if cls == 'IDevice' and rng.random() < 0.12:     # ---- known corner, kept apart: b = 1, a = 0, flow on the upper bound (q = 0)
        live = [k for k in range(n) if d['lb'][k] != d['hb'][k]]
        if live:
          k = rng.choice(live)
          d['prm']['b'] = '1' if rng.random() < 0.5 else ['1' if i == k else str(rng.choice([1, 2, 3])) for i in range(n)]
          d['prm']['a'] = '0' if rng.random() < 0.5 else ['0' if i == k else fs(dy(rng, 0, 1)) for i in range(n)]
          case['s'][k] = d['hb'][k]
          case['branch'] = 'corner:IDevice.b1_q0'
      # index pairs probed by second differences of cost: all of them for small n, a sample otherwise
      if n <= 5:
        ij = [[i, j] for i in range(n) for j in range(i, n)]
      else:
        ij = [[i, i] for i in rng.sample(range(n), 4)] + [sorted(rng.sample(range(n), 2)) for _ in range(8)]
      case['ij'] = ij
      out.append(case)
    for _ in range(count // ND_SHARE):      # appended after the existing stream: the existing cases of a seed are unchanged
      out.append(self.tvar_case(rng, tier))
    for _ in range(min(40, max(2, count // LONG_SHARE))):      # a handful: numdifftools is O(n^2) cost evaluations per Hessian
      out.append(self.long_numeric_case(rng, tier))
      out.append(self.long_nd_case(rng, tier))
    return out

  def long_numeric_case(self, rng, tier):
    """storage / thermal Hessians on horizons 7, 9, 13 (the ordinary stream keeps them at n <= 4 because numdifftools is O(n^2)):
    judged by the second-difference oracle only -- the whole diagonal, the neighbouring pairs and a few random pairs; thermal: diagonal."""
    cls = rng.choice(['SDevice', 'TDevice'])
    n = rng.choice([7, 9, 13])
    case = leaf_case(rng, tier, [cls], n=n, flow_mode='interior')
    pr = case['dev']['prm']
    if cls == 'SDevice':
      if rng.random() < 0.6:
        pr['c3'] = '0'                    # one quadratic: no kink anywhere
      if F(pr['c2']) == 0 and F(pr['c1']) > 0 and rng.random() < 0.8:
        pr['c2'] = fs(F(pr['c1'])/2)      # neighbouring slots coupled: the Hessian is not diagonal
      case['ij'] = [[i, i] for i in range(n)] + [[i, i + 1] for i in range(n - 1)] + [sorted(rng.sample(range(n), 2)) for _ in range(6)]
    else:
      if pr['t_range'] == '0':
        pr['t_range'] = '2'
      case['ij'] = [[i, i] for i in range(n)]
    case['long'] = True
    return case

  def long_nd_case(self, rng, tier):
    """the numdifftools-based preference functions (top level) on horizons 6, 9, 12: oracle only (Jacobian of deriv, second differences)."""
    n = rng.choice([6, 9, 12])
    kind = rng.choice(['cobb', 'cobb', 'tvar', 'entropy'])
    lb = [dy(rng, Fraction(1, 2), 2) for _ in range(n)]; hb = [a + dy(rng, 0, 3) for a in lb]
    fx = {'k': kind, 'c': fs(dy(rng, Fraction(1, 4), 2))}
    if kind == 'cobb':
      fx['a'] = [fs(dy(rng, Fraction(1, 4), 3)) for _ in range(n)]
    d = {'cls': 'ADevice', 'n': n, 'lb': [fs(x) for x in lb], 'hb': [fs(x) for x in hb], 'cbs': [], 'prm': {'fx': fx}, '_py': {'bform': 'table', 'cform': None}}
    s = gen.gen_flow(rng, lb, hb, 'interior')
    return {'dev': d, 's': [fs(x) for x in s], 'p': gen.gen_price(rng, n), '_shape': rng.choice(['flat', 'row']), 'fnx': True, 'long': True,
            'ij': [[i, i] for i in rng.sample(range(n), 4)] + [sorted(rng.sample(range(n), 2)) for _ in range(8)]}

  def tvar_case(self, rng, tier):
    """ADevice(f = TemporalVariance(c)) on a strictly positive box, n <= 4: T2 `fnnd.hess` plus the oracle every fnx case gets."""
    n = rng.randint(1, 4)
    lb = [dy(rng, Fraction(1, 2), 2) for _ in range(n)]; hb = [a + dy(rng, 0, 3) for a in lb]
    same = len(set(lb)) == 1 and len(set(hb)) == 1
    d = {'cls': 'ADevice', 'n': n, 'lb': [fs(x) for x in lb], 'hb': [fs(x) for x in hb], 'cbs': [],
         'prm': {'fx': {'k': 'tvar', 'c': fs(dy(rng, Fraction(1, 4), 2))}},
         '_py': {'bform': rng.choice((['pair'] if n != 2 else []) + ['table'] + (['scalar'] if same else [])), 'cform': None}}
    s = gen.gen_flow(rng, lb, hb, rng.choice(['interior', 'interior', 'mixed', 'upper', 'lower']))
    return {'dev': d, 's': [fs(x) for x in s], 'p': gen.gen_price(rng, n), '_shape': rng.choice(['flat', 'flat', 'row']), 'fnx': True,
            'ij': [[i, j] for i in range(n) for j in range(i, n)]}

  def tvar_ops(self, case):
    """T2: the implementation's numerically differentiated Hessian (nd.Hessian) vs the model's ANALYTIC one (`tvarHess`)."""
    d = case['dev']
    if d['n'] > 4 or not all(F(x) > 0 for x in d['lb']) or not away_from_kinks(case):
      self.bump('fnnd.hess: n > 4 / not on a strictly positive box / within 1/4 of zero (not compared)')
      return []
    dev = self.build_dev(case)
    s = flow_arr(case); p = build.price(case['p'])
    try:
      H = dev.hess(s, p)
    except ZeroDivisionError:
      self.bump('fnnd.hess: numdifftools probed through a zero total flow (open finding): skipped')
      return []
    self.bump('fnnd.hess: TemporalVariance numeric Hessian vs analytic compared')
    return [Op({'op': 'fnnd.hess', 'f': d['prm']['fx'], 'n': d['n'], 's': case['s']}, lambda: H, ND_HESS_TOL,
               'numeric Hessian vs analytic (TemporalVariance)')]

  def corpus(self):
    # witness of the open TemporalVariance finding (numdifftools probes through a zero normalising sum): runs first on every seed
    return [{"dev": {"cls": "ADevice", "n": 2, "lb": ["1", "3/2"], "hb": ["1", "3/2"], "cbs": [], "prm": {"fx": {"k": "tvar", "c": "1/4"}},
                     "_py": {"bform": "table", "cform": None}}, "s": ["1", "3/2"], "p": "-23/8", "_shape": "flat", "fnx": True,
             "ij": [[0, 0], [0, 1], [1, 1]]}]

  def fnx_case(self, rng, tier):
    """ADevice over the function classes the Lean `Fn` has no constructor for (vk/gen_fnx.py): ORACLE ONLY, no T2 op."""
    q = rng.random()
    n = rng.randint(1, 5) if q < 0.6 else gen.pick_n(rng, tier, 8 if tier == 'quick' else 12)
    if rng.random() < 0.55:      # strictly positive box: entropy / temporal variance / Cobb-Douglas are defined there
      lb = [dy(rng, Fraction(1, 2), 2) for _ in range(n)]; hb = [a + dy(rng, 0, 3) for a in lb]
      if rng.random() < 0.5:
        lb = [lb[0]]*n; hb = [hb[0]]*n
    else:
      lb, hb = gen.gen_bounds(rng, n, sign=rng.choice([None, '+', '-']))
    allow_numeric = n <= 5       # numdifftools Hessians cost O(n^2) evaluations of an O(n) python loop
    d = gen_fnx.fnx_case_dev(rng, n, lb, hb, allow_numeric)
    s = gen.gen_flow(rng, lb, hb, rng.choice(['interior', 'interior', 'mixed', 'upper', 'lower']))
    case = {'dev': d, 's': [fs(x) for x in s], 'p': gen.gen_price(rng, n), '_shape': rng.choice(['flat', 'flat', 'row']), 'fnx': True}
    if n <= 5:
      case['ij'] = [[i, j] for i in range(n) for j in range(i, n)]
    else:
      case['ij'] = [[i, i] for i in rng.sample(range(n), 4)] + [sorted(rng.sample(range(n), 2)) for _ in range(8)]
    return case

  @staticmethod
  def t2_able(d):
    return all(b.denominator == 1 for b in idev_bs(d))

  @staticmethod
  def build_dev(case):
    """the Python object; with `set`: built from the ORIGINAL parameters, asked for its Hessian once (so that anything the
    object caches is warm), then the parameters are assigned through the public setters."""
    if case.get('fnx'):
      return gen_fnx.build_adevice(case['dev'])
    if case.get('set_same'):
      dev = build.build_leaf(case['dev'])
      dev.hess(build.arr(case['s']).astype(float), 0)
      for k, v in case['set_same'].items():
        setattr(dev, k, build.fv(v))
      return dev
    if case.get('set'):
      dev = build.build_leaf(case['_dev0'])
      dev.hess(build.arr(case['s']).astype(float), 0)
      for k, v in case['set'].items():
        setattr(dev, k, C.pf(v))
      return dev
    return build.build_leaf(case['dev'])

  @staticmethod
  def effective(case):
    """with `set`: the description the model / the oracle's expectations use is the one AFTER the assignments."""
    if not case.get('set') or '_dev0' in case:
      return case
    d0 = case['dev']; d1 = dict(d0); d1['prm'] = dict(d0['prm']); d1['prm'].update(case['set'])
    e = dict(case); e['dev'] = d1; e['_dev0'] = d0
    return e

  def ops(self, case):
    case = self.effective(case)
    d = case['dev']
    if tvar_top(case):
      return self.tvar_ops(case)     # TemporalVariance has an exact rational model of its analytic Hessian
    if case.get('fnx') or case.get('set_same'):
      return []          # no model side: the Lean `Fn` embedding has no constructor for these classes / which parameters apply is open
    if not self.t2_able(d):
      return []
    dev = self.build_dev(case)
    s = flow_arr(case); p = build.price(case['p'])
    out = [Op({'op': 'leaf.hess', 'dev': d, 's': case['s']}, lambda: dev.hess(s, p), 1e-9, 'hess')]
    if d['cls'] in NUMERIC and d['n'] <= 4:
      # numerically differentiated in the source: tie it to the model's analytic second derivative (DK.Props.C14b)
      if not away_from_kinks(case):
        self.bump('hess2: near a kink (numeric vs analytic not compared)')
        return out
      self.bump('hess2: numeric vs analytic compared')
      if d['cls'] == 'TDevice':   # documented diagonal approximation: only the diagonal is claimed
        out.append(Op({'op': 'hess2.leaf', 'dev': d, 's': case['s'], 'diag': True},
                      lambda: np().diag(np().array(dev.hess(s, p), dtype=float)), 1e-4, 'hess2 (numeric Hessian diagonal vs analytic)'))
      else:
        out.append(Op({'op': 'hess2.leaf', 'dev': d, 's': case['s']}, lambda: dev.hess(s, p), 1e-4, 'hess2 (numeric Hessian vs analytic)'))
    return out

  # ---------------------------------------------------------------- oracle
  def oracle(self, case):
    n_ = np()
    case = self.effective(case)
    if case.get('set') or case.get('set_same'):
      self.bump('hess -> setter -> hess cases' + (' (same-instance consistency only)' if case.get('set_same') else ''))
    d = case['dev']; cls = d['cls']; n = d['n']
    fnx = bool(case.get('fnx'))
    if fnx:
      for k in gen_fnx.kinds(d['prm']['fx']):
        self.bump('fnx kind ' + k)
    dev = self.build_dev(case)
    s = build.arr(case['s']).astype(float); p = build.price(case['p'])
    ctx = lambda: 's=%s p=%s prm=%s bounds=%s/%s cbs=%s' % (case['s'], case['p'], json.dumps(strip_private(d['prm']))[:400], d['lb'], d['hb'], d.get('cbs')) + (
      ' [history: hess, then %s assigned through the setters, then hess on the same instance]' % (case.get('set_same') or case.get('set')) if (case.get('set_same') or case.get('set')) else '')
    fx = {'fn': '+'.join(sorted(gen_fnx.kinds(d['prm']['fx']) & {'x2d', 'poly1d', 'inner', 'abcx', 'entropy', 'tvar', 'cobb', 'sum', 'base'})),
          'tvar': 'tvar' in gen_fnx.kinds(d['prm']['fx'])} if fnx else {}
    fail = lambda kind, msg, **kw: [{'key': dict(dict({'cls': cls, 'kind': kind}, **fx), **kw), 'detail': '%s: %s; %s' % (cls, msg, ctx())}]
    bs = idev_bs(d)
    regular = all(b == 1 or b >= 2 for b in bs)      # second derivative of c*q^b finite for every q >= 0
    try:
      H = n_.array(dev.hess(flow_arr(case), p), dtype=float)
    except (ArithmeticError, ValueError, TypeError) as e:
      if regular or not isinstance(e, ArithmeticError):
        return fail('hess-raises', 'hess raises %s(%s) at an in-bounds flow where the second derivative is finite' % (type(e).__name__, e),
                    exc=type(e).__name__, b='1' if any(b == 1 for b in bs) else 'other')
      self.bump('singular exponent at q = 0 (skipped)')
      return []
    if H.shape != (n, n):
      return fail('shape', 'hess has shape %s, expected (%d, %d)' % (H.shape, n, n))
    if not n_.isfinite(H).all():
      if regular:
        return fail('hess-nonfinite', 'hess has non-finite entries %s' % H.tolist())
      self.bump('singular exponent at q = 0 (skipped)')
      return []
    numeric = cls in NUMERIC or (fnx and gen_fnx.numeric(d['prm']['fx']))
    scale = max(1.0, float(n_.abs(H).max()))
    tol = 1e-4 if numeric else 1e-9
    # symmetry
    a = n_.abs(H - H.T)
    if a.max() > tol*scale:
      i, j = n_.unravel_index(int(n_.argmax(a)), a.shape)
      return fail('asymmetric', 'hess[%d][%d] = %.10g but hess[%d][%d] = %.10g' % (i, j, H[i, j], j, i, H[j, i]))
    # independent of price
    H0 = n_.array(dev.hess(flow_arr(case), 0), dtype=float)
    if H0.shape != H.shape or n_.abs(H - H0).max() > (1e-6 if numeric else tol)*scale:
      return fail('price-dependent', 'hess(s, p) differs from hess(s, 0): %s vs %s' % (H.tolist(), H0.tolist()))
    if not away_from_kinks(case):
      self.bump('near a kink (differences skipped)')
      return []
    # Jacobian of the marginal cost by first differences of deriv (closed-form classes: every entry)
    cost = lambda x: float(dev.cost(x, p))
    jac_ok = cls not in NUMERIC      # storage / thermal: the reported Hessian is compared with the cost only
    if jac_ok:
      try:
        dev.deriv(s, p)
      except Exception as e:         # the marginal cost itself raises (C01 / C10's subject): only the cost is left to compare with
        self.bump('deriv raises %s (Jacobian-of-deriv check skipped)' % type(e).__name__)
        jac_ok = False
    if jac_ok:
      jrel = 1e-4 if numeric else 2e-5
      der = lambda x: n_.array(dev.deriv(x, p), dtype=float).reshape(-1)
      for j in range(n):
        e = n_.zeros(n); e[j] = 1
        try:
          c1 = (der(s + 1e-5*e) - der(s - 1e-5*e))/2e-5
          c2 = (der(s + 8e-5*e) - der(s - 8e-5*e))/16e-5
        except (ArithmeticError, TypeError):   # stencil point outside the box: q < 0 to a real power
          continue
        for i in range(n):
          if not (n_.isfinite(c1[i]) and n_.isfinite(c2[i])) or abs(c1[i] - c2[i]) > 2e-6*max(1, abs(c1[i])):
            continue
          if abs(H[i, j] - c1[i]) > jrel*max(1.0, abs(c1[i]), scale if numeric else 0.0):
            return fail('jacobian-of-deriv', 'hess[%d][%d] = %.10g but d deriv[%d]/d s[%d] = %.10g (central difference)' % (i, j, H[i, j], i, j, c1[i]))
    # second differences of cost
    rel = 1e-4 if numeric else 2e-4
    for i, j in case.get('ij', []):
      if cls == 'TDevice' and i != j:
        continue      # documented diagonal approximation: only the diagonal is claimed
      try:
        d1 = second_diff(cost, s, i, j, 1e-3); d2 = second_diff(cost, s, i, j, 2e-3)
      except (ArithmeticError, TypeError):
        continue
      if not (n_.isfinite(d1) and n_.isfinite(d2)) or abs(d1 - d2) > 1e-4*max(1.0, abs(d1)):
        continue
      if abs(H[i, j] - d1) > rel*max(1.0, abs(d1), scale if numeric else 0.0) + (2e-6 if not numeric else 0.0):
        return fail('second-difference', 'hess[%d][%d] = %.10g but the second difference of cost is %.10g' % (i, j, H[i, j], d1))
    # positive semidefinite for the convex models
    if convex_case(case):
      w = float(n_.linalg.eigvalsh((H + H.T)/2).min())
      if w < -(1e-4 if numeric else 1e-8)*scale:
        return fail('not-psd', 'convex model but hess has eigenvalue %.6g: %s' % (w, H.tolist()))
    return []

  def nontrivial(self, case):
    if case.get('fnx'):
      return case['dev']['n'] >= 2 and interior_slot(case) and case['dev']['prm']['fx'] != {'k': 'sum', 'fs': []}
    return case['dev']['n'] >= 2 and has_curve(case['dev']) and interior_slot(case)

  def extra_evidence(self):
    return {'oracle_skips': dict(self.stat)}


PROP = C14()
