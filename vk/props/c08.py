"""C08 — cost is quasi-linear in price; scalar / per-slot / full-matrix prices are consistent.

T2 (model <-> implementation), per case and per price shape:
  cost(s,p) - cost(s0,p) and cost(s,0) - cost(s0,0)   (differences from a reference flow: the theorem is
  insensitive to an additive constant of the cost), deriv(s,p), deriv(s,0), and for leaves the
  Hessian (the model's has no price argument; the implementation's is called at the non-zero price).
  Prices are sent in the three accepted shapes (scalar string, per-slot list, full matrix); the Lean
  driver broadcasts them with `jVec` / `jMat` exactly as `Price.toMat` of DK/Props/C08.lean.

Oracle (implementation only, straight from the property text):
  cost(s,p) - cost(s,0) - sum(s*p) ~ 0,  deriv(s,p) - deriv(s,0) - p ~ 0,  hess(s,p) == hess(s,0),
  and every equivalent price shape gives the same cost / deriv / hess.
  Price updated in place (a dual-ascent / ADMM price loop): evaluate cost/deriv with a price ndarray, change that
  SAME array object in place, evaluate again; the result must equal that of a freshly built device at a fresh copy
  of the array, and satisfy the identity against the cost(s,0) computed before (a memo keyed on object identity
  makes cost and deriv stale together, so only these two comparisons see it).
  Integer-typed flows (bounds given as ints, `lbounds`/`hbounds`, 0/1 commitment arrays) with fractional prices are
  drawn on purpose (`intflow`), most often on base Device / PVDevice leaves.
  The oracle reports ONLY violations of the identities: a case whose evaluation at price 0 raises in every shape
  (or returns a wrongly sized gradient) is skipped here — that every accepted device is usable is C10's claim.

  WindowDevice (inside the quantifier "every device", not modelled: `np.average(weights=r)` is outside the model language)
  is built by this module itself as a leaf and as a child of a DeviceSet and goes through the ORACLE ONLY (no T2 op);
  its flows are strictly positive (a zero flow sum is C10's listed corner).
  Prices: ~6 % of the cases carry entries of magnitude 2^10..2^20 (1e3..1e6), ~2 % entries of magnitude 2^-20 (1e-6).
  Equivalent scalar forms: a scalar price is also given as `np.float64` and as a 0-d ndarray (the forms numpy broadcasting
  defines for a scalar), a per-slot vector also as a (1, n) row: "works at the float but raises / differs at the
  equivalent form" is a `price-shape` failure.

Obligations that are definitional (`rfl` / `simp` on the definition, listed for completeness, they carry no
content beyond the model's definitions): hess_indep, cost_scalar_eq_mat, cost_vec_eq_mat, deriv_scalar_eq_mat,
deriv_vec_eq_mat, cost_scalar_eq_vec, adevice_cost, adevice_deriv, device_deriv, cdevice_deriv.  See the header of
DK/Props/C08.lean.
"""
import math
from fractions import Fraction
from .. import common as C, gen, build
from ..common import F, fs, dy
from ..check import Prop, Op, strip_private
from ..leafcommon import np, has_curve

NUMERIC_HESS = ('SDevice', 'TDevice')   # numdifftools: slow, only n <= 3


def zeros_like(v):
  return C.jmap(lambda _: '0', v)


def nonzero(v):
  return any(Fraction(x) != 0 for x in C.flat(v))


def gen_base_price(rng, R, n, allow_mat=True):
  """a price in one of the accepted shapes, any sign, mostly non-zero; ~6 % of the prices have entries of magnitude
  1e3..1e6 (runaway dual prices), ~2 % of magnitude 1e-6 (all dyadic: exact on both sides)."""
  q = rng.random()
  m = rng.random()
  def val():
    if m < 0.06 and rng.random() < 0.6:
      return fs(rng.choice([-1, 1])*rng.choice([1, 3, 5, 7])*Fraction(2**rng.randint(10, 20), 4))
    if 0.06 <= m < 0.08 and rng.random() < 0.6:
      return fs(rng.choice([-1, 1])*Fraction(rng.choice([1, 3, 5]), 2**20))
    return fs(dy(rng, -3, 3, 3)) if rng.random() > 0.1 else '0'
  if q < 0.33:
    c = val()
    return c if c != '0' or rng.random() < 0.2 else '5/8'
  if q < 0.66 or not allow_mat:
    return [val() for _ in range(n)]
  return [[val() for _ in range(n)] for _ in range(R)]


def fractional_price(rng, R, n):
  """a price with at least one non-integer entry."""
  while True:
    p = gen_base_price(rng, R, n)
    if any(Fraction(x).denominator != 1 for x in C.flat(p)):
      return p


def price_delta(rng, p):
  """a non-zero in-place update of the price, same shape."""
  d = C.jmap(lambda _: fs(dy(rng, -2, 2, 3)), p)
  if not nonzero(d):
    d = C.jmap(lambda _: '3/8', p)
  return d


def shapes_of(p, R, n):
  """every accepted shape that denotes the same R x n price matrix as `p` (p itself first)."""
  if not isinstance(p, list):
    return [('scalar', p), ('vector', [p]*n), ('matrix', [[p]*n for _ in range(R)])]
  if not isinstance(p[0], list):
    return [('vector', p), ('matrix', [list(p) for _ in range(R)])]
  return [('matrix', p)]


def tree_classes(t):
  if t.get('k') == 'wset':
    return sorted({'WindowDevice'} | {d['cls'] for d in t['others']})
  return sorted({b['dev']['cls'] for b in gen.tree_leaves(t)})


def gen_window(rng, tier, n=None):
  """WindowDevice description: a consumer with strictly positive lower bounds (every in-bounds flow has a non-zero sum)."""
  n = n or rng.choice([2, 3, 4, 5, 6, 8])
  lb = [dy(rng, Fraction(1, 4), 2) for _ in range(n)]
  hb = [a + dy(rng, 0, 3) for a in lb]
  return {'cls': 'WindowDevice', 'n': n, 'lb': [fs(x) for x in lb], 'hb': [fs(x) for x in hb], 'cbs': [],
          'prm': {'w': fs(dy(rng, 0, n)), 'c': fs(dy(rng, Fraction(1, 4), 2))}, '_py': {'bform': 'table', 'cform': None}}


def build_window(d, id='win'):
  dk = C.repo()
  N = np()
  b = N.stack((N.array([C.pf(x) for x in d['lb']]), N.array([C.pf(x) for x in d['hb']])), axis=1)
  return dk.WindowDevice(id, d['n'], b, C.pf(d['prm']['w']), None, c=C.pf(d['prm']['c']))


def build_wset(t):
  """DeviceSet('root', [ordinary leaves ..., WindowDevice at position `pos`, ...]), optionally one nesting level."""
  dk = C.repo()
  kids = [build.build_block_device(d, 'k%d' % i) for i, d in enumerate(t['others'])]
  kids.insert(t['pos'], build_window(t['window']))
  if t.get('nest') and len(kids) >= 2:
    kids = [kids[0], dk.DeviceSet('sub', kids[1:])]
  return dk.DeviceSet('root', kids)


class C08(Prop):
  id = 'C08'
  lean_module = 'DK.Props.C08'
  uses_t1 = True      # T1v regenerates DK/Gen/Vec.lean from the current source before the bridge is audited
  bridge_vec = ['DK.BridgeVec.Device_cost', 'DK.BridgeVec.Device_deriv', 'DK.BridgeVec.CDevice_cost', 'DK.BridgeVec.CDevice_deriv',
                'DK.BridgeVec.SDevice_costv', 'DK.BridgeVec.SDevice_cost', 'DK.BridgeVec.SDevice_deriv',
                'DK.BridgeVec.IDevice2_costv', 'DK.BridgeVec.IDevice2_cost', 'DK.BridgeVec.IDevice2_deriv',
                'DK.BridgeVec.IDevice_costv', 'DK.BridgeVec.IDevice_cost', 'DK.BridgeVec.IDevice_deriv',
                'DK.BridgeVec.TDevice_costv', 'DK.BridgeVec.TDevice_cost', 'DK.BridgeVec.TDevice_deriv',
                'DK.BridgeVec.GDevice_cost',
                'DK.BridgeVec.GDevice_deriv',
                'DK.BridgeVec.CDevice2_cost',
                'DK.BridgeVec.CDevice2_deriv']      # T1v: vector method bodies (vk/translate_vec.py, DK/Lemmas/BridgeVec.lean)
  bridge_sets = ['DK.BridgeSets.DeviceSet_costv', 'DK.BridgeSets.DeviceSet_cost', 'DK.BridgeSets.DeviceSet_deriv',
                 'DK.BridgeSets.DeviceSet_costv_pvec', 'DK.BridgeSets.DeviceSet_cost_pvec', 'DK.BridgeSets.DeviceSet_deriv_pvec',
                 'DK.BridgeSets.DeviceSet_costv_pscalar', 'DK.BridgeSets.DeviceSet_cost_pscalar',
                 'DK.BridgeSets.DeviceSet_deriv_pscalar', 'DK.BridgeSets.DeviceSet_costv_prow', 'DK.BridgeSets.DeviceSet_cost_prow',
                 'DK.BridgeSets.DeviceSet_deriv_prow', 'DK.BridgeSets.MFDeviceSet_cost', 'DK.BridgeSets.MFDeviceSet_deriv']      # T1s: set-level glue (vk/translate_sets.py, DK/Lemmas/BridgeSets/*.lean)
  bridge = bridge_vec + bridge_sets
  theorems = ['DK.C08.leaf_cost', 'DK.C08.leaf_deriv', 'DK.C08.hess_indep',
              'DK.C08.device_cost', 'DK.C08.cdevice_cost', 'DK.C08.cdevice2_cost', 'DK.C08.idevice_cost',
              'DK.C08.idevice2_cost', 'DK.C08.gdevice_cost', 'DK.C08.sdevice_cost', 'DK.C08.tdevice_cost',
              'DK.C08.adevice_cost',
              'DK.C08.ofLeaf_quasiLinear', 'DK.C08.ofMF_quasiLinear', 'DK.C08.tree_cost', 'DK.C08.tree_deriv',
              'DK.C08.shipped_tree_cost', 'DK.C08.shipped_tree_deriv',
              'DK.C08.cost_scalar_eq_mat', 'DK.C08.cost_vec_eq_mat', 'DK.C08.deriv_scalar_eq_mat',
              'DK.C08.deriv_vec_eq_mat', 'DK.C08.shiftRows_scalar', 'DK.C08.shiftRows_vec',
              'DK.C08.tree_cost_scalar', 'DK.C08.tree_cost_vec', 'DK.C08.tree_deriv_scalar']
  rule = ('leaves of every shipped class (n 1..8 quick plus 5 % from {12,16,24,25,31,48}; ..60 thorough; 25 % of prices, interior flows and cost parameters are non-dyadic decimals; zero-width slots; scalar/vector parameters), random trees '
          '(depth <= 3, children with different row counts, MF / two-ratio adaptors as children) and bare MF adaptors x in-bounds flow x '
          'price of any sign in every accepted shape (scalar, per-slot vector, full matrix; every equivalent shape of the drawn price is '
          'exercised, a scalar also as np.float64 / 0-d ndarray, a vector also as a (1, n) row); 6 % of the prices at magnitude 1e3..1e6, 2 % at 1e-6; 6 % WindowDevice (leaf / in a DeviceSet; oracle only). integer-typed integer-valued flows with fractional prices (20% of leaves are base Device/PVDevice of that kind); price updated in place between calls. non-trivial: some non-zero price entry and some non-zero flow entry (trees: >= 2 rows)')
  sizes = {'quick': 800, 'thorough': 8000}
  assumptions = ['hess_indep is true by definition of the model (no price argument); that the implementation ignores p is observed by T2/oracle',
                 'numpy broadcasting of the price is modelled (Price.toMat / jMat), not verified: T2 + oracle with the three shapes',
                 'numerically differentiated Hessians (SDevice, TDevice) are compared only for n <= 3']

  def __init__(self):
    self.stats = {'leaf': 0, 'tree': 0, 'mf': 0, 'intflow_cases': 0, 'intflow_base_device': 0, 'shapes': {'scalar': 0, 'vector': 0, 'matrix': 0}, 'classes': {}}

  # ------------------------------------------------------------------ cases
  def cases(self, rng, tier, count):
    out = []
    for k in range(count):
      q = rng.random()
      if q < 0.06:
        out.append(self.window_case(rng, tier))
      elif q < 0.5:
        out.append(self.leaf_case(rng, tier))
      elif q < 0.85:
        out.append(self.tree_case(rng, tier))
      else:
        out.append(self.mf_case(rng, tier))
    return out

  def leaf_case(self, rng, tier):
    q = rng.random()
    if q < 0.2:
      # base Device / PVDevice with integer bounds, an integer-valued flow (on a bound or between) held in an
      # INTEGER array, and a fractional price
      d = gen.gen_leaf(rng, tier, ['Device', 'PVDevice'])
      n = d['n']
      d['lb'] = [fs(math.floor(F(x))) for x in d['lb']]; d['hb'] = [fs(math.ceil(F(x))) for x in d['hb']]
      d['cbs'] = []; d['_py']['cform'] = None
      d['_py']['bform'] = 'table' if n == 2 or d['_py'].get('bform') == 'scalar' else d['_py'].get('bform', 'table')
      pick = lambda a, b: rng.choice([a, b, rng.randint(a, b)])
      case = {'kind': 'leaf', 'dev': d, 'n': n, 's': [fs(pick(int(a), int(b))) for a, b in zip(d['lb'], d['hb'])],
              's0': [fs(pick(int(a), int(b))) for a, b in zip(d['lb'], d['hb'])],
              'p': fractional_price(rng, 1, n), 'intflow': rng.random() < 0.8, '_flat': rng.random() < 0.5}
    else:
      d = gen.gen_leaf(rng, tier)
      n = d['n']
      case = {'kind': 'leaf', 'dev': d, 'n': n, 's': gen.leaf_flow(rng, d), 's0': gen.leaf_flow(rng, d, 'mixed'),
              'p': gen_base_price(rng, 1, n), '_flat': rng.random() < 0.5}
      if q < 0.3:
        # any class at an integer-typed flow (the identities hold for every flow, in bounds or not)
        case['s'] = [fs(round(F(x))) for x in case['s']]; case['s0'] = [fs(round(F(x))) for x in case['s0']]
        case['intflow'] = True
        case['p'] = fractional_price(rng, 1, n)
    case['dp'] = price_delta(rng, case['p'])
    return case

  def tree_case(self, rng, tier):
    t, n = gen.gen_tree(rng, tier)
    R = gen.tree_rows(t)
    case = {'kind': 'tree', 'tree': t, 'n': n, 'S': gen.tree_flow(rng, t, n), 'S0': gen.tree_flow(rng, t, n, 'mixed'),
            'p': gen_base_price(rng, R, n), '_flat': rng.random() < 0.3}
    if rng.random() < 0.2:
      case['S'] = C.jmap(lambda x: fs(round(F(x))), case['S']); case['S0'] = C.jmap(lambda x: fs(round(F(x))), case['S0'])
      case['intflow'] = True
      case['p'] = fractional_price(rng, R, n)
    case['dp'] = price_delta(rng, case['p'])
    return case

  def window_case(self, rng, tier):
    """WindowDevice alone or as a child of a (nested) DeviceSet: oracle only."""
    if rng.random() < 0.5:
      d = gen_window(rng, tier)
      n = d['n']
      case = {'kind': 'leaf', 'dev': d, 'n': n, 's': gen.leaf_flow(rng, d), 's0': gen.leaf_flow(rng, d, 'mixed'),
              'p': gen_base_price(rng, 1, n), '_flat': rng.random() < 0.5, 'oracle_only': True}
    else:
      w = gen_window(rng, tier)
      n = w['n']
      others = [gen.gen_leaf(rng, tier, [rng.choice(['Device', 'CDevice', 'IDevice2', 'GDevice', 'PVDevice', 'IDevice'])], n=n) for _ in range(rng.randint(1, 2))]
      t = {'k': 'wset', 'window': w, 'others': others, 'pos': rng.randint(0, len(others)), 'nest': rng.random() < 0.4}
      order = list(others); order.insert(t['pos'], w)
      R = len(order)
      case = {'kind': 'tree', 'tree': t, 'n': n, 'S': [gen.leaf_flow(rng, d) for d in order], 'S0': [gen.leaf_flow(rng, d, 'mixed') for d in order],
              'p': gen_base_price(rng, R, n), '_flat': rng.random() < 0.3, 'oracle_only': True}
    case['dp'] = price_delta(rng, case['p'])
    return case

  def mf_case(self, rng, tier):
    t, n = gen.gen_tree(rng, tier, depth=1, want_mf=True)
    mfs = [b for b in gen.tree_leaves(t) if b['k'] == 'mf']
    m = rng.choice(mfs)
    R = len(m['flows'])
    case = {'kind': 'tree', 'tree': m, 'n': n, 'S': gen.tree_flow(rng, m, n), 'S0': gen.tree_flow(rng, m, n, 'mixed'),
            'p': gen_base_price(rng, R, n), '_flat': rng.random() < 0.3, '_mf': True}
    case['dp'] = price_delta(rng, case['p'])
    return case

  # ------------------------------------------------------------------ python objects
  def _leaf(self, case):
    dev = build_window(case['dev']) if case['dev']['cls'] == 'WindowDevice' else build.build_leaf(case['dev'])
    n = case['n']
    def flow(v):
      a = np().array(build.jf(v), dtype=int) if case.get('intflow') else build.arr(v)
      return a if case.get('_flat', True) else a.reshape(1, n)
    return dev, flow

  def _tree(self, case):
    if case['tree'].get('k') == 'wset':
      dev = build_wset(case['tree']); R = len(case['tree']['others']) + 1
    else:
      dev = build.build_tree(case['tree']); R = gen.tree_rows(case['tree'])
    n = case['n']
    def flow(v):
      a = (np().array(build.jf(v), dtype=int) if case.get('intflow') else build.arr(v)).reshape(R, n)
      return a.reshape(-1) if case.get('_flat') else a
    return dev, flow, R

  # ------------------------------------------------------------------ T2
  def ops(self, case):
    ops = []
    n = case['n']
    if case.get('intflow'):
      self.stats['intflow_cases'] += 1
      if case['kind'] == 'leaf' and case['dev']['cls'] in ('Device', 'PVDevice'):
        self.stats['intflow_base_device'] += 1
    if case.get('oracle_only'):
      self.stats['window'] = self.stats.get('window', 0) + 1
      return []
    if case['kind'] == 'leaf':
      d = case['dev']
      dev, flow = self._leaf(case)
      s, s0 = flow(case['s']), flow(case['s0'])
      self.stats['leaf'] += 1
      self.stats['classes'][d['cls']] = self.stats['classes'].get(d['cls'], 0) + 1
      for name, p in shapes_of(case['p'], 1, n) + [('zero', '0')]:
        if name != 'zero':
          self.stats['shapes'][name] += 1
        pp = build.price(p)
        # the Lean leaf driver takes a scalar or a per-slot list; a (1, n) matrix is its single row
        pl = p[0] if name == 'matrix' else p
        ops.append(Op({'op': 'leaf.dcost', 'dev': d, 's': case['s'], 's0': case['s0'], 'p': pl},
                      (lambda pp=pp: dev.cost(s, pp) - dev.cost(s0, pp)), 1e-9, 'leaf cost difference, price %s' % name))
        ops.append(Op({'op': 'leaf.deriv', 'dev': d, 's': case['s'], 'p': pl},
                      (lambda pp=pp: np().array(dev.deriv(s, pp), dtype=float).reshape(-1)), 1e-9, 'leaf deriv, price %s' % name))
      if d['cls'] not in NUMERIC_HESS or n <= 3:
        pp = build.price(case['p'])
        ops.append(Op({'op': 'leaf.hess', 'dev': d, 's': case['s']},
                      (lambda: dev.hess(s, pp)), 1e-4 if d['cls'] in NUMERIC_HESS else 1e-9, 'leaf hess at the non-zero price'))
      return ops
    t = case['tree']
    dev, flow, R = self._tree(case)
    S, S0 = flow(case['S']), flow(case['S0'])
    self.stats['mf' if case.get('_mf') else 'tree'] += 1
    for name, p in shapes_of(case['p'], R, n) + [('zero', '0')]:
      if name != 'zero':
        self.stats['shapes'][name] += 1
      pp = build.price(p)
      ops.append(Op({'op': 'tree.dcost', 'tree': t, 'n': n, 'S': case['S'], 'S0': case['S0'], 'P': p},
                    (lambda pp=pp: dev.cost(S, pp) - dev.cost(S0, pp)), 1e-9, 'tree cost difference, price %s' % name))
      ops.append(Op({'op': 'tree.deriv', 'tree': t, 'n': n, 'S': case['S'], 'P': p},
                    (lambda pp=pp: np().array(dev.deriv(S, pp), dtype=float).reshape(R, n)), 1e-9, 'tree deriv, price %s' % name))
    return ops

  # ------------------------------------------------------------------ oracle
  def oracle(self, case):
    N = np()
    n = case['n']
    if case['kind'] == 'leaf':
      dev, flow = self._leaf(case)
      s, R = flow(case['s']), 1
      who = case['dev']['cls']
      do_hess = who not in NUMERIC_HESS or n <= 3
      desc = '%s n=%d lb=%s hb=%s prm=%s s=%s' % (who, n, case['dev']['lb'], case['dev']['hb'], strip_private(case['dev']['prm']), case['s'])
    else:
      dev, flow, R = self._tree(case)
      s = flow(case['S'])
      who = 'MF' if case.get('_mf') else 'tree'
      cl = tree_classes(case['tree'])
      do_hess = n <= 3 or not any(c in NUMERIC_HESS for c in cl)
      desc = '%s of %s, %d rows x %d slots, S=%s' % (who, cl, R, n, case['S'])
    sm = N.array(s, dtype=float).reshape(R, n)
    out = []
    def fail(kind, detail):
      out.append({'key': {'cls': who, 'kind': kind}, 'detail': '%s: %s' % (desc, detail)})
    def call(f, *a):
      try:
        return N.array(f(*a), dtype=float), None
      except Exception as e:
        return None, type(e).__name__ + ': ' + str(e)[:120]
    c0, e0 = call(dev.cost, s, 0)
    g0, ge0 = call(dev.deriv, s, 0)
    h0, he0 = call(dev.hess, s, 0) if do_hess else (None, 'skipped')
    if e0 or ge0:
      # that cost/deriv work at all is C10's claim, not C08's.  Only if the zero price works in ANOTHER accepted shape
      # (the full zero matrix) is this a C08 failure: the shapes are then not interchangeable.
      zm = N.zeros((R, n))
      cz, ez = call(dev.cost, s, zm)
      gz, gez = call(dev.deriv, s, zm)
      if not (ez or gez):
        fail('price-shape', 'scalar price 0 raises (%s) while the equivalent zero matrix gives cost %.12g' % (e0 or ge0, float(cz)))
      self.stats['skipped_unusable'] = self.stats.get('skipped_unusable', 0) + 1
      return out
    g0 = g0.reshape(-1)
    if g0.size != R*n:
      self.stats['skipped_unusable'] = self.stats.get('skipped_unusable', 0) + 1      # C10
      return out
    ref = None
    for name, p in shapes_of(case['p'], R, n):
      pp = build.price(p)
      pm = N.array(pp, dtype=float)*N.ones((R, n))          # the matrix this shape denotes (documented broadcasting)
      lin = float((sm*pm).sum())
      c, e = call(dev.cost, s, pp)
      g, ge = call(dev.deriv, s, pp)
      if e or ge:
        fail('price-raises', 'cost/deriv work at price 0 but raise at the %s price %s: %s' % (name, p, e or ge))
        continue
      scale = max(1.0, abs(float(c)), abs(float(c0)), abs(lin))
      if not abs(float(c) - float(c0) - lin) <= 1e-9*scale:
        fail('cost-quasilinear', 'price %s %s: cost(s,p)=%.12g, cost(s,0)=%.12g, sum(s*p)=%.12g, residual %.3g' % (
          name, p, float(c), float(c0), lin, float(c) - float(c0) - lin))
      g = g.reshape(-1)
      if g.size != R*n:
        fail('shape', 'price %s: deriv(s,p) has %d entries for %d flow variables' % (name, g.size, R*n))
        continue
      res = g - g0 - pm.reshape(-1)
      bad = ~(N.abs(res) <= 1e-9*N.maximum(1.0, N.maximum(N.abs(g), N.abs(g0))))
      if bad.any():
        i = int(N.argmax(bad))
        fail('deriv-quasilinear', 'price %s %s: deriv(s,p)[%d]=%.12g, deriv(s,0)[%d]=%.12g, p=%.12g' % (
          name, p, i, g[i], i, g0[i], pm.reshape(-1)[i]))
      h = None
      if do_hess and he0 is None:
        h, he = call(dev.hess, s, pp)
        if he:
          fail('price-raises', 'price shape %s: hess(s,p) raised %s although hess(s,0) works' % (name, he))
        elif h.shape != h0.shape or not N.allclose(h, h0, rtol=1e-9, atol=1e-12, equal_nan=True):
          fail('hess-price', 'price %s %s: hess(s,p) differs from hess(s,0) (max |diff| %.3g)' % (
            name, p, float(N.max(N.abs(h - h0))) if h.shape == h0.shape else float('nan')))
      if ref is None:
        ref = (name, float(c), g, h)
      else:
        if not abs(float(c) - ref[1]) <= 1e-9*max(1.0, abs(ref[1])):
          fail('price-shape', 'cost with the %s price %.12g differs from the equivalent %s price %.12g (p=%s)' % (
            name, float(c), ref[0], ref[1], case['p']))
        if not N.allclose(g, ref[2], rtol=1e-9, atol=1e-12):
          fail('price-shape', 'deriv with the %s price differs from the equivalent %s price (p=%s)' % (name, ref[0], case['p']))
        if h is not None and ref[3] is not None and (h.shape != ref[3].shape or not N.allclose(h, ref[3], rtol=1e-9, atol=1e-12, equal_nan=True)):
          fail('price-shape', 'hess with the %s price differs from the equivalent %s price' % (name, ref[0]))

    # ---- equivalent forms of the drawn price that numpy broadcasting defines: np.float64 / 0-d array for a scalar,
    #      a (1, n) row for a per-slot vector.  "works at the float, raises or differs at the equivalent form" = price-shape.
    if ref is not None:
      forms = []
      if not isinstance(case['p'], list):
        x = C.pf(case['p'])
        forms = [('np.float64', N.float64(x)), ('0-d ndarray', N.array(x, dtype=float))]
      elif not isinstance(case['p'][0], list):
        forms = [('(1, n) row', N.array(build.jf(case['p']), dtype=float).reshape(1, n))]
      for fname, fp in forms:
        c, e = call(dev.cost, s, fp)
        g, ge = call(dev.deriv, s, fp)
        if e or ge:
          fail('price-shape', 'cost/deriv work at the %s price %s but raise when the same price is given as %s: %s' % (ref[0], case['p'], fname, e or ge))
          continue
        if not abs(float(c) - ref[1]) <= 1e-9*max(1.0, abs(ref[1])):
          fail('price-shape', 'cost with the price given as %s is %.12g, as %s %.12g (p=%s)' % (fname, float(c), ref[0], ref[1], case['p']))
        if g.size != ref[2].size or not N.allclose(g.reshape(-1), ref[2], rtol=1e-9, atol=1e-12):
          fail('price-shape', 'deriv with the price given as %s differs from the %s form (p=%s)' % (fname, ref[0], case['p']))

    # ---- the caller updates its price array in place between two calls (same ndarray object)
    if 'dp' in case and not out:
      pa = N.array(build.jf(case['p']), dtype=float)            # 0-d array for a scalar price
      dpa = N.array(build.jf(case['dp']), dtype=float)
      r1 = call(dev.cost, s, pa), call(dev.deriv, s, pa)
      if not (r1[0][1] or r1[1][1]):
        before = pa.copy()
        pa += dpa
        (c2, e2), (g2, ge2) = call(dev.cost, s, pa), call(dev.deriv, s, pa)
        fresh = (self._leaf(case) if case['kind'] == 'leaf' else self._tree(case))[0]
        pb = N.array(pa, dtype=float, copy=True)
        (c3, e3), (g3, ge3) = call(fresh.cost, s, pb), call(fresh.deriv, s, pb)
        if not (e2 or ge2 or e3 or ge3):
          how = 'price %s evaluated, then updated IN PLACE by %s to %s' % (before.tolist(), case['dp'], pa.tolist())
          if not abs(float(c2) - float(c3)) <= 1e-9*max(1.0, abs(float(c3))):
            fail('price-inplace', '%s: cost %.12g, a fresh device at a fresh copy of the price gives %.12g' % (how, float(c2), float(c3)))
          elif not N.allclose(g2.reshape(-1), g3.reshape(-1), rtol=1e-9, atol=1e-12):
            fail('price-inplace', '%s: deriv differs from a fresh device at a fresh copy of the price (max |diff| %.3g)' % (
              how, float(N.max(N.abs(g2.reshape(-1) - g3.reshape(-1))))))
          lin2 = float((sm*(pa*N.ones((R, n)))).sum())
          if not abs(float(c2) - float(c0) - lin2) <= 1e-9*max(1.0, abs(float(c2)), abs(float(c0)), abs(lin2)):
            fail('price-inplace', '%s: cost(s,p)=%.12g but cost(s,0) + sum(s*p) = %.12g' % (how, float(c2), float(c0) + lin2))
    return out

  def nontrivial(self, case):
    if not nonzero(case['p']):
      return False
    if case['kind'] == 'leaf':
      return nonzero(case['s'])
    return nonzero(case['S']) and len(case['S']) >= 2

  def extra_evidence(self):
    return {'c08_inputs': self.stats}


PROP = C08()
