"""C01 — marginal cost is the exact gradient of cost."""
from .. import common as C, gen, build
from ..check import Prop, Op
from ..leafcommon import *
from .. import gen_fnx
from fractions import Fraction
from ..common import F, fs, dy

SETTABLE = {'SDevice': ['c1', 'c2', 'c3', 'capacity', 'damage_depth', 'start', 'efficiency', 'sustainment'], 'CDevice': ['a', 'b']}   # TDevice parameters are read-only
P_FNX = 0.25      # share of cases from vk/gen_fnx.py (function classes outside the Lean `Fn` embedding: oracle only)


class C01(Prop):
  id = 'C01'
  lean_module = 'DK.Props.C01all'
  uses_t1 = True
  theorems = {
    'DK.Props.C01': ['DK.C01.partial_of_isGradAt', 'DK.C01.device_grad', 'DK.C01.cdevice_grad', 'DK.C01.idevice2_grad', 'DK.C01.idevice_grad',
                     'DK.C01.idevice_grad_int', 'DK.C01.gdevice_grad', 'DK.C01.cdevice2_grad'],
    'DK.Props.C01b': ['DK.C01b.sdevice_grad', 'DK.C01b.tdevice_grad'],
    'DK.Props.C01c': ['DK.C01c.fn_grad'],
    'DK.Props.C01all': ['DK.C01all.leaf_grad', 'DK.C01all.line_integral_of_grad', 'DK.C01all.idevice2_line_integral'],
  }
  bridge = ['DK.Bridge.hlq_cost', 'DK.Bridge.hlq_deriv', 'DK.Bridge.abc_cost', 'DK.Bridge.abc_deriv', 'DK.Bridge.abc_q']
  bridge_vec = ['DK.BridgeVec.Device_cost', 'DK.BridgeVec.Device_deriv', 'DK.BridgeVec.CDevice_cost', 'DK.BridgeVec.CDevice_deriv',
                'DK.BridgeVec.IDevice2_cost', 'DK.BridgeVec.IDevice2_deriv', 'DK.BridgeVec.IDevice_cost',
                'DK.BridgeVec.IDevice_deriv', 'DK.BridgeVec.HLQuadraticCost_call', 'DK.BridgeVec.HLQuadraticCost_deriv',
                'DK.BridgeVec.ABCCost_call', 'DK.BridgeVec.ABCCost_deriv', 'DK.BridgeVec.SDevice_flip_cost_at',
                'DK.BridgeVec.SDevice_deep_damage_at', 'DK.BridgeVec.SDevice_deep_damage_at_deriv',
                'DK.BridgeVec.SDevice_charge_costs', 'DK.BridgeVec.SDevice_charge_costs_deriv', 'DK.BridgeVec.SDevice_cost',
                'DK.BridgeVec.SDevice_deriv', 'DK.BridgeVec.TDevice_costv_t', 'DK.BridgeVec.TDevice_deriv_t',
                'DK.BridgeVec.TDevice_cost', 'DK.BridgeVec.TDevice_deriv', 'DK.BridgeVec.NullFunction_call',
                'DK.BridgeVec.NullFunction_deriv', 'DK.BridgeVec.ReflectedFunction_call', 'DK.BridgeVec.ReflectedFunction_deriv',
                'DK.BridgeVec.InnerSumFunction_call', 'DK.BridgeVec.InnerSumFunction_deriv',
                'DK.BridgeVec.GDevice_cost',
                'DK.BridgeVec.GDevice_deriv',
                'DK.BridgeVec.CDevice2_cost',
                'DK.BridgeVec.CDevice2_deriv',
                'DK.BridgeVec.Poly2D_vector',
                'DK.BridgeVec.Poly2D_call',
                'DK.BridgeVec.Poly2DOffset_vector',
                'DK.BridgeVec.Poly2DOffset_call']      # T1v: vector method bodies (vk/translate_vec.py, DK/Lemmas/BridgeVec.lean)
  bridge = bridge + bridge_vec
  rule = ('random leaf of every shipped class x horizon n (1..8 quick plus 5 % from {12,16,24,25,31,48}; ..60 thorough; 25 % of prices, interior flows and cost parameters are non-dyadic decimals) x bounds with zero-width slots x '
          'scalar/vector parameters x in-bounds flow (interior / on bounds / mixed) x scalar/vector price; non-trivial: n >= 2, '
          'a flow strictly inside a non-zero-width slot and a non-zero curve parameter; plus (oracle only) ADevice over the function classes outside the '
          'Lean embedding: X2D of mixed scalar functions, Poly1D, InnerSumFunction variants, real-exponent ABCCost, numdifftools-based classes, '
          'empty / single SumFunction')
  sizes = {'quick': 400, 'thorough': 12000}
  assumptions = ['oracle: central finite differences (h=1e-5) of the implementation cost, away from kinks']

  def __init__(self):
    self.stat = {}

  def bump(self, k):
    self.stat[k] = self.stat.get(k, 0) + 1

  def extra_evidence(self):
    return {'oracle_only_function_kinds': dict(self.stat)}

  def cases(self, rng, tier, count):
    out = []
    for _ in range(count):
      if rng.random() < P_FNX:
        out.append(self.fnx_case(rng, tier))
      else:
        case = leaf_case(rng, tier)
        dd = case['dev']
        if rng.random() < ((0.8 if gen.fn_has(dd['prm']['f'], 'demand') else 0.5) if dd['cls'] == 'ADevice' else 0.2):
          make_ints(rng, case)        # integer-typed flows
        cls = case['dev']['cls']
        if cls in SETTABLE and rng.random() < 0.3:
          # the device is BUILT with another value of one scalar parameter, asked for its gradient once, then the parameter is
          # assigned through its public setter: cost and deriv must then describe the NEW value (model: the final description)
          k = rng.choice(SETTABLE[cls])
          v0 = gen.gen_leaf(rng, tier, [cls], n=case['dev']['n'])['prm'].get(k)
          if v0 is not None and not isinstance(v0, list) and v0 != case['dev']['prm'].get(k):
            case['set0'] = {k: v0}
        out.append(case)
    return out

  @staticmethod
  def dev_of(case):
    """the Python object of a leaf case; with `set0`: built with the OTHER value, warmed by one deriv call, then re-assigned.
    A ValueError on the way (the other value is not accepted together with the rest) falls back to the plain construction."""
    d = case['dev']
    if case.get('set0'):
      d0 = dict(d); d0['prm'] = dict(d['prm']); d0['prm'].update(case['set0'])
      try:
        dev = build.build_leaf(d0)
        dev.deriv(build.arr(case['s']).astype(float), 0)
        for k in case['set0']:
          setattr(dev, k, C.pf(d['prm'][k]))
        return dev
      except ValueError:
        pass
    return build.build_leaf(d)

  def fnx_case(self, rng, tier):
    """ADevice over the function classes the Lean `Fn` has no constructor for (X2D of mixed scalar functions, Poly1D,
    InnerSumFunction variants, real-exponent ABCCost, the numdifftools-based classes, empty / single SumFunction):
    ORACLE ONLY (finite differences of the implementation's own cost), no T2 op."""
    n = rng.randint(1, 5) if rng.random() < 0.6 else gen.pick_n(rng, tier, 8 if tier == 'quick' else 12)
    if rng.random() < 0.5:       # strictly positive box: entropy / temporal variance / Cobb-Douglas are defined there
      lb = [dy(rng, Fraction(1, 2), 2) for _ in range(n)]; hb = [a + dy(rng, 0, 3) for a in lb]
    else:
      lb, hb = gen.gen_bounds(rng, n, sign=rng.choice([None, '+', '-']))
    d = gen_fnx.fnx_case_dev(rng, n, lb, hb, n <= 4)
    s = gen.gen_flow(rng, lb, hb, rng.choice(['interior', 'interior', 'mixed']))
    return {'dev': d, 's': [fs(x) for x in s], 'p': gen.gen_price(rng, n), '_shape': rng.choice(['flat', 'flat', 'row']), 'fnx': True}

  def ops(self, case):
    d = case['dev']
    if case.get('fnx'):
      return []          # no model side
    dev = self.dev_of(case)
    s = flow_arr(case); p = build.price(case['p'])
    s0 = gen.leaf_flow(__import__('random').Random(len(case['s'])), d, 'mixed')
    a0 = flow_arr(case, s0)
    return [
      Op({'op': 'leaf.dcost', 'dev': d, 's': case['s'], 's0': s0, 'p': case['p']}, lambda: dev.cost(s, p) - dev.cost(a0, p), 1e-9, 'cost difference'),
      Op({'op': 'leaf.deriv', 'dev': d, 's': case['s'], 'p': case['p']}, lambda: dev.deriv(s, p), 1e-9, 'deriv'),
    ]

  def oracle(self, case):
    d = case['dev']
    if case.get('fnx'):
      fx = d['prm']['fx']
      for k in gen_fnx.kinds(fx):
        self.bump('fnx kind ' + k)
      if not gen_fnx.kink_free(fx, [F(x) for x in case['s']]):
        return []
      dev = gen_fnx.build_adevice(d)
      s = build.arr(case['s']).astype(float); p = build.price(case['p'])
      tag = '+'.join(sorted(gen_fnx.kinds(fx)))
      bs = gen_fnx.exponents(fx)
      try:
        g = np().array(dev.deriv(flow_arr(case), p), dtype=float).reshape(-1)
      except ZeroDivisionError:
        if 'tvar' in gen_fnx.kinds(fx) or any(b < 1 for b in bs):
          self.bump('singular point (tvar zero sum / exponent < 1 at q = 0): skipped')
          return []        # TemporalVariance probes through a zero normalising sum (open C14 finding); q^(b-1) at q = 0 with b < 1
        raise
      except Exception as ex:
        return [{'key': {'cls': 'ADevice', 'kind': 'deriv-raises', 'exc': type(ex).__name__, 'fn': tag},
                 'detail': 'ADevice(%s).deriv raised %s: %s at the in-bounds flow s=%s' % (tag, type(ex).__name__, str(ex)[:80], case['s'])}]
      try:
        num = fd_grad(lambda x: dev.cost(x, p), s)
      except Exception:
        # the finite-difference stencil leaves the box (a flow on its bound): q < 0 under a real exponent is outside the cost's domain
        self.bump('finite-difference stencil left the domain of the cost: skipped')
        return []
      if g.shape != num.shape:
        return [{'key': {'cls': 'ADevice', 'kind': 'shape', 'fn': tag}, 'detail': 'ADevice(%s): deriv has %d entries for %d flow variables' % (tag, g.size, num.size)}]
      tol = 2e-4 if gen_fnx.numeric(fx) else 2e-5
      bad = np().abs(g - num) > tol*np().maximum(1, np().abs(num))
      if bad.any():
        i = int(np().argmax(bad))
        return [{'key': {'cls': 'ADevice', 'kind': 'gradient', 'fn': tag},
                 'detail': 'ADevice(%s): deriv[%d]=%.8g but d cost/d s[%d]=%.8g (finite difference) at s=%s p=%s' % (tag, i, g[i], i, num[i], case['s'], case['p'])}]
      return []
    if case.get('_ints'):
      # the same flow as integer-typed and as float data must give the same cost and marginal cost (no kink argument needed)
      dv = self.dev_of(case); p_ = build.price(case['p'])
      fi = flow_arr(case); ff = np().array(fi, dtype=float)
      gi = np().array(dv.deriv(fi, p_), dtype=float).reshape(-1); gf = np().array(dv.deriv(ff, p_), dtype=float).reshape(-1)
      ci = float(dv.cost(fi, p_)); cf = float(dv.cost(ff, p_))
      self.bump('integer-typed flow vs the same flow as float')
      if gi.shape != gf.shape or not np().allclose(gi, gf, rtol=1e-9, atol=1e-9, equal_nan=True) or abs(ci - cf) > 1e-9*max(1, abs(cf)):
        return [{'key': {'cls': d['cls'], 'kind': 'int-flow'},
                 'detail': '%s: on the integer-typed flow %s deriv=%s cost=%.10g, on the same flow as float deriv=%s cost=%.10g (p=%s)'
                           % (d['cls'], case['s'], gi.tolist(), ci, gf.tolist(), cf, case['p'])}]
    if not kink_free(case):
      return []
    dev = self.dev_of(case)
    if case.get('set0'):
      self.bump('built with another value, deriv, then setter')
    s = build.arr(case['s']); p = build.price(case['p'])
    g = np().array(dev.deriv(flow_arr(case), p), dtype=float).reshape(-1)
    n = fd_grad(lambda x: dev.cost(x, p), s)
    if g.shape != n.shape:
      return [{'key': {'cls': d['cls'], 'kind': 'shape'}, 'detail': 'deriv has %d entries for %d flow variables' % (g.size, n.size)}]
    bad = np().abs(g - n) > 2e-5*np().maximum(1, np().abs(n))   # nan (skipped) compares False
    if bad.any():
      i = int(np().argmax(bad))
      return [{'key': {'cls': d['cls'], 'kind': 'gradient'},
               'detail': '%s: deriv[%d]=%.8g but d cost/d s[%d]=%.8g (finite difference) at s=%s p=%s%s' % (d['cls'], i, g[i], i, n[i], case['s'], case['p'],
                         (' [device built with %s, deriv called once, then %s assigned through the setter]' % (case['set0'], {k: d['prm'][k] for k in case['set0']})) if case.get('set0') else '')}]
    return []

  def nontrivial(self, case):
    if case.get('fnx'):
      return case['dev']['n'] >= 2
    return case['dev']['n'] >= 2 and has_curve(case['dev']) and interior_slot(case)


PROP = C01()
