"""C01 — marginal cost is the exact gradient of cost."""
from .. import common as C, gen, build
from ..check import Prop, Op
from ..leafcommon import *


class C01(Prop):
  id = 'C01'
  lean_module = 'DK.Props.C01all'
  uses_t1 = True
  theorems = {
    'DK.Props.C01': ['DK.C01.partial_of_isGradAt', 'DK.C01.device_grad', 'DK.C01.cdevice_grad', 'DK.C01.idevice2_grad', 'DK.C01.idevice_grad',
                     'DK.C01.idevice_grad_int', 'DK.C01.gdevice_grad', 'DK.C01.cdevice2_grad'],
    'DK.Props.C01b': ['DK.C01b.sdevice_grad', 'DK.C01b.tdevice_grad'],
    'DK.Props.C01c': ['DK.C01c.fn_grad'],
    'DK.Props.C01all': ['DK.C01all.leaf_grad', 'DK.C01all.line_integral_of_grad', 'DK.C01all.idevice2_line_integral'],
  }
  bridge = ['DK.Bridge.hlq_cost', 'DK.Bridge.hlq_deriv', 'DK.Bridge.abc_cost', 'DK.Bridge.abc_deriv', 'DK.Bridge.abc_q']
  rule = ('random leaf of every shipped class x horizon n (1..8 quick, ..31 thorough) x bounds with zero-width slots x '
          'scalar/vector parameters x in-bounds flow (interior / on bounds / mixed) x scalar/vector price; non-trivial: n >= 2, '
          'a flow strictly inside a non-zero-width slot and a non-zero curve parameter')
  sizes = {'quick': 400, 'thorough': 12000}
  assumptions = ['oracle: central finite differences (h=1e-5) of the implementation cost, away from kinks']

  def cases(self, rng, tier, count):
    return [leaf_case(rng, tier) for _ in range(count)]

  def ops(self, case):
    d = case['dev']
    dev = build.build_leaf(d)
    s = flow_arr(case); p = build.price(case['p'])
    s0 = gen.leaf_flow(__import__('random').Random(len(case['s'])), d, 'mixed')
    a0 = flow_arr(case, s0)
    return [
      Op({'op': 'leaf.dcost', 'dev': d, 's': case['s'], 's0': s0, 'p': case['p']}, lambda: dev.cost(s, p) - dev.cost(a0, p), 1e-9, 'cost difference'),
      Op({'op': 'leaf.deriv', 'dev': d, 's': case['s'], 'p': case['p']}, lambda: dev.deriv(s, p), 1e-9, 'deriv'),
    ]

  def oracle(self, case):
    if not kink_free(case):
      return []
    d = case['dev']
    dev = build.build_leaf(d)
    s = build.arr(case['s']); p = build.price(case['p'])
    g = np().array(dev.deriv(flow_arr(case), p), dtype=float).reshape(-1)
    n = fd_grad(lambda x: dev.cost(x, p), s)
    if g.shape != n.shape:
      return [{'key': {'cls': d['cls'], 'kind': 'shape'}, 'detail': 'deriv has %d entries for %d flow variables' % (g.size, n.size)}]
    bad = np().abs(g - n) > 2e-5*np().maximum(1, np().abs(n))   # nan (skipped) compares False
    if bad.any():
      i = int(np().argmax(bad))
      return [{'key': {'cls': d['cls'], 'kind': 'gradient'},
               'detail': '%s: deriv[%d]=%.8g but d cost/d s[%d]=%.8g (finite difference) at s=%s p=%s' % (d['cls'], i, g[i], i, n[i], case['s'], case['p'])}]
    return []

  def nontrivial(self, case):
    return case['dev']['n'] >= 2 and has_curve(case['dev']) and interior_slot(case)


PROP = C01()
