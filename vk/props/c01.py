"""C01 — marginal cost is the exact gradient of cost."""
from .. import common as C, gen, build
from ..check import Prop, Op
from ..leafcommon import *
from .. import gen_fnx
from fractions import Fraction
from ..common import F, fs, dy
import math

SETTABLE = {'SDevice': ['c1', 'c2', 'c3', 'capacity', 'damage_depth', 'start', 'efficiency', 'sustainment'], 'CDevice': ['a', 'b']}   # TDevice parameters are read-only
P_FNX = 0.25      # share of cases from vk/gen_fnx.py (function classes outside the Lean `Fn` embedding: oracle only)
ND_SHARE = 10     # one dedicated numdifftools-class case (TemporalVariance / CobbDouglas / InformationEntropy) per ND_SHARE cases, appended
ND_GRAD_TOL = 1e-6   # implementation's nd.Jacobian vs the analytic gradient (measured worst 6.6e-12 over 8783 generator cases)


def nd_top(case):
  """'tvar' / 'cobb' / 'entropy' when the preference function of an fnx case IS one of the numerically differentiated classes
  (top level; nested inside sum / reflect / ranges stays finite-difference-oracle only)."""
  k = case['dev']['prm'].get('fx', {}).get('k') if case.get('fnx') else None
  return k if k in gen_fnx.NUMERIC_KINDS else None


def nd_analytic_grad(fx, x):
  """TRANSCRIPTION into Python of the analytic gradients the Lean theorems are about (lean/DK/Model/FnNd.lean `tvarGrad`,
  lean/DK/Lemmas/FnNd.lean `cobbGrad` / `entropyGrad`), proved to be the gradient of the modelled cost by
  DK.C01nd.tvar_grad / DK.C01nd.cobb_grad / DK.C01nd.entropy_grad.  `x`: float vector; price not included."""
  n_ = np(); c = C.pf(fx['c']); x = n_.array(x, dtype=float).reshape(-1)
  if fx['k'] == 'tvar':        # tvarGrad c n r k = c * (k - com r)^2,  com r = (sum i*r_i) / (sum r_i)
    t = n_.arange(x.size); com = (t*x).sum()/x.sum()
    return c*(t - com)**2
  if fx['k'] == 'cobb':        # cobbGrad c a n r k = c * (a_k / sum a) / r_k * prod_i r_i ^ (a_i / sum a)      (all r_i > 0)
    a = n_.array([C.pf(v) for v in fx['a']]); al = a/a.sum()
    return c*al/x*n_.prod(x**al)
  if fx['k'] == 'entropy':     # entropyGrad c n r k = c * sign(r_k) / sum|r| * (log p_k - sum_i p_i log p_i),  p_i = |r_i| / sum|r|   (all r_i != 0)
    T = n_.abs(x).sum(); pr = n_.abs(x)/T
    return c*n_.sign(x)/T*(n_.log(pr) - (pr*n_.log(pr)).sum())
  raise ValueError(fx['k'])


def nd_analytic_cost(fx, x):
  """TRANSCRIPTION of the modelled costs the same theorems differentiate: `tvarCost` (DK/Model/FnNd.lean), `cobbCost` / `entropyCost`
  (DK/Lemmas/FnNd.lean).  Ties "the modelled cost is the implementation's cost" for the two classes without an executable model."""
  n_ = np(); c = C.pf(fx['c']); x = n_.array(x, dtype=float).reshape(-1)
  if fx['k'] == 'tvar':        # c * sum_i (i - com r)^2 * r_i
    t = n_.arange(x.size); com = (t*x).sum()/x.sum()
    return c*sum((t[i] - com)*(t[i] - com)*x[i] for i in range(x.size))
  if fx['k'] == 'cobb':        # c * prod_i r_i ^ (a_i / sum a)
    a = [C.pf(v) for v in fx['a']]; out = 1.0
    for i in range(x.size):
      out *= x[i]**(a[i]/sum(a))
    return c*out
  if fx['k'] == 'entropy':     # c * sum_i (0 if r_i = 0 else p_i log p_i),  p_i = |r_i| / sum|r|
    T = sum(abs(v) for v in x)
    return c*sum(0.0 if v == 0 else abs(v)/T*math.log(abs(v)/T) for v in x)
  raise ValueError(fx['k'])


class C01(Prop):
  id = 'C01'
  lean_module = 'DK.Props.C01all'
  uses_t1 = True
  theorems = {
    'DK.Props.C01': ['DK.C01.partial_of_isGradAt', 'DK.C01.device_grad', 'DK.C01.cdevice_grad', 'DK.C01.idevice2_grad', 'DK.C01.idevice_grad',
                     'DK.C01.idevice_grad_int', 'DK.C01.gdevice_grad', 'DK.C01.cdevice2_grad'],
    'DK.Props.C01b': ['DK.C01b.sdevice_grad', 'DK.C01b.tdevice_grad'],
    'DK.Props.C01c': ['DK.C01c.fn_grad'],
    'DK.Props.C01all': ['DK.C01all.leaf_grad', 'DK.C01all.line_integral_of_grad', 'DK.C01all.idevice2_line_integral'],
  }
  theorems['DK.Props.C01nd'] = ['DK.C01nd.tvar_grad', 'DK.C01nd.adevice_tvar_grad', 'DK.C01nd.tvarGrad_eq', 'DK.C01nd.tvarCost_eq',
                                'DK.C01nd.cobb_grad', 'DK.C01nd.entropy_grad']     # analytic gradients of the numdifftools-based classes
  bridge = ['DK.Bridge.hlq_cost', 'DK.Bridge.hlq_deriv', 'DK.Bridge.abc_cost', 'DK.Bridge.abc_deriv', 'DK.Bridge.abc_q']
  bridge_vec = ['DK.BridgeVec.Device_cost', 'DK.BridgeVec.Device_deriv', 'DK.BridgeVec.CDevice_cost', 'DK.BridgeVec.CDevice_deriv',
                'DK.BridgeVec.IDevice2_cost', 'DK.BridgeVec.IDevice2_deriv', 'DK.BridgeVec.IDevice_cost',
                'DK.BridgeVec.IDevice_deriv', 'DK.BridgeVec.HLQuadraticCost_call', 'DK.BridgeVec.HLQuadraticCost_deriv',
                'DK.BridgeVec.ABCCost_call', 'DK.BridgeVec.ABCCost_deriv', 'DK.BridgeVec.SDevice_flip_cost_at',
                'DK.BridgeVec.SDevice_deep_damage_at', 'DK.BridgeVec.SDevice_deep_damage_at_deriv',
                'DK.BridgeVec.SDevice_charge_costs', 'DK.BridgeVec.SDevice_charge_costs_deriv', 'DK.BridgeVec.SDevice_cost',
                'DK.BridgeVec.SDevice_deriv', 'DK.BridgeVec.TDevice_costv_t', 'DK.BridgeVec.TDevice_deriv_t',
                'DK.BridgeVec.TDevice_cost', 'DK.BridgeVec.TDevice_deriv', 'DK.BridgeVec.NullFunction_call',
                'DK.BridgeVec.NullFunction_deriv', 'DK.BridgeVec.ReflectedFunction_call', 'DK.BridgeVec.ReflectedFunction_deriv',
                'DK.BridgeVec.InnerSumFunction_call', 'DK.BridgeVec.InnerSumFunction_deriv',
                'DK.BridgeVec.GDevice_cost',
                'DK.BridgeVec.GDevice_deriv',
                'DK.BridgeVec.CDevice2_cost',
                'DK.BridgeVec.CDevice2_deriv',
                'DK.BridgeVec.Poly2D_vector',
                'DK.BridgeVec.Poly2D_call',
                'DK.BridgeVec.Poly2DOffset_vector',
                'DK.BridgeVec.Poly2DOffset_call']      # T1v: vector method bodies (vk/translate_vec.py, DK/Lemmas/BridgeVec.lean)
  bridge = bridge + bridge_vec
  rule = ('random leaf of every shipped class x horizon n (1..8 quick plus 5 % from {12,16,24,25,31,48}; ..60 thorough; 25 % of prices, interior flows and cost parameters are non-dyadic decimals) x bounds with zero-width slots x '
          'scalar/vector parameters x in-bounds flow (interior / on bounds / mixed) x scalar/vector price; non-trivial: n >= 2, '
          'a flow strictly inside a non-zero-width slot and a non-zero curve parameter; plus (oracle only) ADevice over the function classes outside the '
          'Lean embedding: X2D of mixed scalar functions, Poly1D, InnerSumFunction variants, real-exponent ABCCost, numdifftools-based classes, '
          'empty / single SumFunction')
  sizes = {'quick': 400, 'thorough': 8000}
  assumptions = ['oracle: central finite differences (h=1e-5) of the implementation cost, away from kinks']
  rule = rule + ('; plus 1 in %d: ADevice(f = TemporalVariance | CobbDouglas | InformationEntropy) on a strictly positive box (entropy: also '
                 'mixed-sign boxes), n 1..8 - TemporalVariance tied by T2 to the exact rational model (fnnd.*), the other two by the transcription oracle' % ND_SHARE)
  assumptions = assumptions + [
    'T2 fnnd.deriv (ADevice(f=TemporalVariance(c)), strictly positive box): the implementation\'s NUMERIC deriv (nd.Jacobian) vs the model\'s ANALYTIC '
    'gradient tvarGrad + p (DK.C01nd.tvar_grad / adevice_tvar_grad) at 1e-6 relative; measured numdifftools deviation on 8783 generator cases: '
    'worst 6.6e-12 (>= 10^5 margin); fnnd.dcost (cost difference from the lower-bound flow) at 1e-9; a ZeroDivisionError inside numdifftools '
    '(probe through a zero total flow: open C14 finding) is skipped, not compared',
    'oracle (CobbDouglas, InformationEntropy, TemporalVariance at top level): numeric deriv vs a Python TRANSCRIPTION of the Lean formulas cobbGrad / '
    'entropyGrad / tvarGrad (theorems DK.C01nd.cobb_grad: all r_i > 0, sum a != 0; DK.C01nd.entropy_grad: all r_i != 0, either sign; '
    'DK.C01nd.tvar_grad: sum r != 0) at 1e-6 relative, flows more than 1/4 away from 0; the transcription itself is trusted (checked against '
    'finite differences of the implementation cost: worst 1e-10 / 7e-11 / 5e-9 on 400 random cases each)']

  def __init__(self):
    self.stat = {}

  def bump(self, k):
    self.stat[k] = self.stat.get(k, 0) + 1

  def extra_evidence(self):
    return {'oracle_only_function_kinds': dict(self.stat)}

  def cases(self, rng, tier, count):
    out = []
    for _ in range(count):
      if rng.random() < P_FNX:
        out.append(self.fnx_case(rng, tier))
      else:
        case = leaf_case(rng, tier)
        dd = case['dev']
        if dd['cls'] == 'GDevice' and rng.random() < 0.4:      # degree 4-5, signed lower-order coefficients (the cost may go negative)
          dd['prm']['cost_coeffs'] = gen_fnx.rich_coeffs(rng, dd['n'], [F(x) for x in dd['lb']], [F(x) for x in dd['hb']])
        if dd['cls'] == 'CDevice2' and rng.random() < 0.3:     # 4-5 contiguous cumulative ranges
          gen_fnx.wide_cbounds(rng, dd)
        if rng.random() < ((0.8 if gen.fn_has(dd['prm']['f'], 'demand') else 0.5) if dd['cls'] == 'ADevice' else 0.2):
          make_ints(rng, case)        # integer-typed flows
        cls = case['dev']['cls']
        if cls in SETTABLE and rng.random() < 0.3:
          # the device is BUILT with another value of one scalar parameter, asked for its gradient once, then the parameter is
          # assigned through its public setter: cost and deriv must then describe the NEW value (model: the final description)
          k = rng.choice(SETTABLE[cls])
          v0 = gen.gen_leaf(rng, tier, [cls], n=case['dev']['n'])['prm'].get(k)
          if v0 is not None and not isinstance(v0, list) and v0 != case['dev']['prm'].get(k):
            case['set0'] = {k: v0}
        out.append(case)
    for _ in range(count // ND_SHARE):
      out.append(self.nd_case(rng, tier))
    return out

  def nd_case(self, rng, tier):
    """ADevice whose preference function IS TemporalVariance / CobbDouglas / InformationEntropy (top level) on a strictly positive box
    (entropy: half of them with slots of either sign, |r| >= 1/2): TemporalVariance gets T2 ops against the exact rational model
    (`fnnd.*`), all three the transcription oracle of the analytic gradient, plus the finite-difference oracle every fnx case has."""
    n = rng.choice([9, 12]) if rng.random() < 0.25 else rng.randint(1, 8)      # nothing bounds the horizon of these classes either
    kind = rng.choice(['tvar', 'tvar', 'cobb', 'entropy'])
    lb = [dy(rng, Fraction(1, 2), 2) for _ in range(n)]; hb = [a + dy(rng, 0, 3) for a in lb]
    if kind == 'entropy' and rng.random() < 0.5:
      for i in range(n):
        if rng.random() < 0.5:
          lb[i], hb[i] = -hb[i], -lb[i]
    fx = {'k': kind, 'c': fs(dy(rng, Fraction(1, 4), 2))}
    if kind == 'cobb':
      fx['a'] = [fs(dy(rng, Fraction(1, 4), 3)) for _ in range(n)]
    same = len(set(lb)) == 1 and len(set(hb)) == 1
    d = {'cls': 'ADevice', 'n': n, 'lb': [fs(x) for x in lb], 'hb': [fs(x) for x in hb], 'cbs': [], 'prm': {'fx': fx},
         '_py': {'bform': rng.choice((['pair'] if n != 2 else []) + ['table'] + (['scalar'] if same else [])), 'cform': None}}
    s = gen.gen_flow(rng, lb, hb, rng.choice(['interior', 'interior', 'mixed']))
    return {'dev': d, 's': [fs(x) for x in s], 'p': gen.gen_price(rng, n), '_shape': rng.choice(['flat', 'flat', 'row']), 'fnx': True, 'nd': kind}

  def nd_ops(self, case):
    """T2 for ADevice(f = TemporalVariance(c)): cost difference vs the exact model at 1e-9; the implementation's NUMERIC marginal cost
    (nd.Jacobian) vs the model's ANALYTIC gradient (tvarGrad + p, DK.C01nd.adevice_tvar_grad) at ND_GRAD_TOL."""
    d = case['dev']; fx = d['prm']['fx']
    if not all(F(x) > 0 for x in d['lb']) or not gen_fnx.kink_free(fx, [F(x) for x in case['s']]):
      self.bump('fnnd: not on a strictly positive box / within 1/4 of zero (not compared)')
      return []
    dev = gen_fnx.build_adevice(d)
    s = flow_arr(case); p = build.price(case['p'])
    a0 = flow_arr(case, d['lb'])
    try:
      g = dev.deriv(s, p)
    except ZeroDivisionError:
      self.bump('fnnd: numdifftools probed through a zero total flow (open C14 finding): skipped')
      return []
    self.bump('fnnd: TemporalVariance numeric deriv vs analytic model compared')
    base = {'f': fx, 'n': d['n'], 's': case['s'], 'p': case['p']}
    return [
      Op(dict(base, op='fnnd.dcost', s0=d['lb']), lambda: dev.cost(s, p) - dev.cost(a0, p), 1e-9, 'cost difference (TemporalVariance)'),
      Op(dict(base, op='fnnd.deriv'), lambda: g, ND_GRAD_TOL, 'numeric deriv vs analytic gradient (TemporalVariance)'),
    ]

  def nd_oracle(self, case, g, p, tag):
    """implementation's numeric deriv vs the TRANSCRIPTION (`nd_analytic_grad`) of the gradients of DK.C01nd.tvar_grad / cobb_grad /
    entropy_grad (+ price).  Called after the finite-difference oracle, on kink-free flows only."""
    fx = case['dev']['prm']['fx']; kind = nd_top(case)
    s = build.arr(case['s']).astype(float).reshape(-1)
    if kind == 'cobb' and not (s > 0).all():
      return []
    dev = gen_fnx.build_adevice(case['dev'])
    cm = nd_analytic_cost(fx, s) + float((s*np().array(p, dtype=float)).sum()); ci = float(dev.cost(s, p))
    if not abs(ci - cm) <= 1e-9*max(1.0, abs(cm)):
      return [{'key': {'cls': 'ADevice', 'kind': 'cost-analytic', 'fn': tag},
               'detail': 'ADevice(%s): cost=%.12g but the modelled cost (transcribed %sCost + s.p) is %.12g at s=%s p=%s prm=%s' % (tag, ci, kind, cm, case['s'], case['p'], fx)}]
    a = nd_analytic_grad(fx, s) + np().array(p, dtype=float)
    self.bump('transcription oracle: %s numeric deriv vs analytic formula' % kind)
    bad = ~(np().abs(g - a) <= ND_GRAD_TOL*np().maximum(1, np().abs(a)))
    if bad.any():
      i = int(np().argmax(bad))
      thm = {'tvar': 'DK.C01nd.tvar_grad', 'cobb': 'DK.C01nd.cobb_grad', 'entropy': 'DK.C01nd.entropy_grad'}[kind]
      return [{'key': {'cls': 'ADevice', 'kind': 'gradient-analytic', 'fn': tag},
               'detail': 'ADevice(%s): deriv[%d]=%.10g but the analytic gradient (%s, transcribed) is %.10g at s=%s p=%s prm=%s'
                         % (tag, i, g[i], thm, a[i], case['s'], case['p'], fx)}]
    return []

  @staticmethod
  def dev_of(case):
    """the Python object of a leaf case; with `set0`: built with the OTHER value, warmed by one deriv call, then re-assigned.
    A ValueError on the way (the other value is not accepted together with the rest) falls back to the plain construction."""
    d = case['dev']
    if case.get('set0'):
      d0 = dict(d); d0['prm'] = dict(d['prm']); d0['prm'].update(case['set0'])
      try:
        dev = build.build_leaf(d0)
        dev.deriv(build.arr(case['s']).astype(float), 0)
        for k in case['set0']:
          setattr(dev, k, C.pf(d['prm'][k]))
        return dev
      except ValueError:
        pass
    return build.build_leaf(d)

  def fnx_case(self, rng, tier):
    """ADevice over the function classes the Lean `Fn` has no constructor for (X2D of mixed scalar functions, Poly1D,
    InnerSumFunction variants, real-exponent ABCCost, the numdifftools-based classes, empty / single SumFunction):
    ORACLE ONLY (finite differences of the implementation's own cost), no T2 op."""
    n = rng.randint(1, 5) if rng.random() < 0.6 else gen.pick_n(rng, tier, 8 if tier == 'quick' else 12)
    if rng.random() < 0.5:       # strictly positive box: entropy / temporal variance / Cobb-Douglas are defined there
      lb = [dy(rng, Fraction(1, 2), 2) for _ in range(n)]; hb = [a + dy(rng, 0, 3) for a in lb]
    else:
      lb, hb = gen.gen_bounds(rng, n, sign=rng.choice([None, '+', '-']))
    d = gen_fnx.fnx_case_dev(rng, n, lb, hb, n <= 4)
    s = gen.gen_flow(rng, lb, hb, rng.choice(['interior', 'interior', 'mixed']))
    return {'dev': d, 's': [fs(x) for x in s], 'p': gen.gen_price(rng, n), '_shape': rng.choice(['flat', 'flat', 'row']), 'fnx': True}

  def ops(self, case):
    d = case['dev']
    if nd_top(case) == 'tvar':
      return self.nd_ops(case)      # TemporalVariance has an exact rational model (lean/DK/Model/FnNd.lean)
    if case.get('fnx'):
      return []          # no model side
    dev = self.dev_of(case)
    s = flow_arr(case); p = build.price(case['p'])
    s0 = gen.leaf_flow(__import__('random').Random(len(case['s'])), d, 'mixed')
    a0 = flow_arr(case, s0)
    return [
      Op({'op': 'leaf.dcost', 'dev': d, 's': case['s'], 's0': s0, 'p': case['p']}, lambda: dev.cost(s, p) - dev.cost(a0, p), 1e-9, 'cost difference'),
      Op({'op': 'leaf.deriv', 'dev': d, 's': case['s'], 'p': case['p']}, lambda: dev.deriv(s, p), 1e-9, 'deriv'),
    ]

  def oracle(self, case):
    d = case['dev']
    if case.get('fnx'):
      fx = d['prm']['fx']
      for k in gen_fnx.kinds(fx):
        self.bump('fnx kind ' + k)
      if not gen_fnx.kink_free(fx, [F(x) for x in case['s']]):
        return []
      dev = gen_fnx.build_adevice(d)
      s = build.arr(case['s']).astype(float); p = build.price(case['p'])
      tag = '+'.join(sorted(gen_fnx.kinds(fx)))
      bs = gen_fnx.exponents(fx)
      try:
        g = np().array(dev.deriv(flow_arr(case), p), dtype=float).reshape(-1)
      except ZeroDivisionError:
        if 'tvar' in gen_fnx.kinds(fx) or any(b < 1 for b in bs):
          self.bump('singular point (tvar zero sum / exponent < 1 at q = 0): skipped')
          return []        # TemporalVariance probes through a zero normalising sum (open C14 finding); q^(b-1) at q = 0 with b < 1
        raise
      except Exception as ex:
        return [{'key': {'cls': 'ADevice', 'kind': 'deriv-raises', 'exc': type(ex).__name__, 'fn': tag},
                 'detail': 'ADevice(%s).deriv raised %s: %s at the in-bounds flow s=%s' % (tag, type(ex).__name__, str(ex)[:80], case['s'])}]
      try:
        num = fd_grad(lambda x: dev.cost(x, p), s)
      except Exception:
        # the finite-difference stencil leaves the box (a flow on its bound): q < 0 under a real exponent is outside the cost's domain
        self.bump('finite-difference stencil left the domain of the cost: skipped')
        return []
      if g.shape != num.shape:
        return [{'key': {'cls': 'ADevice', 'kind': 'shape', 'fn': tag}, 'detail': 'ADevice(%s): deriv has %d entries for %d flow variables' % (tag, g.size, num.size)}]
      tol = 2e-4 if gen_fnx.numeric(fx) else 2e-5
      bad = np().abs(g - num) > tol*np().maximum(1, np().abs(num))
      if bad.any():
        i = int(np().argmax(bad))
        return [{'key': {'cls': 'ADevice', 'kind': 'gradient', 'fn': tag},
                 'detail': 'ADevice(%s): deriv[%d]=%.8g but d cost/d s[%d]=%.8g (finite difference) at s=%s p=%s' % (tag, i, g[i], i, num[i], case['s'], case['p'])}]
      if nd_top(case):
        return self.nd_oracle(case, g, p, tag)
      return []
    if case.get('_ints'):
      # the same flow as integer-typed and as float data must give the same cost and marginal cost (no kink argument needed)
      dv = self.dev_of(case); p_ = build.price(case['p'])
      fi = flow_arr(case); ff = np().array(fi, dtype=float)
      gi = np().array(dv.deriv(fi, p_), dtype=float).reshape(-1); gf = np().array(dv.deriv(ff, p_), dtype=float).reshape(-1)
      ci = float(dv.cost(fi, p_)); cf = float(dv.cost(ff, p_))
      self.bump('integer-typed flow vs the same flow as float')
      if gi.shape != gf.shape or not np().allclose(gi, gf, rtol=1e-9, atol=1e-9, equal_nan=True) or abs(ci - cf) > 1e-9*max(1, abs(cf)):
        return [{'key': {'cls': d['cls'], 'kind': 'int-flow'},
                 'detail': '%s: on the integer-typed flow %s deriv=%s cost=%.10g, on the same flow as float deriv=%s cost=%.10g (p=%s)'
                           % (d['cls'], case['s'], gi.tolist(), ci, gf.tolist(), cf, case['p'])}]
    if not kink_free(case):
      return []
    dev = self.dev_of(case)
    if case.get('set0'):
      self.bump('built with another value, deriv, then setter')
    s = build.arr(case['s']); p = build.price(case['p'])
    g = np().array(dev.deriv(flow_arr(case), p), dtype=float).reshape(-1)
    n = fd_grad(lambda x: dev.cost(x, p), s)
    if g.shape != n.shape:
      return [{'key': {'cls': d['cls'], 'kind': 'shape'}, 'detail': 'deriv has %d entries for %d flow variables' % (g.size, n.size)}]
    bad = np().abs(g - n) > 2e-5*np().maximum(1, np().abs(n))   # nan (skipped) compares False
    if bad.any():
      i = int(np().argmax(bad))
      return [{'key': {'cls': d['cls'], 'kind': 'gradient'},
               'detail': '%s: deriv[%d]=%.8g but d cost/d s[%d]=%.8g (finite difference) at s=%s p=%s%s' % (d['cls'], i, g[i], i, n[i], case['s'], case['p'],
                         (' [device built with %s, deriv called once, then %s assigned through the setter]' % (case['set0'], {k: d['prm'][k] for k in case['set0']})) if case.get('set0') else '')}]
    return []

  def nontrivial(self, case):
    if case.get('fnx'):
      return case['dev']['n'] >= 2
    return case['dev']['n'] >= 2 and has_curve(case['dev']) and interior_slot(case)


PROP = C01()
