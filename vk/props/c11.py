"""C11 — Validation: ill-formed settings rejected, accepted ones reported faithfully.

T2 (model <-> implementation) and the oracle (documented grammar, written here independently of the model)
are BOUNDED-EXHAUSTIVE, as the property asks:

  bounds      every bounds form and malformed variant over the alphabet {-1, 0, 1, 2, None}:
              top-level length 0..n+1, every element a scalar or a vector of length 0..n+1, list / tuple /
              ndarray containers, n in 1..3 (quick) / 1..5 (thorough); see `enum_bounds` for the exact sets
              (where the full product does not fit the budget the *value* alphabet is reduced, never the shapes).
  cbounds     None / 2-tuple / lists of items of arity 0..5, l<h, l=h, l>h, attainable or not, ranges inside /
              outside / reversed / negative, multi-item lists with a bad item in each position.
  parameters  every scalar parameter of every class at each validator threshold and both dyadic neighbours
              (t - 2^-10, t, t + 2^-10), scalar and vector forms, wrong lengths, both keyword orders,
              assignment after construction, histories of accepted and rejected assignments.
  set level   DeviceSet (lengths, id, sbounds), MFDeviceSet, TwoRatioMFDeviceSet, TDevice constructor checks.

What is compared: accept / reject, the exception TYPE, and the normalised table / the stored settings.
"""
import itertools, json, copy, math, os
from fractions import Fraction
from .. import common as C
from ..check import Prop, Op
from .. import translate_validators as TV

B = 32                     # inputs per batch (one case = one batch; a replay re-runs at most B inputs)
NAN = float('nan')
ALPHA = ['-1', '0', '1', '2', None]
CODES = {'ok': 0, 'ValueError': 1, 'TypeError': 2, 'IndexError': 3}
CLASSES = ['Device', 'CDevice', 'CDevice2', 'IDevice', 'IDevice2', 'GDevice', 'PVDevice', 'SDevice', 'ADevice']
GEN_CLASSES = ('GDevice', 'PVDevice')
OWNS = {
  'SDevice': ['c1', 'c2', 'c3', 'capacity', 'damage_depth', 'start', 'reserve', 'efficiency', 'sustainment', 'rate_clip'],
  'IDevice': ['a', 'b', 'c'], 'IDevice2': ['p_l', 'p_h'], 'CDevice2': ['p_l', 'p_h'], 'CDevice': ['a', 'b'],
  'GDevice': ['cost_coeffs'], 'Device': [], 'PVDevice': [], 'ADevice': [],
}
D = Fraction(1, 1024)      # the dyadic neighbour distance


def np():
  import numpy
  return numpy


def dk():
  return C.repo()


# ---------------------------------------------------------------- descriptions -> python objects
def num(s):
  f = Fraction(s)
  return int(f) if f.denominator == 1 else float(f)


def has_none(j):
  if j is None:
    return True
  if isinstance(j, dict):
    return any(has_none(x) for x in list(j.values())[0])
  return False


def to_py(j):
  """PyVal description -> the Python object handed to the library."""
  if j is None:
    return None
  if isinstance(j, str):
    return num(j)
  (k, xs), = [(k, v) for k, v in j.items() if not k.startswith('_')]
  ys = [to_py(x) for x in xs]
  if k == 'l':
    return ys
  if k == 't':
    return tuple(ys)
  return np().array(ys, dtype=object) if has_none(j) else np().array(ys)


def L(*xs): return {'l': list(xs)}
def T(*xs): return {'t': list(xs)}
def A(*xs): return {'a': list(xs)}


def rekind(j, top, inner):
  """same values, other container kinds (ndarray only where numpy can hold the value as a regular array)."""
  if not isinstance(j, dict):
    return j
  xs = list(j.values())[0]
  ys = [({inner: list(x.values())[0]} if isinstance(x, dict) else x) for x in xs]
  if top == 'a' or inner == 'a':
    lens = [len(list(y.values())[0]) if isinstance(y, dict) else None for y in ys]
    rect = all(l is None for l in lens) or (all(l is not None for l in lens) and len(set(lens)) == 1)
    if top == 'a' and not rect:
      return None
    if top == 'a' and lens and lens[0] is not None and inner != 'a':
      return None                                     # rows of a 2-D ndarray are ndarrays
  return {top: ys}


def spec_py(j):
  """cbounds description -> python."""
  if j is None:
    return None
  if isinstance(j, str):
    return num(j)
  if 'p' in j:
    v = [num(x) for x in j['p']]
    return v if j.get('_list') else tuple(v)
  out = []
  for it in j['i']:
    if isinstance(it, list):
      out.append(tuple(int(Fraction(x)) if k >= 2 else num(x) for k, x in enumerate(it)))
    else:
      out.append(num(it))
  return out


def val_py(v, n):
  """keyword / assignment value description -> python."""
  if v is None:
    return None
  if isinstance(v, str):
    return num(v)
  if isinstance(v, list):
    return [num(x) for x in v]
  if 'op' in v:
    return tuple(None if x is None else num(x) for x in v['op'])
  if 'nd' in v:
    if v['nd'] == 2:
      rows = v.get('rows', n)
      # (non-integer coefficients: a coercion to int must show in the reported values)
      return [[0.5 + i, 1.5, 0] for i in range(rows)] if not v.get('_alt') else [[2.25, 0.75 + i, 0] for i in range(rows)]
    return {0: 5, 1: [0.5, 1.5, 0] if not v.get('_alt') else [3.25, 2.5, 0], 3: [[[1]]]}[v['nd']]
  if 'b' in v:
    return to_py(v['b'])
  if 'cb' in v:
    return spec_py(v['cb'])
  raise ValueError('bad value ' + repr(v))


def code_of(e):
  if isinstance(e, ValueError): return 1          # numpy's AxisError is a ValueError too
  if isinstance(e, TypeError): return 2
  if isinstance(e, IndexError): return 3
  return 4


def fnum(x):
  return NAN if x is None else float(x)


def stub(n):
  d = dk().Device.__new__(dk().Device)
  d._length = n
  return d


# ---------------------------------------------------------------- running the implementation
def run_bounds(level, n, py):
  """('ok', width, [(lo, hi)...]) or ('err', exception)."""
  try:
    if level == 'raw':
      arr = np().array(stub(n).validate_bounds(py))
      return ('ok', int(arr.shape[1]), [(arr[i, 0], arr[i, 1]) for i in range(arr.shape[0])])
    cls = dk().PVDevice if level == 'gen' else dk().Device
    d = cls('d', n, py)
    lo, hi = d.lbounds, d.hbounds
    return ('ok', int(np().array(d.bounds).shape[1]), [(lo[i], hi[i]) for i in range(len(lo))])
  except Exception as e:
    return ('err', e)


def enc_bounds(res, n):
  if res[0] == 'err':
    return [code_of(res[1]), 0] + [0.0]*(2*n)
  out = [0, res[1]]
  for i in range(n):
    if i < len(res[2]):
      out += [fnum(res[2][i][0]), fnum(res[2][i][1])]
    else:
      out += [0.0, 0.0]
  return out


def enc_cbounds(cb):
  xs = list(cb or [])
  out = [1 if cb is None else 0, len(xs)]
  for i in range(3):
    if i < len(xs) and hasattr(xs[i], '__len__') and len(xs[i]) == 4:
      out += [float(xs[i][0]), float(xs[i][1]), float(xs[i][2]), float(xs[i][3])]
    else:
      out += [0.0]*4
  return out


def enc_pval(p, n):
  a = np().array(p, dtype=float)
  if a.ndim == 0:
    return [0] + [float(a)]*n
  return [1] + [float(a[i]) if i < a.size else 0.0 for i in range(n)]


def dump_dev(dev, cls, n, n_extra):
  """mirror of DK.Driver.dumpDev."""
  lo, hi = dev.lbounds, dev.hbounds
  out = []
  for i in range(n):
    out += [fnum(lo[i]), fnum(hi[i])]
  out += enc_cbounds(dev.cbounds)
  if cls == 'SDevice':
    out += [float(getattr(dev, k)) for k in ('c1', 'c2', 'c3', 'capacity', 'damage_depth', 'start', 'reserve', 'efficiency', 'sustainment')]
    out += [fnum(dev.rate_clip[0]), fnum(dev.rate_clip[1])]
  elif cls == 'IDevice':
    out += enc_pval(dev.a, n) + enc_pval(dev.b, n) + enc_pval(dev.c, n)
  elif cls in ('IDevice2', 'CDevice2'):
    out += enc_pval(dev.p_l, n) + enc_pval(dev.p_h, n)
  elif cls == 'CDevice':
    out += [float(dev.a), float(dev.b)]
  elif cls == 'GDevice':
    out += [0 if dev.cost_coeffs is None else int(np().array(dev.cost_coeffs).ndim)]
  return out + [n_extra]


def build(case):
  """construct the device of a `ctor` case (raises what the library raises)."""
  cls, n = case['cls'], case['n']
  kw = {k: val_py(v, n) for k, v in case['kw']}
  return getattr(dk(), cls)('d', n, to_py(case['b']), spec_py(case['cb']), **kw)


def run_ctor(case):
  cls, n = case['cls'], case['n']
  try:
    dev = build(case)
  except Exception as e:
    return [code_of(e)]
  codes = [0]
  for k, v in case.get('sets', []):
    try:
      setattr(dev, k, val_py(v, n))
      codes.append(0)
    except Exception as e:
      codes.append(code_of(e))
  extra = sum(1 for k, _ in case['kw'] + case.get('sets', []) if k not in OWNS[cls] + ['bounds', 'cbounds'])
  return codes + dump_dev(dev, cls, n, extra)


def table_of(lb, hb):
  """an (n, 2) table (the one form that means the same at every n)."""
  return np().array([[C.pf(a), C.pf(b)] for a, b in zip(lb, hb)])


def mk_devices(lens):
  return [dk().Device('d%d' % i, l, (0, 1)) for i, l in enumerate(lens)]


def doc_id_ok(ident):
  """the documented DeviceSet id pattern '^[a-z0-9][a-z0-9_-]*$' (case-insensitive), spelt out without `re`."""
  if not isinstance(ident, str):
    return None
  alnum = 'abcdefghijklmnopqrstuvwxyzABCDEFGHIJKLMNOPQRSTUVWXYZ0123456789'
  return len(ident) >= 1 and ident[0] in alnum and all(ch in alnum + '_-' for ch in ident[1:])


SET_IDS = ['set1', 'bad id', 7, 'a.b', 'a+b', 'Ab-C_9', 'A', '9', '-a', '_a', '', 'a/b', 'a(1)', 'a[0]', 'x.', 'a b', ' a', 'home.kitchen']


def set_id(case):
  return case['id'] if 'id' in case else {True: 'set1', False: 'bad id', None: 7}[case['idok']]


def run_set(case):
  k = case['kind']
  n_ = np()
  if k == 'deviceset':
    nmax = case['nmax']
    ident = set_id(case)
    try:
      ds = dk().DeviceSet(ident, mk_devices(case['lens']), None if case.get('sb') is None else to_py(case['sb']))
    except Exception as e:
      return [code_of(e), 0] + [0.0]*(2*nmax)
    if ds.sbounds is None:
      return [0, 1] + [0.0]*(2*nmax)
    sb = n_.array(ds.sbounds)
    out = [0, 0]
    for i in range(nmax):
      out += [fnum(sb[i, 0]), fnum(sb[i, 1])] if i < sb.shape[0] else [0.0, 0.0]
    return out
  if k in ('mf', 'tworatio'):
    n = case['n']
    dev = dk().Device('w', n, table_of(case['lb'], case['hb']))
    flows = ['f%d' % i for i in range(case['nflows'])]
    try:
      if k == 'mf':
        dk().MFDeviceSet(dev, flows)
      else:
        ratios = None if case.get('rlen') is None else [1]*case['rlen']
        dk().TwoRatioMFDeviceSet(dev, flows, ratios, 'eq' if case['ctok'] else 'le')
      return [0]
    except Exception as e:
      return [code_of(e)]
  if k == 'tdevice':
    n = case['n']
    try:
      dev = build_tdevice(case)
    except Exception as e:
      return [code_of(e)]
    return [0] + dump_tdevice(dev, n)
  raise ValueError(k)


def build_tdevice(case):
  n = case['n']
  return dk().TDevice('t', n, to_py(case['b']), num(case['sustainment']), num(case['efficiency']), num(case['t_init']), num(case['t_optimal']),
                      num(case['t_range']), [float(Fraction(x)) for x in case['t_external']], c=val_py(case['c'], n), cbounds=spec_py(case['cb']))   # floats: an int-typed negative t_external dies in numpy's int ** negative int


def dump_tdevice(dev, n):
  """mirror of the `tdevice` branch of DK.Driver.Validate.validateOp: everything a TDevice reports."""
  lo, hi = dev.lbounds, dev.hbounds
  out = []
  for i in range(n):
    out += [fnum(lo[i]), fnum(hi[i])]
  out += enc_cbounds(dev.cbounds)
  out += [float(dev.sustainment), float(dev.efficiency), float(dev.t_init), float(dev.t_optimal), float(dev.t_range)]
  te = list(dev.t_external)
  out += [float(te[i]) if i < len(te) else 0.0 for i in range(n)]
  return out + enc_pval(dev.c, n)


# ---------------------------------------------------------------- enumeration
def vectors(k, alpha):
  return [L(*t) for t in itertools.product(alpha, repeat=k)]


def enum_bounds(n, tier):
  """the bounded-exhaustive set of bounds specifications for horizon n (list containers)."""
  out = []
  full = ALPHA
  if tier == 'thorough':
    plan = {1: (full, full), 2: (full, full), 3: (full, ['-1', '0', '1', None]), 4: (['0', '1', None], ['0', None]),
            5: (['0', '1', None], ['0', None])}
  else:
    plan = {1: (full, full), 2: (full, full), 3: (['-1', '0', '1', None], ['0', None])}
  a_n, a_o = plan[n]
  # E1: 1- and 2-sequences of (scalar | vector of length 0..n+1)
  elems = list(full)
  for k in range(0, n + 2):
    elems += vectors(k, a_n if k == n or (n <= 2 and k == 2) else a_o)
  for a in elems:
    out.append(L(a))
  for a in elems:
    for b in elems:
      out.append(L(a, b))
  # E2: (n, 2) tables, n >= 3 (n <= 2 is inside E1), every entry from the alphabet; then one malformed row
  if n >= 3:
    a_t = {3: full if tier == 'thorough' else ['0', '1', None], 4: ['-1', '0', '1', None], 5: ['0', '1', None]}[n]
    rows = [L(x, y) for x in a_t for y in a_t]
    if len(rows)**n <= 400000:
      for t in itertools.product(rows, repeat=n):
        out.append(L(*t))
    else:
      rows = [L(x, y) for x in ['0', '1', None] for y in ['0', '1', None]]
      for t in itertools.product(rows, repeat=n):
        out.append(L(*t))
    base = [L('0', '1')]*n
    for i in range(n):
      for bad in ['0', None, L(), L('0'), L('0', '1', '2'), L(None, None), L('1', '0'), L('0', None)]:
        t = list(base); t[i] = bad
        out.append(L(*t))
  # E3: every top-level length 0..n+1 over a coarse element set (the lengths that are neither 1, 2 nor n are rejected whatever they hold)
  coarse = ['0', None, L(), L('0'), L('0', '1'), L('1', '0')] + ([L(*['0']*n)] if n > 2 else []) + [L(*['0']*(n + 1))]
  while len(coarse)**(n + 1) > 60000:
    coarse = coarse[:-1]
  for k in range(0, n + 2):
    for t in itertools.product(coarse, repeat=k):
      out.append(L(*t))
  out += ['0', None]                                   # not a sequence at all
  return out


def kinds_bounds(n):
  """container kinds: every (top, inner) in {list, tuple, ndarray}^2 over base forms and their single faults."""
  base = [L('0', '1'), L('-1', '0'), L('1', '0'), L(L(*['0']*n), L(*['1']*n)), L(L(*['0']*n), '1'), L('0', L(*['1']*n)),
          L(L(*['0']*n)), L(*[L('0', '1')]*n), L(*[L('1', '0')]*n), L(*[L(None, None)]*n), L(L(*[None]*n), L(*[None]*n)),
          L(L(*['0']*(n + 1)), L(*['1']*(n + 1))), L(L(*['0']*(n + 1))), L(L('0'), L('1')), L(L(), L()), L(None), L(None, '1'),
          L('0', '1', '2'), L(), L(L(*['0']*n), L(*['1']*(n + 1))), L(*[L('0', '1')]*(n + 1)), L(*[L('0', '1', '2')]*n)]
  out = []
  for j in base:
    for top in 'lta':
      for inner in 'lta':
        r = rekind(j, top, inner)
        if r is not None:
          out.append(r)
  return out


def enum_cbounds(n):
  vals = ['-1', '0', '1/2', '1', str(n), str(n + 1)]
  specs = [None, '5']
  for l in vals:
    for h in vals:
      specs.append({'p': [l, h]})
      specs.append({'p': [l, h], '_list': True})
  idx = [str(i) for i in range(-2, n + 3)]
  for l in ['-1', '0', '1/2', str(n)]:
    for h in ['0', '1/2', '1', str(n), str(n + 1)]:
      for s in idx:
        for e in idx:
          specs.append({'i': [[l, h, s, e]]})
  good, bad_lh, unatt = ['0', '1', '0', str(n)], ['1', '1', '0', str(n)], [str(n + 1), str(n + 2), '0', str(n)]
  for ar in range(0, 6):
    specs.append({'i': [(['0', '1', '0', str(n), '7'])[:ar]]})
  specs += [{'i': []}, {'i': ['5']}, {'i': ['0', '1', '0', str(n)]}]
  for combo in itertools.product([good, bad_lh, unatt, ['0', '1', '0'], '5'], repeat=2):
    specs.append({'i': list(combo)})
  specs.append({'i': [good, good, good]})
  specs.append({'i': [good, good, unatt]})
  return specs


EPS = Fraction(1, 2**30)   # a neighbour below 1e-6 (exact in binary floating point next to every threshold used here)
EPS2 = Fraction(1, 2**43)  # ~1.1e-13: below any 1e-12 slack; |t| <= 2 keeps t +- 2^-43 exact in a double


def thr(t, both=True):
  t = Fraction(t)
  return [C.fs(t - D), C.fs(t - EPS), C.fs(t - EPS2), C.fs(t), C.fs(t + EPS2), C.fs(t + EPS), C.fs(t + D)]


def fine_bounds(n):
  """low/high pairs that differ by less than 1e-6: `low = high + 2^-30` must be rejected, `low = high - 2^-30` accepted."""
  out = []
  for x in (Fraction(0), Fraction(1), Fraction(-1)):
    for d in (EPS, -EPS, EPS2, -EPS2, Fraction(0)):
      lo, hi = C.fs(x + d), C.fs(x)
      out += [T(lo, hi), L(L(*[lo]*n), L(*[hi]*n)), L(*[L(lo, hi)]*n), L(L(*[lo]*n), hi), L(lo, L(*[hi]*n))]
      for i in range(n):
        v = [hi]*n; v[i] = lo
        out += [L(L(*v), L(*[hi]*n)), L(*[L(v[j], hi) for j in range(n)])]
  return out


def fl(x):
  """the exact rational value of the double nearest to the decimal x (so that the model sees what the library sees)."""
  return C.fs(Fraction(float(x)))


def enum_cbounds_fine():
  """cumulative bounds whose attainability is decided by less than 1e-6: dyadic gaps 2^-23, 2^-43 and decimal slot bounds."""
  cs = []
  for e in (Fraction(1, 2**23), EPS2):
    lb, hb = ['1/2', C.fs(Fraction(1, 2) + 2*e)], ['1', C.fs(1 + 2*e)]         # sum lb = 1 + 2e, sum hb = 2 + 2e
    specs = []
    for h in (1 + e, 1 + 2*e, 1 + 3*e):                                       # high just below / at / above the smallest possible sum
      specs += [{'p': ['0', C.fs(h)]}, {'i': [['0', C.fs(h), '0', '2']]}]
    for l in (2 + e, 2 + 2*e, 2 + 3*e):                                       # low just below / at / above the largest possible sum
      specs += [{'p': [C.fs(l), '3']}, {'i': [[C.fs(l), '3', '0', '2']]}]
    for l, h in ((1, 1 + e), (1 + e, 1), (1, 1)):                             # low < high by a hair / reversed by a hair / equal
      specs += [{'p': [C.fs(Fraction(3, 2) + l - 1), C.fs(Fraction(3, 2) + h - 1)]}]
    cs.append({'k': 'cbounds', 'n': 2, 'lb': lb, 'hb': hb, 'specs': specs})
  # decimal slot bounds (as the doubles the library sees): sum lb = 1.0000012, sum hb = 2.9999988
  lb, hb = [fl('0.4000004'), fl('0.6000008')], [fl('1.4999994'), fl('1.4999994')]
  specs = [{'p': ['0', fl(h)]} for h in ('1.000001', '1.0000011', '1.0000013', '1.000002')] + \
          [{'p': [fl(l), '4']} for l in ('2.999998', '2.9999987', '2.9999989', '2.999999')] + \
          [{'i': [['0', fl('1.000001'), '0', '2']]}, {'i': [['0', fl('0.4000003'), '0', '1']]}, {'i': [['0', fl('0.4000005'), '0', '1']]}]
  cs.append({'k': 'cbounds', 'n': 2, 'lb': lb, 'hb': hb, 'specs': specs})
  return cs


def enum_large(n):
  """a horizon beyond any 'first 24 slots' shortcut: faults, and reported ranges, that sit in the LAST slot."""
  cs = []
  z, o = ['0']*n, ['1']*n
  last = lambda base, x: base[:-1] + [x]
  vs = [T('0', '1'), L(L(*z), L(*o)), L(*[L('0', '1')]*n), L(L(*o)), L(L(*z), L(*last(o, '7'))),               # accepted (the last slot differs)
        L(L(*last(z, '2')), L(*o)), L(*last([L('0', '1')]*n, L('2', '1'))), L(L(*last(z, '2')), '1'), L('1', L(*last(o, '0'))),   # low > high in the last slot only
        L(L(*last(z, C.fs(1 + EPS2))), L(*o)), L(*last([L('0', '1')]*n, L(None, '1'))),
        L(L(*z[:-1]), L(*o)), L(L(*z), L(*(o + ['1']))), L(*[L('0', '1')]*(n - 1)), L(*[L('0', '1')]*(n + 1))]             # one slot short / long
  gen = [T('-1', '0'), L('-1', L(*last(z, C.fs(EPS2)))), L(L(*['-1']*n), L(*last(z, '1'))), L(*last([L('-1', '0')]*n, L('-1', C.fs(EPS))))]
  for level in ('raw', 'device'):
    cs.append({'k': 'bounds', 'n': n, 'level': level, 'vs': vs})
  cs.append({'k': 'bounds', 'n': n, 'level': 'gen', 'vs': gen + [L(L(*last(['-1']*n, '1')), L(*z))]})
  N, h = str(n), Fraction(1, 2)
  specs = [{'p': ['1', '2']}, {'p': [C.fs(n - h), str(n + 1)]}, {'p': [str(n + 1), str(n + 2)]}, {'i': [['0', '1', str(n - 1), N]]}, {'i': [['1/2', '1', str(n - 1), N]]},
           {'i': [['0', '1', '0', N]]}, {'i': [['0', '1', '24', N]]}, {'i': [['0', '1', '0', str(n + 1)]]}, {'i': [['0', '1', N, N]]},
           {'i': [['0', '1', '0', '24'], ['0', '1', '24', N]]}, {'i': [['3/2', '2', str(n - 1), N]]}, {'i': [[C.fs(24 + h), '30', '0', N]]}]
  cs.append({'k': 'cbounds', 'n': n, 'lb': z, 'hb': o, 'specs': specs})
  cs.append({'k': 'cbounds', 'n': n, 'lb': last(z, '5'), 'hb': last(o, '5'),      # the last slot alone makes (0, 4) unattainable and (0, 5) attainable
             'specs': [{'p': ['0', '4']}, {'p': ['0', '5']}, {'p': ['-1', C.fs(5 - EPS2)]}, {'i': [['0', '4', '0', '24']]}, {'i': [['4', '9/2', str(n - 1), N]]}]})
  def ctor(cls, kw, b=None, cb=None, sets=None):
    c = {'k': 'ctor', 'cls': cls, 'n': n, 'b': b if b is not None else (T('-1', '0') if cls in GEN_CLASSES else T('0', '1')), 'cb': cb, 'kw': [list(x) for x in kw]}
    if sets: c['sets'] = [list(x) for x in sets]
    cs.append(c)
  for cls in CLASSES:
    kw0 = [('cost_coeffs', {'nd': 1, 'rows': n})] if cls == 'GDevice' else []
    ctor(cls, kw0, cb={'p': ['-1/2', '-1/4'] if cls in GEN_CLASSES else ['1/4', '1/2']})           # the 2-tuple must be reported as (l, h, 0, n)
    ctor(cls, kw0, b=L(L(*last(['-1']*n, '2')), L(*o)) if cls not in GEN_CLASSES else L(L(*last(['-2']*n, '1')), L(*z)))
  ctor('IDevice', [('a', last(o, C.fs(-EPS2)))]); ctor('IDevice', [('c', last(o, '5/2'))]); ctor('IDevice', [('b', last(o, '0'))]); ctor('IDevice', [('a', o[:-1])])
  ctor('IDevice2', [('p_l', last(['-2']*n, '-1/2')), ('p_h', ['-1']*n)]); ctor('IDevice2', [('p_l', ['-2']*n), ('p_h', last(['-1']*n, '-1/4'))])
  ctor('IDevice2', [('p_h', last(['-1']*n, C.fs(EPS2)))])
  ctor('GDevice', [('cost_coeffs', {'nd': 2, 'rows': n})]); ctor('GDevice', [('cost_coeffs', {'nd': 2, 'rows': n - 1})]); ctor('GDevice', [('cost_coeffs', {'nd': 2, 'rows': 24})])
  ctor('SDevice', [('c1', '2'), ('c2', '1/2'), ('efficiency', '3/4')], b=T('-1', '1'), sets=[('cbounds', {'cb': {'p': ['-1/2', '1/2']}}), ('cbounds', {'cb': {'i': [['0', '1', '24', N]]}})])
  cs.append({'k': 'set', 'kind': 'deviceset', 'lens': [n, n], 'id': 'set1', 'idok': True, 'sb': L(L(*last(z, '2')), L(*o)), 'nmax': n})
  cs.append({'k': 'set', 'kind': 'deviceset', 'lens': [n, n], 'id': 'set1', 'idok': True, 'sb': L(L(*z), L(*last(o, '7'))), 'nmax': n})
  cs.append({'k': 'set', 'kind': 'deviceset', 'lens': [n, n - 1], 'id': 'set1', 'idok': True, 'sb': None, 'nmax': n})
  cs.append({'k': 'set', 'kind': 'mf', 'n': n, 'nflows': 2, 'lb': ['-1'] + z[1:], 'hb': last(z, '1')})
  cs.append({'k': 'set', 'kind': 'mf', 'n': n, 'nflows': 2, 'lb': z, 'hb': last(z, '1')})
  td = {'k': 'set', 'kind': 'tdevice', 'n': n, 'b': T('0', '1'), 'cb': {'p': ['1/4', '1/2']}, 'sustainment': '1/2', 'efficiency': '3/4', 't_range': '2',
        't_init': '37/2', 't_optimal': '85/4', 't_external': [C.fs(Fraction(10 + i) + Fraction(1, 4)) for i in range(n)], 'c': last(o, '5/2')}
  cs.append(td)
  cs.append(dict(td, c=last(o, C.fs(-EPS2)))); cs.append(dict(td, t_external=td['t_external'][:-1]))
  return cs


def enum_params(ns):
  """constructor / setter cases at every validator threshold and both dyadic neighbours."""
  cs = []
  def ctor(cls, n, kw, sets=None, b=None, cb=None):
    b = b if b is not None else (T('-1', '0') if cls in GEN_CLASSES else T('0', '1'))
    c = {'k': 'ctor', 'cls': cls, 'n': n, 'b': b, 'cb': cb, 'kw': [list(x) for x in kw]}
    if sets:
      c['sets'] = [list(x) for x in sets]
    cs.append(c)
  for n in ns:
    # SDevice
    for f, ts in [('c3', [0]), ('capacity', [0]), ('start', [0, 1]), ('reserve', [0, 1]), ('damage_depth', [0, 1]),
                  ('efficiency', [0, 1]), ('sustainment', [0, 1])]:
      for t in ts:
        for x in thr(t):
          ctor('SDevice', n, [(f, x)])
          ctor('SDevice', n, [], [(f, x)])
    for c2 in ['0', '1/4', '1', '2']:
      pre = [('c2', c2)] if Fraction(c2) <= 1 else [('c1', '4'), ('c2', c2)]
      for x in thr(0) + thr(c2):
        ctor('SDevice', n, pre, [('c1', x)])                 # c1 assigned against the current c2
        if len(pre) == 1:
          ctor('SDevice', n, pre + [('c1', x)])              # the same as keyword arguments, c2 first
        ctor('SDevice', n, [('c1', x), ('c2', c2)])          # ... and c1 first
    for c1 in ['0', '1/4', '1', '2']:
      for x in thr(0) + thr(c1):
        ctor('SDevice', n, [('c1', c1), ('c2', x)])
        ctor('SDevice', n, [('c1', c1)], [('c2', x)])
    for x in thr(1):
      for rc in [x, {'op': [x, None]}, {'op': [None, x]}, {'op': [x, '2']}, {'op': ['2', x]}]:
        ctor('SDevice', n, [('rate_clip', rc)])
        ctor('SDevice', n, [], [('rate_clip', rc)])
    ctor('SDevice', n, [('rate_clip', None)])
    ctor('SDevice', n, [('rate_clip', {'op': [None, None]})])
    # IDevice
    for f, t0 in [('a', 0), ('b', 0), ('c', 0)]:
      for x in thr(t0):
        ctor('IDevice', n, [(f, x)])
        ctor('IDevice', n, [], [(f, x)])
        for i in range(n):
          v = ['1']*n; v[i] = x
          ctor('IDevice', n, [(f, v)])
      for ln in (0, n - 1, n + 1):
        if ln != n and ln >= 0:
          ctor('IDevice', n, [(f, ['1']*ln)])
    # IDevice2 / CDevice2
    for cls in ('IDevice2', 'CDevice2'):
      for x in thr(0) + thr(-1):
        ctor(cls, n, [('p_h', x)]); ctor(cls, n, [('p_l', x)])
        ctor(cls, n, [], [('p_h', x)]); ctor(cls, n, [], [('p_l', x)])
      for other in ['-2', '-1/2']:
        for x in thr(other):
          ctor(cls, n, [('p_l', '-3'), ('p_h', other)], [('p_l', x)])     # p_l assigned against the current p_h
          ctor(cls, n, [('p_l', '-3'), ('p_h', other)], [('p_h', x)])
          ctor(cls, n, [('p_l', other), ('p_h', x)]); ctor(cls, n, [('p_h', x), ('p_l', other)])
          ctor(cls, n, [('p_l', x), ('p_h', other)]); ctor(cls, n, [('p_h', other), ('p_l', x)])
      for i in range(n):
        for x in thr(0) + thr(-1):
          v = ['-1/2']*n; v[i] = x
          ctor(cls, n, [('p_h', v)])
          v = ['-2']*n; v[i] = x
          ctor(cls, n, [('p_l', v)])
          ctor(cls, n, [('p_l', v), ('p_h', ['-1']*n)])
      for ln in (0, n - 1, n + 1):
        if ln != n:
          ctor(cls, n, [('p_l', ['-1']*ln)]); ctor(cls, n, [('p_h', ['0']*ln)])
      # zero-width bounds: CDevice2 substitutes (sum lb, sum hb) for missing cumulative bounds
      ctor(cls, n, [], b=T('1', '1'))
      ctor(cls, n, [], b=T('0', '1'), cb={'i': []})
    # CDevice
    for x in thr(0):
      ctor('CDevice', n, [('a', x)]); ctor('CDevice', n, [], [('a', x)]); ctor('CDevice', n, [('b', x)])
    # generators: hbounds at 0 and neighbours, constant and in one slot; cost_coeffs dimensionality
    for cls in GEN_CLASSES:
      for x in thr(0):
        ctor(cls, n, [], b=T('-1', x))
        ctor(cls, n, [], [('bounds', {'b': T('-1', x)})])
        for i in range(n):
          v = ['0']*n; v[i] = x
          ctor(cls, n, [], b=T('-1', L(*v)))
          ctor(cls, n, [], [('bounds', {'b': T('-1', L(*v))}), ('bounds', {'b': T('-2', '-1')})])
      ctor(cls, n, [], b=L(*[L(None, None)]*n))
    for k in range(0, 4):
      ctor('GDevice', n, [('cost_coeffs', {'nd': k, 'rows': n})])
      ctor('GDevice', n, [], [('cost_coeffs', {'nd': k, 'rows': n})])
    for rows in (n - 1, n + 1, n + 2):
      if rows >= 1:                                     # (an empty list is a 1-D array, not a table)
        ctor('GDevice', n, [('cost_coeffs', {'nd': 2, 'rows': rows})])       # a per-slot table needs one row per slot
        ctor('GDevice', n, [('cost_coeffs', {'nd': 1, 'rows': n})], [('cost_coeffs', {'nd': 2, 'rows': rows})])
    # a bounds assignment that is rejected must leave the device as it was — also when validate_bounds mis-reads it (n = 2)
    if n == 2:
      for cls in CLASSES:
        mis = L(L('-1', '-1', '-1'), L('0', '0', '0')) if cls in GEN_CLASSES else L(L('0', '0', '0'), L('1', '1', '1'))
        ctor(cls, n, [], [('bounds', {'b': mis})])
        ctor(cls, n, [], [('bounds', {'b': L(mis['l'][0])})])
    for cls in CLASSES:
      ctor(cls, n, [], [('bounds', {'b': T('1', '0')})])
      ctor(cls, n, [], [('bounds', {'b': L('0', '1', '2')}), ('cbounds', {'cb': {'p': ['1', '0']}})], cb={'p': ['1/4', '1/2']} if cls not in GEN_CLASSES else {'p': ['-1/2', '-1/4']})
    # keys a class has no property for are plain attributes
    for cls in CLASSES:
      ctor(cls, n, [('c1', '-5')] if cls != 'SDevice' else [('p_l', '5')])
  return [c for c in cs if c is not None]


def bounds_forms_small(n):
  """bounds forms used for the class x form x cbounds cross product."""
  out = [T(a, b) for a in ['-1', '0', '1'] for b in ['-1', '0', '1']]
  out += [L(L(*v)) for v in itertools.product(['-1', '0'], repeat=n)]
  out += [L(L(*['-1']*n), '0'), L('-1', L(*['0']*n)), L(*[L('-1', '0')]*n), L(*[L('0', '-1')]*n), L(*[L(None, None)]*n),
          L('0', '1', '2'), L(), '5', None, L(L('0')), L(None), L(L(*['-1']*(n + 1)), L(*['0']*(n + 1))), L(*[L('-1', '0')]*(n + 1))]
  return out


def enum_class_forms(ns):
  cs = []
  for n in ns:
    cbs = [None, {'p': ['-1', '1']}, {'p': ['1', '-1']}, {'i': [['-1', '1', '0', str(n)]]}, {'i': [[str(-n - 1), str(-n - 1), '0', str(n)]]},
           {'i': [['-1', '1', '0']]}, {'i': [['-1/2', '1/2', '0', '1'], ['-1', '1', '1', str(n)]]}, {'i': [[str(n + 1), str(n + 2), '0', str(n)]]}]
    if n >= 3:      # several cumulative ranges: stopping before the horizon, leaving a gap, not starting at slot 0 (CDevice2 needs a tiling)
      cbs += [{'i': [['-1', '1', '0', '1'], ['-1', '1', '1', str(n - 1)]]}, {'i': [['-1', '1', '0', '1'], ['-1', '1', '2', str(n)]]},
              {'i': [['-1', '1', '1', '2'], ['-1', '1', '2', str(n)]]}, {'i': [['-1', '1', '0', '2'], ['-1', '1', '1', str(n)]]}]
    for cls in CLASSES:
      for b in bounds_forms_small(n):
        for cb in cbs:
          cs.append({'k': 'ctor', 'cls': cls, 'n': n, 'b': b, 'cb': cb, 'kw': [['cost_coeffs', {'nd': 1, 'rows': n}]] if cls == 'GDevice' else []})
  return cs


def enum_sets(ns):
  cs = []
  nmax = max(ns) + 1
  for k in range(0, 4):
    for lens in itertools.product([1, 2, 3], repeat=k):
      for ident in (SET_IDS if len(lens) == 1 and lens[0] == 2 else SET_IDS[:3]):
        cs.append({'k': 'set', 'kind': 'deviceset', 'lens': list(lens), 'id': ident, 'idok': doc_id_ok(ident), 'sb': None, 'nmax': nmax})
  for n in ns:
    for sb in bounds_forms_small(n) + [L(L(*['0']*(n + 1))), L(L(*['0']*(n + 1)), L(*['1']*(n + 1)))]:
      if sb is not None:
        cs.append({'k': 'set', 'kind': 'deviceset', 'lens': [n, n], 'idok': True, 'sb': sb, 'nmax': nmax})
    signs = [('0', '1'), ('-1', '0'), ('-1', '1'), ('0', '0'), ('-1', '-1'), ('1', '1')]
    for nf in range(0, 4):
      for lo, hi in signs:
        cs.append({'k': 'set', 'kind': 'mf', 'n': n, 'nflows': nf, 'lb': [lo]*n, 'hb': [hi]*n})
      if n >= 2:
        cs.append({'k': 'set', 'kind': 'mf', 'n': n, 'nflows': nf, 'lb': ['-1'] + ['0']*(n - 1), 'hb': ['0']*(n - 1) + ['1']})
      if nf == 2:       # two-way by less than any dead band
        for e1 in (EPS, EPS2):
          for e2 in (EPS, EPS2, Fraction(1)):
            cs.append({'k': 'set', 'kind': 'mf', 'n': n, 'nflows': nf, 'lb': [C.fs(-e1)] + ['0']*(n - 1), 'hb': ['0']*(n - 1) + [C.fs(e2)]})
            cs.append({'k': 'set', 'kind': 'mf', 'n': n, 'nflows': nf, 'lb': [C.fs(-e1)]*n, 'hb': ['0']*n})
            cs.append({'k': 'set', 'kind': 'mf', 'n': n, 'nflows': nf, 'lb': ['0']*n, 'hb': [C.fs(e2)]*n})
      for rlen in (None, 1, 2, 3):
        for ctok in (True, False):
          cs.append({'k': 'set', 'kind': 'tworatio', 'n': n, 'nflows': nf, 'lb': ['0']*n, 'hb': ['1']*n, 'rlen': rlen, 'ctok': ctok})
      cs.append({'k': 'set', 'kind': 'tworatio', 'n': n, 'nflows': nf, 'lb': ['-1']*n, 'hb': ['1']*n, 'rlen': 2, 'ctok': True})
    def td(**kw):
      c = {'k': 'set', 'kind': 'tdevice', 'n': n, 'b': T('0', '1'), 'cb': None, 'sustainment': '1/2', 'efficiency': '3/4', 't_range': '2',
           't_init': '37/2', 't_optimal': '85/4', 't_external': [C.fs(Fraction(10 + i) + Fraction(1, 4)) for i in range(n)], 'c': '3/2'}   # non-integers: int()/round() must show
      c.update(kw); cs.append(c)
    for x in thr(0) + thr(1): td(sustainment=x)
    for x in thr(0): td(efficiency=x); td(t_range=x); td(c=x)
    for i in range(n):
      for x in thr(0):
        v = ['1']*n; v[i] = x; td(c=v)
    for ln in (0, n - 1, n + 1):
      if ln >= 0:
        td(t_external=[str(5 + i) for i in range(ln)]); td(c=['1']*ln)
    td(b=T('1', '0')); td(b=L('0', '1', '2')); td(cb={'p': ['1', '0']}); td(sustainment='2', efficiency='0')
    # every stored setting is observable: distinct values, negative efficiency / temperatures, vector c, cumulative bounds
    td(efficiency='-2'); td(efficiency='-1/2', sustainment='1', t_init='-3', t_optimal='-5/2', t_range='0')
    td(b=L(L(*['-1']*n), L(*['1/2']*n)), cb={'p': ['-1/2', '1/4']}, c=[C.fs(Fraction(i + 1, 2)) for i in range(n)], t_external=[str(-i) for i in range(n)])
    td(cb={'i': [['0', '1/2', '0', str(n)]]}, sustainment='0', t_range='7/2')
  return [c for c in cs if c is not None]


def rand_history(rng, ns):
  """a random history of accepted and rejected assignments on a random class."""
  cls = rng.choice(['SDevice', 'SDevice', 'IDevice', 'IDevice2', 'CDevice2', 'CDevice', 'GDevice', 'PVDevice', 'Device'])
  n = rng.choice(ns)
  q = lambda lo, hi: C.fs(C.dy(rng, lo, hi, 2))
  def vec(f): return [f() for _ in range(n)] if rng.random() < 0.4 else f()
  def one():
    if rng.random() < 0.15:
      b = rng.choice([T(q(-2, 0), q(-1, 1)), T('-1', '0'), L(L(*[q(-2, 0) for _ in range(n)]), '0'), L('0', '1', '2'), T('1', '0'),
                      L(*[L(q(-2, 0), q(-1, 1)) for _ in range(n)])])
      return ['bounds', {'b': b}]
    if rng.random() < 0.15:
      return ['cbounds', {'cb': rng.choice([None, {'p': [q(-3, 1), q(-1, 3)]}, {'i': [[q(-3, 1), q(-1, 3), '0', str(n)]]}, {'i': [['0', '1', '0']]},
                                             {'i': [[q(-3, 0), q(0, 3), '0', '1'], [q(-3, 3), q(-3, 3), '0', str(n)]]}])}]
    if cls == 'SDevice':
      f = rng.choice(OWNS['SDevice'])
      if f == 'rate_clip':
        return [f, rng.choice([None, q(0, 3), {'op': [rng.choice([None, q(0, 3)]), rng.choice([None, q(0, 3)])]}])]
      return [f, q(-1, 3) if f in ('c1', 'c2', 'c3', 'capacity') else q(-1, 2)]
    if cls == 'IDevice':
      return [rng.choice(['a', 'b', 'c']), vec(lambda: q(-1, 3))]
    if cls in ('IDevice2', 'CDevice2'):
      return [rng.choice(['p_l', 'p_h']), vec(lambda: q(-4, 1))]
    if cls == 'CDevice':
      return [rng.choice(['a', 'b']), q(-2, 2)]
    if cls == 'GDevice':
      return ['cost_coeffs', {'nd': rng.choice([0, 1, 1, 2, 2, 3]), 'rows': rng.choice([n, n, n, n + 1, max(n - 1, 1)])}]
    return [rng.choice(['c1', 'efficiency']), q(-2, 2)]
  b = T('-1', '0') if cls in GEN_CLASSES or rng.random() < 0.3 else T('0', '1')
  return {'k': 'ctor', 'cls': cls, 'n': n, 'b': b, 'cb': None, 'kw': [], 'sets': [one() for _ in range(rng.randint(1, 7))]}


def enum_twins(ns, rng, extra):
  """setter histories whose end state is compared with a FRESH device built directly with the final settings:
  every public setter of every class (bounds, cbounds, curve / storage parameters, cost_coeffs 1-D <-> 2-D <-> 2-D),
  one or more assignments, through `setattr` and through `device.params = {...}`."""
  cs = []
  def twin(cls, n, sets, kw=(), b=None, cb=None, via='setattr'):
    b = b if b is not None else (T('-2', '0') if cls in GEN_CLASSES else (T('-1', '1') if cls == 'SDevice' else T('0', '2')))
    cs.append({'k': 'twin', 'cls': cls, 'n': n, 'b': b, 'cb': cb, 'kw': [list(x) for x in kw], 'sets': [list(x) for x in sets], 'via': via})
  for n in ns:
    for cls in CLASSES:
      gen = cls in GEN_CLASSES
      kw0 = [('cost_coeffs', {'nd': 1, 'rows': n})] if cls == 'GDevice' else []
      b1 = T('-1', '0') if gen else T('1/2', '3/2')
      b2 = L(L(*['-3/2']*n), L(*(['-1/2'] + ['0']*(n - 1)))) if gen else L(L(*['0']*n), L(*(['1'] + ['3']*(n - 1))))
      lo, hi = (-2*n, 0) if gen else ((-n, n) if cls == 'SDevice' else (0, 2*n))
      mid = Fraction(lo + hi, 2)
      cbA, cbB = {'p': [C.fs(mid - Fraction(1, 4)), C.fs(mid + Fraction(1, 4))]}, {'i': [[C.fs(mid - Fraction(1, 2)), C.fs(mid + Fraction(1, 8)), '0', str(n)]]}
      for via in ('setattr', 'params'):
        twin(cls, n, [('bounds', {'b': b1})], kw0, via=via)
        twin(cls, n, [('bounds', {'b': b1}), ('bounds', {'b': b2})], kw0, via=via)
        twin(cls, n, [('cbounds', {'cb': cbA})], kw0, via=via)
        twin(cls, n, [('cbounds', {'cb': cbB})], kw0, cb=cbA, via=via)
        twin(cls, n, [('cbounds', {'cb': cbB}), ('cbounds', {'cb': cbA})], kw0, via=via)
        if cls != 'CDevice2':
          twin(cls, n, [('cbounds', {'cb': None})], kw0, cb=cbA, via=via)
      vec = lambda a, b_: [a] + [b_]*(n - 1)
      if cls == 'SDevice':
        for f, vs in [('c1', ['2', '1/2']), ('c2', ['1/2', '1/4']), ('c3', ['1', '3']), ('capacity', ['4', '20']), ('start', ['1/2', '1/4']),
                      ('reserve', ['1/4', '1/2']), ('damage_depth', ['1/2', '1/4']), ('efficiency', ['1/2', '3/4']), ('sustainment', ['1/2', '3/4']),
                      ('rate_clip', ['2', {'op': [None, '3/2']}, None])]:
          base = [('c3', '1'), ('damage_depth', '1/4'), ('start', '1/2')] if f not in ('c3', 'damage_depth', 'start') else [('c3', '1')] if f != 'c3' else []
          for via in ('setattr', 'params'):
            twin(cls, n, [(f, vs[0])], base, via=via)
            twin(cls, n, [(f, v) for v in vs], base, via=via)
      if cls == 'IDevice':
        for f, vs in [('a', ['1/2', '1/4', vec('1/2', '1/4')]), ('b', ['3', '4', vec('2', '3')]), ('c', ['2', '3', vec('1', '2')])]:
          for via in ('setattr', 'params'):
            twin(cls, n, [(f, vs[0])], via=via)
            twin(cls, n, [(f, v) for v in vs], via=via)
            twin(cls, n, [(f, vs[1])], [(f, vs[0])], via=via)
      if cls in ('IDevice2', 'CDevice2'):
        vs_l = ['-2', '-3'] + ([vec('-4', '-2')] if cls == 'IDevice2' else ['-5/2'])
        vs_h = ['-1/2', '-1/4'] + ([vec('-1/8', '-1/2')] if cls == 'IDevice2' else ['-3/4'])
        for via in ('setattr', 'params'):
          twin(cls, n, [('p_l', vs_l[0])], via=via); twin(cls, n, [('p_h', vs_h[0])], via=via)
          twin(cls, n, [('p_l', v) for v in vs_l], via=via); twin(cls, n, [('p_h', v) for v in vs_h], via=via)
          twin(cls, n, [('p_l', '-3'), ('p_h', '-2')], via=via)
      if cls == 'CDevice':
        for via in ('setattr', 'params'):
          twin(cls, n, [('a', '-1')], via=via); twin(cls, n, [('a', '-1'), ('a', '-2'), ('b', '3')], [('a', '-1/2')], via=via)
      if cls == 'GDevice':
        d1, d1b = {'nd': 1, 'rows': n}, {'nd': 1, 'rows': n, '_alt': True}
        d2, d2b = {'nd': 2, 'rows': n}, {'nd': 2, 'rows': n, '_alt': True}
        for via in ('setattr', 'params'):
          for seq in ([d1b], [d2], [d2, d2b], [d2, d1b], [d2, d1b, d2b], [d1b, d2b, d2]):
            twin(cls, n, [('cost_coeffs', v) for v in seq], [('cost_coeffs', d1)], via=via)
          twin(cls, n, [('cost_coeffs', d2b)], [('cost_coeffs', d2)], via=via)
          twin(cls, n, [('cost_coeffs', d1)], [], via=via)
          twin(cls, n, [('cost_coeffs', d2)], [], via=via)
  for _ in range(extra):
    h = rand_history(rng, [n for n in ns])
    if h['cls'] in CLASSES:
      h = dict(h); h['k'] = 'twin'; h['via'] = rng.choice(['setattr', 'params'])
      if h['cls'] == 'GDevice':
        h['kw'] = [['cost_coeffs', {'nd': 1, 'rows': h['n']}]]
      cs.append(h)
  return cs


# ---------------------------------------------------------------- the documented grammar (oracle, independent of the model)
def is_scalar(j): return j is None or isinstance(j, str)
def items(j): return [v for k, v in j.items() if not k.startswith('_')][0] if isinstance(j, dict) else None


def ref_bounds(j, n):
  """('table', rows) | ('lenient', rows) | ('ill', why), straight from the docstring of validate_bounds:
  an (n,2) table (takes precedence) | a 2-sequence of (number | n-vector) | a 1-sequence of an n-vector."""
  top = items(j)
  if top is None:
    return ('ill', 'not-a-sequence')
  lenient = False
  def half(x):
    if isinstance(x, str):
      return [x]*n
    xs = items(x)
    if xs is not None and len(xs) == n and all(is_scalar(y) for y in xs):
      return list(xs)
    return None
  if len(top) == n and all(items(r) is not None and len(items(r)) == 2 and all(is_scalar(y) for y in items(r)) for r in top):
    rows = [tuple(items(r)) for r in top]
  elif len(top) == 2:
    a, b = half(top[0]), half(top[1])
    if a is None or b is None:
      return ('ill', 'bad-half')
    rows = list(zip(a, b))
  elif len(top) == 1:
    a = half(top[0])
    if a is None:
      return ('ill', 'bad-half')
    lenient = isinstance(top[0], str)          # "[x]" with a number: undocumented convenience, constant table
    rows = list(zip(a, a))
  else:
    return ('ill', 'bad-length')
  flat = [y for r in rows for y in r]
  if any(y is None for y in flat):
    if all(y is None for y in flat):
      return ('lenient', rows)                   # the code deliberately tolerates an all-None table
    return ('ill', 'none-entry')
  if any(Fraction(a) > Fraction(b) for a, b in rows):
    return ('ill', 'low-above-high')
  return ('lenient' if lenient else 'table', rows)


def same_rows(rows, got):
  if len(rows) != len(got):
    return False
  for (a, b), (x, y) in zip(rows, got):
    for u, v in ((a, x), (b, y)):
      if u is None:
        if v is not None:
          return False
      elif v is None or float(Fraction(u)) != float(v):
        return False
  return True


def deep_eq(a, b):
  n_ = np()
  if isinstance(a, n_.ndarray) or isinstance(b, n_.ndarray):
    if not (isinstance(a, n_.ndarray) and isinstance(b, n_.ndarray)) or a.shape != b.shape:
      return False
    return all(deep_eq(x, y) for x, y in zip(a.tolist(), b.tolist())) if a.ndim else a.tolist() == b.tolist()
  if isinstance(a, (list, tuple)):
    return type(a) is type(b) and len(a) == len(b) and all(deep_eq(x, y) for x, y in zip(a, b))
  return a is b or a == b


def ref_cbounds(j, n, lb, hb):
  """('ok', stored list or None) | ('ill', why): None | 2-tuple -> (l,h,0,n) | list of 4-tuples; low < high; attainable."""
  if j is None:
    return ('ok', None)
  if isinstance(j, str):
    return ('ill', 'not-a-sequence')
  if 'p' in j:
    its = [[j['p'][0], j['p'][1], '0', str(n)]]
  else:
    its = j['i']
  out = []
  for it in its:
    if not isinstance(it, list) or len(it) != 4:
      return ('ill', 'arity')
    l, h, s, e = Fraction(it[0]), Fraction(it[1]), int(Fraction(it[2])), int(Fraction(it[3]))
    if not 0 <= s < e <= n:
      return ('ill', 'range')                       # a cumulative bound is about the flow summed over its own slots [s, e)
    if not l < h:
      return ('ill', 'low-not-below-high')
    idx = list(range(s, e))
    if sum(lb[i] for i in idx) > h or sum(hb[i] for i in idx) < l:
      return ('ill', 'unattainable')
    out.append((l, h, s, e))
  return ('ok', out)


DOC = {   # documented range of each parameter value on its own (from the class docstrings / messages)
  'c1': lambda x: x >= 0, 'c2': lambda x: x >= 0, 'c3': lambda x: x >= 0, 'capacity': lambda x: x > 0,
  'start': lambda x: 0 <= x <= 1, 'reserve': lambda x: 0 <= x <= 1, 'damage_depth': lambda x: 0 <= x <= 1,
  'efficiency': lambda x: 0 < x <= 1, 'sustainment': lambda x: 0 < x <= 1,
}


def fr(v):
  return [Fraction(x) for x in v] if isinstance(v, list) else Fraction(v)


def param_in_range(cls, n, f, v):
  """True / False / None (not a validated parameter of this class)."""
  if f not in OWNS[cls]:
    return None
  if cls == 'SDevice':
    if f == 'rate_clip':
      if v is None:
        return True
      xs = v['op'] if isinstance(v, dict) else [v, v]
      return all(x is None or Fraction(x) >= 1 for x in xs)
    return DOC[f](Fraction(v))
  if cls == 'IDevice':
    xs = fr(v)
    if isinstance(xs, list):
      return len(xs) == n and all((x > 0) if f == 'b' else (x >= 0) for x in xs)
    return (xs > 0) if f == 'b' else (xs >= 0)
  if cls in ('IDevice2', 'CDevice2'):
    xs = fr(v)
    if isinstance(xs, list):
      return cls == 'IDevice2' and len(xs) == n and all(x <= 0 for x in xs)    # CDevice2: scalars only (its curve acts on the flow sum)
    return xs <= 0
  if cls == 'CDevice':
    return Fraction(v) <= 0 if f == 'a' else True
  if cls == 'GDevice':
    return v['nd'] == 1 or (v['nd'] == 2 and v.get('rows', n) == n)
  return None


def reported_matches(dev, cls, n, f, v):
  """does the device report `f` with the meaning the caller supplied?"""
  got = getattr(dev, f)
  n_ = np()
  if f == 'rate_clip':
    want = (None, None) if v is None else (tuple(v['op']) if isinstance(v, dict) else (v, v))
    return all((a is None and b is None) or (a is not None and b is not None and float(Fraction(a)) == float(b)) for a, b in zip(want, got))
  if f == 'cost_coeffs':
    want = n_.array(val_py(v, n), dtype=float)          # the VALUES, not just the dimensionality
    g = n_.array(got, dtype=float)
    return g.shape == want.shape and bool(n_.all(g == want))
  want = n_.array([float(x) for x in fr(v)]) if isinstance(v, list) else float(fr(v))
  try:
    return bool(n_.all(n_.array(got, dtype=float) == want)) and n_.array(got).shape == n_.array(want).shape
  except Exception:
    return False


class C11(Prop):
  id = 'C11'
  lean_module = 'DK.Props.C11'
  theorems = [
    'DK.C11.validate_sound', 'DK.C11.validate_sound_partial', 'DK.C11.validate_sound_counterexample', 'DK.C11.validate_complete',
    'DK.C11.denotes_unique', 'DK.C11.gen_bounds_iff', 'DK.Validate.npShape_table_iff',
    'DK.Validate.tableRows_iff',
    'DK.C11.cbRangeOk_iff', 'DK.C11.sliceSum_inRange', 'DK.C11.cbound_accept_iff', 'DK.C11.cbItem_accept_iff', 'DK.C11.cbound_attainable', 'DK.C11.setCbounds_ok_iff',
    'DK.C11.setCbounds_attainable', 'DK.C11.setCbounds_items', 'DK.C11.setCboundsNone_ok',
    'DK.C11.sC1Ok_iff', 'DK.C11.sC2Ok_iff', 'DK.C11.sC3Ok_iff', 'DK.C11.sCapacityOk_iff', 'DK.C11.sUnitOk_iff', 'DK.C11.sRateOk_iff',
    'DK.C11.sClipOk_iff', 'DK.C11.cAOk_iff', 'DK.C11.tSustainmentOk_iff', 'DK.C11.tEfficiencyOk_iff', 'DK.C11.tRangeOk_iff',
    'DK.C11.iParamOk_iff', 'DK.C11.iBOk_iff', 'DK.C11.hlParamOk_iff', 'DK.C11.pHOk_iff', 'DK.C11.pLOk_iff', 'DK.C11.allLe_pointwise',
    'DK.C11.deviceSetCheck_iff', 'DK.C11.mfCheck_iff', 'DK.C11.twoRatioCheck_iff', 'DK.C11.tdeviceCheck_iff',
    'DK.C11.setField_step', 'DK.C11.step_frame', 'DK.C11.step_pinv', 'DK.C11.step_reported', 'DK.C11.setAll_reported', 'DK.C11.params_invariant', 'DK.C11.construct_params_invariant', 'DK.C11.history_params_invariant',
    'DK.C11.hl_pointwise', 'DK.C11.sdevice_c1_zero_c2_pos_reachable', 'DK.C11.hl_order_dependent',
    'DK.C11.cdevice2_scalar_invariant', 'DK.C11.cdevice2Ranges_ok', 'DK.C11.gdevice_coeffs_accept_iff',
    'DK.C11.gen_hb_nonpos', 'DK.C11.rejected_assignment_keeps_state', 'DK.C11.rejected_keeps_state_of_ne_bounds', 'DK.C11.rejected_keeps_state_of_ne_two',
    'DK.C11.misread_only_at_two', 'DK.C11.rejected_bounds_misread_retained', 'DK.C11.tdevice_reported_eq_supplied', 'DK.C11.reported_eq_supplied',
  ]
  # the T1 bridge lemmas live in DK/Lemmas/ValidateBridge.lean (imported by DK.Props.C11), so they are audited with the
  # theorems of `lean_module` rather than through `bridge` (which newer versions of vk/check.py look up in DK.Lemmas.Bridge).
  theorems = theorems + ['DK.ValidateBridge.' + x for x in ['sdevice_c1', 'sdevice_c2', 'sdevice_c3', 'sdevice_capacity', 'sdevice_start',
            'sdevice_reserve', 'sdevice_damage_depth', 'sdevice_efficiency', 'sdevice_sustainment', 'cdevice_a',
            'tdevice_sustainment', 'tdevice_efficiency', 'tdevice_t_range']]
  bridge = []
  rule = ('bounded-exhaustive (exhaustive: true): every bounds form x malformed variant over {-1,0,1,2,None} x n in 1..3 quick / 1..5 thorough '
          'x list/tuple/ndarray containers x validate_bounds / Device / generator level; every class with the common constructor signature '
          'x bounds form x cumulative-bound spec; cumulative-bound specs (arity 0..5, l<h / l=h / l>h, attainable or not, ranges inside / outside); '
          'every scalar parameter at each validator threshold and both dyadic neighbours, both keyword orders, setters after construction; '
          'random histories of accepted and rejected assignments; set-level checks')
  sizes = {'quick': 150, 'thorough': 3000}      # number of *random histories*; the enumerations do not depend on it
  assumptions = ['oracle: an independent Python reading of the documented grammar (validate_bounds docstring, cbounds docstring, '
                 'documented parameter ranges); accepted => the denoted table / the supplied settings are reported; ill-formed => ValueError specifically',
                 'None is part of the value alphabet: a table that is entirely None is tolerated (the code says so); any other None is ill-formed',
                 'PyVal abstracts Python duck typing: numbers, None, list/tuple/ndarray nesting of depth <= 2 (strings, 0-d arrays, dtype=object arrays of lists are outside)']

  def __init__(self):
    self._t1 = None
    self._stats = {}
    self._obs = {}
    self._inputs = 0

  # T1 hook: check.py reads `uses_t1` before building; the validator translation is regenerated here.
  @property
  def uses_t1(self):
    self._t1 = TV.regenerate(C.REPO)
    return True

  NAN_PROBES = [('SDevice', f) for f in ('c1', 'c2', 'c3', 'capacity', 'start', 'reserve', 'damage_depth', 'efficiency', 'sustainment', 'rate_clip')] + \
               [('IDevice', f) for f in 'abc'] + [(c, f) for c in ('IDevice2', 'CDevice2') for f in ('p_l', 'p_h')] + [('CDevice', 'a')] + \
               [('Device', 'bounds-low'), ('Device', 'bounds-high'), ('PVDevice', 'bounds-high'), ('Device', 'cbounds-low'), ('Device', 'cbounds-high')] + \
               [('TDevice', f) for f in ('sustainment', 'efficiency', 't_range', 'c')]

  def corpus(self):
    """deterministic witnesses outside the modelled value space (no NaN, no machine integer types in `PyVal` / `XRat`):
    unsigned-integer bounds arrays whose `high - low` wraps around, and NaN for every validated parameter."""
    cs = []
    for dt in ('uint8', 'uint16', 'uint32', 'uint64', 'int8', 'int64', 'float32'):
      for form in ('table', 'pair'):
        cs.append({'k': 'probe', 'what': 'dtype', 'n': 3, 'v': {'dtype': dt, 'form': form}})   # (n = 3: at n = 2 the pair form is itself a table)
    for cls, f in self.NAN_PROBES:
      cs.append({'k': 'probe', 'what': 'nan', 'n': 2, 'v': {'cls': cls, 'param': f}})
    return cs

  def ns(self, tier):
    return [1, 2, 3, 4, 5] if tier == 'thorough' else [1, 2, 3]

  def cases(self, rng, tier, count):
    ns = self.ns(tier)
    cs = []
    def batches(kind, n, level, vs):
      for i in range(0, len(vs), B):
        cs.append({'k': kind, 'n': n, 'level': level, 'vs': vs[i:i + B]})
    enumerated = {}
    for n in ns:
      vs = enum_bounds(n, tier)
      enumerated['bounds n=%d' % n] = len(vs)
      batches('bounds', n, 'raw', vs)
      batches('bounds', n, 'device', vs if (tier == 'thorough' or n <= 1) else vs[::3])   # (differs from the raw level only by HyperCube's width check)
      ks = kinds_bounds(n) + fine_bounds(n)
      enumerated['container kinds + sub-1e-6 low/high pairs n=%d' % n] = len(ks)
      for level in ('raw', 'device', 'gen'):
        batches('bounds', n, level, ks)
      batches('bounds', n, 'gen', [v for v in vs[::7]])
      batches('shape', n, 'shape', vs[::5] + ks)
      specs = enum_cbounds(n)
      enumerated['cbounds n=%d' % n] = len(specs)
      for lb, hb in [(['0']*n, ['1']*n), (['-1']*n, ['0']*n), (['-1'] + ['0']*(n - 1), ['1/2']*n), (['1/2']*n, ['1/2']*n)]:
        for i in range(0, len(specs), B):
          cs.append({'k': 'cbounds', 'n': n, 'lb': lb, 'hb': hb, 'specs': specs[i:i + B]})
    for n in ns:                                         # outside the modelled fragment: oracle only
      for st in ['ab', 'a', '', 'abc']:
        cs.append({'k': 'probe', 'what': 'string', 'n': n, 'v': st})
      for deep in [L(L(*[L('0', '1')]*n), L(*[L('2', '3')]*n)), L(L(*[L('0', '1')]*n)), L(L(*[L('0', '1', '2')]*n), L(*[L('2', '3', '4')]*n))]:
        cs.append({'k': 'probe', 'what': 'deep', 'n': n, 'v': deep})
      cs.append({'k': 'probe', 'what': 'float-index', 'n': n, 'v': None})
    fc = enum_cbounds_fine(); enumerated['cbounds decided by < 1e-6 (dyadic 2^-23, 2^-43; decimal slot bounds)'] = sum(len(c['specs']) for c in fc); cs += fc
    for n in ((25, 31) if tier == 'thorough' else (25,)):
      lc = enum_large(n); enumerated['horizon %d (faults / reported ranges in the last slot)' % n] = len(lc); cs += lc
    small = [n for n in ns if n <= 3]
    pc = enum_params(small); enumerated['parameter thresholds'] = len(pc); cs += pc
    cf = enum_class_forms(small); enumerated['class x form x cbounds'] = len(cf); cs += cf
    sc = enum_sets(small); enumerated['set level'] = len(sc); cs += sc
    tw = enum_twins(small, rng, count // 3); enumerated['setter history vs fresh twin'] = len(tw); cs += tw
    for _ in range(count):
      cs.append(rand_history(rng, small))
    self._enumerated = enumerated
    return cs

  # ------------------------------------------------------------ T2
  def ops(self, case):
    k = case['k']
    if k == 'bounds':
      n, level = case['n'], case['level']
      pys = [to_py(v) for v in case['vs']]
      def impl():
        out = []
        for py in pys:
          out += enc_bounds(run_bounds(level, n, py), n)
        return out
      return [Op({'op': 'validate.bounds', 'n': n, 'level': level, 'vs': case['vs']}, impl, 1e-9,
                 'validate_bounds[%s] n=%d: [code, width, lo/hi per slot] x %d inputs (entry k belongs to input k // %d)' % (level, n, len(pys), 2 + 2*n))]
    if k == 'shape':
      def impl():
        out = []
        for v in case['vs']:
          try:
            sh = np().array(to_py(v)).shape
            out += [0, len(sh)] + [sh[i] if i < len(sh) else 0 for i in range(4)]
          except ValueError:
            out += [1, 0, 0, 0, 0, 0]
        return out
      return [Op({'op': 'validate.shape', 'vs': case['vs']}, impl, 1e-9, 'np.array(v).shape: [ragged, ndim, dims] (entry k belongs to input k // 6)')]
    if k == 'cbounds':
      n = case['n']
      def impl():
        n_ = np()
        out = []
        for s in case['specs']:
          dev = dk().Device('d', n, table_of(case['lb'], case['hb']))
          try:
            dev.cbounds = spec_py(s)
            code = 0
          except Exception as e:
            code = code_of(e)
          out += [code] + enc_cbounds(dev.cbounds)
        return out
      return [Op({'op': 'validate.cbounds', 'n': n, 'lb': case['lb'], 'hb': case['hb'], 'specs': case['specs']}, impl, 1e-9,
                 'cbounds setter: [code, stored is None, count, 3 x (l,h,s,e)] (entry k belongs to spec k // 15)')]
    if k == 'ctor':
      line = {'op': 'validate.ctor', 'cls': case['cls'], 'n': case['n'], 'b': case['b'], 'cb': case['cb'], 'kw': case['kw'], 'sets': case.get('sets', [])}
      return [Op(line, lambda: run_ctor(case), 1e-9, '%s constructor + assignments: [codes..., reported settings]' % case['cls'])]
    if k == 'set':
      line = dict(case); line['op'] = 'validate.set'; del line['k']
      return [Op(line, lambda: run_set(case), 1e-9, 'set-level check: ' + case['kind'])]
    if k in ('probe', 'twin'):
      return []                                    # oracle only (the model does not describe costs)
    raise ValueError(k)

  # ------------------------------------------------------------ oracle
  def note(self, what, example):
    if what not in self._obs:
      self._obs[what] = {'count': 0, 'example': str(example)}
    o = self._obs[what]
    o['count'] += 1

  def stat(self, what):
    self._stats[what] = self._stats.get(what, 0) + 1

  def oracle(self, case):
    k = case['k']
    fails = {}
    def fail(key, detail):
      kk = json.dumps(key, sort_keys=True)
      if kk not in fails:
        fails[kk] = {'key': key, 'detail': detail}
    if k == 'bounds':
      self.oracle_bounds(case, fail)
    elif k == 'cbounds':
      self.oracle_cbounds(case, fail)
    elif k == 'ctor':
      self.oracle_ctor(case, fail)
    elif k == 'set':
      self.oracle_set(case, fail)
    elif k == 'probe':
      self.oracle_probe(case, fail)
    elif k == 'twin':
      self.oracle_twin(case, fail)
    return list(fails.values())

  # ---- setter history vs a fresh device with the final settings
  def fresh_twin(self, cls, n, b, cb, kw):
    """a device constructed directly with the final settings (keyword order tried both ways: the constructor is order-dependent)."""
    err = None
    for order in (list(kw.items()), list(reversed(list(kw.items())))):
      try:
        return build({'cls': cls, 'n': n, 'b': b, 'cb': cb, 'kw': [list(x) for x in order]}), None
      except Exception as e:
        err = e
    return None, err

  def behaviour_diff(self, dev, fresh, cls, n):
    """first observable difference between two devices that hold the same settings, or None."""
    n_ = np()
    def same(a, b, tol=1e-9):
      a, b = n_.array(a, dtype=float), n_.array(b, dtype=float)
      return a.shape == b.shape and bool(n_.all(n_.abs(a - b) <= tol*n_.maximum(1, n_.abs(b))))
    def both(f, g):
      ra = rb = ea = eb = None
      try: ra = f()
      except Exception as e: ea = e
      try: rb = g()
      except Exception as e: eb = e
      return ra, ea, rb, eb
    if not same(dev.lbounds, fresh.lbounds) or not same(dev.hbounds, fresh.hbounds):
      return 'reports bounds %s, a fresh device %s' % (n_.array(dev.bounds).tolist(), n_.array(fresh.bounds).tolist())
    ca, cb_ = dev.cbounds, fresh.cbounds
    if (ca is None) != (cb_ is None) or (ca is not None and (len(ca) != len(cb_) or any(not same(list(x), list(y)) for x, y in zip(ca, cb_)))):
      return 'reports cbounds %r, a fresh device %r' % (ca, cb_)
    for f in OWNS[cls]:
      x, y = getattr(dev, f), getattr(fresh, f)
      if f == 'rate_clip':
        if tuple(x) != tuple(y): return 'reports rate_clip %r, a fresh device %r' % (x, y)
      elif f == 'cost_coeffs':
        if (x is None) != (y is None) or (x is not None and not same(x, y)): return 'reports cost_coeffs %r, a fresh device %r' % (x, y)
      elif not same(x, y):
        return 'reports %s=%r, a fresh device %r' % (f, x, y)
    da, db = dev.to_dict(), fresh.to_dict()
    for k_ in da:
      if k_ in db and k_ not in ('id', 'f', 'constraints'):
        xa, xb = da[k_], db[k_]
        try:
          eq = (xa is None and xb is None) or (k_ == 'rate_clip' and tuple(xa) == tuple(xb)) or \
               (k_ == 'cbounds' and xa is not None and xb is not None and len(xa) == len(xb) and all(same(list(u), list(v)) for u, v in zip(xa, xb))) or \
               (k_ not in ('rate_clip', 'cbounds') and xa is not None and xb is not None and same(xa, xb))
        except Exception:
          eq = False
        if not eq:
          return 'to_dict()[%r] is %r, a fresh device gives %r' % (k_, xa, xb)
    lo, hi = n_.array(fresh.lbounds, dtype=float), n_.array(fresh.hbounds, dtype=float)
    w = n_.array([0.25 if i % 2 == 0 else 0.75 for i in range(n)])
    probes = [lo, hi, (lo + hi)/2, lo + w*(hi - lo)]
    for s in probes:
      for p in (0.0, 0.5):
        for name in ('cost', 'deriv'):
          ra, ea, rb, eb = both(lambda: getattr(dev, name)(s.copy(), p), lambda: getattr(fresh, name)(s.copy(), p))
          if eb is not None:
            continue                                  # the fresh device itself cannot evaluate here (C10's business)
          if ea is not None:
            return '%s(%s, %s) raises %s, a fresh device returns %s' % (name, s.tolist(), p, type(ea).__name__, n_.array(rb).tolist())
          if not same(n_.array(ra, dtype=float).reshape(-1), n_.array(rb, dtype=float).reshape(-1), 1e-7):
            return '%s(%s, %s) = %s, a fresh device returns %s' % (name, s.tolist(), p, n_.array(ra).tolist(), n_.array(rb).tolist())
    ka, kb = dev.constraints, fresh.constraints
    if len(ka) != len(kb):
      return 'has %d constraints, a fresh device %d' % (len(ka), len(kb))
    for i, (x, y) in enumerate(zip(ka, kb)):
      if x['type'] != y['type']:
        return 'constraint %d has type %s, a fresh device %s' % (i, x['type'], y['type'])
      for s in probes:
        ra, ea, rb, eb = both(lambda: x['fun'](s.copy()), lambda: y['fun'](s.copy()))
        if eb is None and (ea is not None or not same(ra, rb, 1e-7)):
          return 'constraint %d at %s is %s, a fresh device gives %s' % (i, s.tolist(), 'an exception' if ea is not None else ra, rb)
    return None

  def oracle_twin(self, case, fail):
    cls, n, via = case['cls'], case['n'], case.get('via', 'setattr')
    try:
      dev = build(case)
    except Exception:
      return
    b, cb, kw = case['b'], case['cb'], dict((k_, v) for k_, v in case['kw'])
    show = '%s(id, %d, bounds=%r, cbounds=%r, %s)' % (cls, n, to_py(b), spec_py(cb), ', '.join('%s=%r' % (k_, val_py(v, n)) for k_, v in case['kw']))
    done = []
    for f, v in case['sets']:
      try:
        if via == 'params':
          dev.params = {f: val_py(v, n)}
        else:
          setattr(dev, f, val_py(v, n))
      except Exception:
        return                                        # a rejected assignment ends the comparison (what it leaves behind is an observation elsewhere)
      if f not in OWNS[cls] + ['bounds', 'cbounds']:
        continue                                      # a plain attribute
      done.append('%s = %r' % (f, val_py(v, n)))
      if f == 'bounds': b = v['b']
      elif f == 'cbounds': cb = v['cb']
      else:
        kw.pop(f, None); kw[f] = v
      self._inputs += 1
      fresh, err = self.fresh_twin(cls, n, b, cb, kw)
      if fresh is None:
        self.note('assignments reach settings the constructor itself rejects (a setter validates only against the current other settings)',
                  '%s then %s: a fresh device with these settings raises %s(%s)' % (show, '; '.join(done), type(err).__name__, str(err)[:60]))
        return
      diff = self.behaviour_diff(dev, fresh, cls, n)
      if diff is not None:
        fail({'kind': 'stale-after-setter', 'cls': cls, 'field': f},
             '%s then %s (%s): the device %s' % (show, '; '.join(done), 'device.params = {...}' if via == 'params' else 'setattr', diff))
        return

  def oracle_probe(self, case, fail):
    """inputs outside the modelled fragment (strings; nesting depth 3): every one of them is ill-formed."""
    n, what = case['n'], case['what']
    if what == 'dtype':
      # low = 2 > high = 1 in every slot, held in a numpy array of a machine type: unsigned `high - low` wraps to a large positive number
      n_ = np(); dt, form = case['v']['dtype'], case['v']['form']
      mk = (lambda: n_.array([[2, 1]]*n, dtype=dt)) if form == 'table' else (lambda: (n_.array([2]*n, dtype=dt), n_.array([1]*n, dtype=dt)))
      for where, f in (('Device', lambda: dk().Device('d', n, mk())), ('validate_bounds', lambda: stub(n).validate_bounds(mk())),
                       ('DeviceSet.sbounds', lambda: dk().DeviceSet('set1', mk_devices([n]), mk()))):
        self._inputs += 1
        try:
          f()
        except Exception:
          continue
        fail({'where': where, 'kind': 'ill-formed-accepted', 'sub': 'unsigned-wraparound'},
             '%s with len(device)=%d given bounds=%s of dtype %s (low 2 > high 1 in every slot): ACCEPTED' % (where, n, 'np.array([[2,1]]*%d)' % n if form == 'table' else '(np.array([2]*%d), np.array([1]*%d))' % (n, n), dt))
      return
    if what == 'nan':
      cls, f = case['v']['cls'], case['v']['param']
      nan = float('nan'); D_ = dk()
      if cls == 'TDevice':
        a = {'sustainment': 0.5, 'efficiency': 0.75, 't_init': 18.5, 't_optimal': 21.25, 't_range': 2.0, 'c': 1.5}; a[f] = nan
        mk = lambda: D_.TDevice('t', n, (0, 1), a['sustainment'], a['efficiency'], a['t_init'], a['t_optimal'], a['t_range'], [10.25]*n, c=a['c'])
      elif f == 'bounds-low': mk = lambda: getattr(D_, cls)('d', n, (nan, 0))
      elif f == 'bounds-high': mk = lambda: getattr(D_, cls)('d', n, (-1, nan))
      elif f == 'cbounds-low': mk = lambda: D_.Device('d', n, (0, 1), (nan, 1))
      elif f == 'cbounds-high': mk = lambda: D_.Device('d', n, (0, 1), (0, nan))
      elif cls == 'CDevice2': mk = lambda: D_.CDevice2('d', n, (0, 1), None, **{f: nan})
      else: mk = lambda: getattr(D_, cls)('d', n, (-1, 1) if cls == 'SDevice' else (0, 1), **{f: nan})
      self._inputs += 1
      try:
        mk()
      except Exception:
        return
      fail({'kind': 'ill-formed-accepted', 'sub': 'nan', 'cls': cls, 'param': cls + '.' + f},
           '%s(..., %s=nan): ACCEPTED — NaN is outside every documented range (a guard of the form `if x < 0: raise` lets it through)' % (cls, f))
      return
    if what == 'float-index':
      # float slot indices pass the range test and die at the slice: a type confusion, any exception rejects it; the state must survive
      dev = dk().Device('d', n, (0, 1)); dev.cbounds = (0.25*n, 0.5*n); prev = list(dev.cbounds)
      self._inputs += 1
      try:
        dev.cbounds = [(0, 1, 0.0, float(n))]
        self.note('cbounds with float slot indices accepted', 'Device(%d).cbounds = [(0, 1, 0.0, %r)] -> %r' % (n, float(n), dev.cbounds))
      except Exception as e:
        if dev.cbounds != prev:
          fail({'kind': 'rejected-assignment-retained', 'cls': 'Device', 'field': 'cbounds'},
               'Device(length=%d).cbounds = [(0, 1, 0.0, %r)]: raised %s, yet cbounds is now %r, was %r' % (n, float(n), type(e).__name__, dev.cbounds, prev))
      return
    py = case['v'] if what == 'string' else to_py(case['v'])
    for where, f in (('Device', lambda: dk().Device('d', n, py)), ('validate_bounds', lambda: stub(n).validate_bounds(py)),
                     ('DeviceSet.sbounds', lambda: dk().DeviceSet('set1', mk_devices([n]), py))):
      self._inputs += 1
      show = '%s with len(device)=%d given bounds=%r' % (where, n, py)
      try:
        r = f()
      except ValueError:
        continue
      except Exception as e:
        if what != 'string':                          # a string where a sequence of numbers belongs is a type confusion: any exception rejects it
          fail({'where': where, 'kind': 'wrong-exception-type', 'exc': type(e).__name__, 'cause': what},
               '%s: raised %s(%s); it is ill-formed and ValueError is what the property promises' % (show, type(e).__name__, str(e)[:80]))
        continue
      got = r if where == 'validate_bounds' else (r.sbounds if where == 'DeviceSet.sbounds' else r.bounds)
      fail({'where': where, 'kind': 'ill-formed-accepted', 'sub': 'deep-nesting' if what == 'deep' else 'string'},
           '%s: ACCEPTED (an array of shape %s is stored) although it is no documented form: ValueError expected' % (show, np().array(got).shape))

  def judge_bounds(self, where, n, v, res, fail, cls=None, ref=None):
    """compare one outcome of the implementation with the documented grammar."""
    ref = ref or ref_bounds(v, n)
    class _Show:                                   # built only when a failure is reported
      def __str__(self_): return '%s with len(device)=%d given bounds=%r' % (where, n, to_py(v))
    show = _Show()
    base = {'where': where}
    if cls:
      base['cls'] = cls
    self._inputs += 1
    confused = has_none(v)        # a None where a number belongs is a type confusion, not one of the enumerated ill-formed settings
    if ref[0] == 'lenient' and confused:
      self.stat('entirely-None table (neither documented nor declared ill-formed): no demand')
      return
    if res[0] == 'ok':
      w, rows = res[1], res[2]
      if ref[0] == 'ill':
        sub = 'misread-table' if w != 2 else ('none-entry' if ref[1] == 'none-entry' else ref[1])
        fail(dict(base, kind='ill-formed-accepted', sub=sub),
             '%s: ACCEPTED (returned shape (%d,%d), low/high read as %s) but the specification is ill-formed (%s): ValueError expected' % (show, len(rows), w, rows, ref[1]))
        self.stat('ill-formed-accepted/' + sub)
      elif not same_rows(ref[1], rows) or w != 2:
        fail(dict(base, kind='wrong-table'), '%s: accepted as %s (width %d) but it denotes %s' % (show, rows, w, ref[1]))
        self.stat('wrong-table')
      else:
        self.stat('accepted-correctly')
        if ref[0] == 'lenient':
          self.note('undocumented form accepted consistently (all-None table / [number])', show)
    else:
      e = res[1]
      name = type(e).__name__
      if ref[0] == 'table':
        cause = 'ragged-raw-argument' if where == 'PVDevice' and 'inhomogeneous' in str(e) else 'other'
        fail(dict(base, kind='valid-rejected', exc=name, cause=cause), '%s: raised %s(%s) but this is a documented form denoting %s' % (show, name, str(e)[:80], ref[1]))
        self.stat('valid-rejected')
      elif confused:
        self.stat('type-confused argument rejected with %s' % name)      # any exception type is a rejection there
      elif not isinstance(e, ValueError):
        cause = ref[1]
        fail(dict(base, kind='wrong-exception-type', exc=name, cause=cause),
             '%s: raised %s(%s); the specification is ill-formed (%s) and ValueError is what the property promises' % (show, name, str(e)[:80], cause))
        self.stat('wrong-exception-type/%s/%s' % (name, cause))
      else:
        self.stat('rejected-correctly')

  def oracle_bounds(self, case, fail):
    n, level = case['n'], case['level']
    where = {'raw': 'validate_bounds', 'device': 'Device', 'gen': 'PVDevice'}[level]
    verdicts = set()
    for k_, v in enumerate(case['vs']):
      py = to_py(v)
      watch = k_ % 3 == 0                            # the caller's object must come back unchanged (checked on every third input)
      keep = copy.deepcopy(py) if watch else None
      res = run_bounds(level, n, py)
      ref0 = ref_bounds(v, n)
      verdicts.add(ref0[0] != 'ill')
      case['_mixed'] = verdicts == {True, False}
      if watch and not deep_eq(py, keep):
        fail({'where': where, 'kind': 'mutated-caller-object'}, '%s with len(device)=%d: the caller\'s object %r was changed to %r' % (where, n, keep, py))
      if level == 'gen':
        ref = ref0
        if ref[0] in ('table', 'lenient') and all(y is not None for r in ref[1] for y in r) and any(Fraction(r[1]) > 0 for r in ref[1]):
          # a generator that may consume: must be a ValueError
          if res[0] == 'ok':
            fail({'where': where, 'kind': 'generator-may-consume'}, '%s n=%d bounds=%r accepted with a positive upper bound' % (where, n, py))
          elif not isinstance(res[1], ValueError):
            fail({'where': where, 'kind': 'wrong-exception-type', 'exc': type(res[1]).__name__, 'cause': 'positive-hbound'}, '%s n=%d bounds=%r' % (where, n, py))
          continue
      self.judge_bounds(where, n, v, res, fail, ref=ref0)

  def oracle_cbounds(self, case, fail):
    n = case['n']
    n_ = np()
    lb, hb = [Fraction(x) for x in case['lb']], [Fraction(x) for x in case['hb']]
    for s in case['specs']:
      dev = dk().Device('d', n, table_of(case['lb'], case['hb']))
      prev = None                                              # a previous setting, to see what a rejection leaves behind
      for cand in ((0.25, 0.5), (-0.5, -0.25)):
        try:
          dev.cbounds = cand; prev = dev.cbounds; break
        except ValueError:
          dev.cbounds = None
      ref = ref_cbounds(s, n, lb, hb)
      show = 'Device(length=%d, lbounds=%s, hbounds=%s).cbounds = %r' % (n, case['lb'], case['hb'], spec_py(s))
      self._inputs += 1
      try:
        dev.cbounds = spec_py(s)
        err = None
      except Exception as e:
        err = e
      if err is None:
        if ref[0] == 'ill':
          fail({'where': 'cbounds', 'kind': 'ill-formed-accepted', 'sub': ref[1]}, '%s: ACCEPTED (stored %r) but it is %s: ValueError expected' % (show, dev.cbounds, ref[1]))
        else:
          got = dev.cbounds
          want = ref[1]
          ok = (got is None) if want is None else (got is not None and len(got) == len(want) and all(
            len(g) == 4 and all(float(a) == float(b) for a, b in zip(g, w)) for g, w in zip(got, want)))
          d = dev.to_dict().get('cbounds')
          if not ok or not ((d is None) == (want is None)):
            fail({'where': 'cbounds', 'kind': 'cbounds-not-reported'}, '%s: accepted, but the device reports %r (to_dict: %r) instead of %r' % (show, got, d, want))
      else:
        if ref[0] == 'ok':
          fail({'where': 'cbounds', 'kind': 'valid-rejected', 'exc': type(err).__name__}, '%s: raised %s(%s) but it is well-formed and attainable' % (show, type(err).__name__, str(err)[:80]))
        elif not isinstance(err, ValueError) and ref[1] not in ('arity', 'not-a-sequence'):
          # (a mis-shaped argument is a type confusion: any exception is a rejection; low >= high, a range outside the
          #  horizon and an unattainable interval are the enumerated ill-formed settings: ValueError)
          fail({'where': 'cbounds', 'kind': 'wrong-exception-type', 'exc': type(err).__name__, 'cause': ref[1]}, '%s: raised %s(%s), ValueError expected (%s)' % (show, type(err).__name__, str(err)[:80], ref[1]))
        if dev.cbounds != prev:
          fail({'kind': 'rejected-assignment-retained', 'cls': 'Device', 'field': 'cbounds'},
               '%s: raised %s, yet the device now reports cbounds=%r; before the rejected assignment it reported %r' % (show, type(err).__name__, dev.cbounds, prev))

  def oracle_ctor(self, case, fail):
    cls, n = case['cls'], case['n']
    self._inputs += 1
    refb = ref_bounds(case['b'], n)
    show = '%s(id, %d, bounds=%r, cbounds=%r, %s)' % (cls, n, to_py(case['b']), spec_py(case['cb']),
                                                    ', '.join('%s=%r' % (k, val_py(v, n)) for k, v in case['kw']))
    # what the documented rules say about the constructor arguments, each on its own
    bad = []
    if refb[0] == 'ill':
      bad.append('bounds ' + refb[1])
    numeric = refb[0] != 'ill' and all(y is not None for r in refb[1] for y in r)
    if numeric and cls in GEN_CLASSES and any(Fraction(r[1]) > 0 for r in refb[1]):
      bad.append('generator upper bound > 0')
    refc = None
    if numeric and not bad:
      refc = ref_cbounds(case['cb'], n, [Fraction(r[0]) for r in refb[1]], [Fraction(r[1]) for r in refb[1]])
      if refc[0] == 'ill':
        bad.append('cbounds ' + refc[1])
      elif cls == 'CDevice2' and refc[1] and len(refc[1]) >= 2:
        # one curve per cumulative range: the ranges must tile the horizon
        ends = [0] + [c[3] for c in refc[1]]
        if any(c[2] != ends[i] for i, c in enumerate(refc[1])) or ends[-1] != n:
          bad.append('cbounds ranges-do-not-tile-the-horizon')
    for f, v in case['kw']:
      if param_in_range(cls, n, f, v) is False:
        bad.append('%s out of range' % f)
    if refb[0] == 'lenient' and has_none(case['b']):
      return                                          # an entirely-None table: neither documented nor declared ill-formed
    try:
      dev = build(case)
      err = None
    except Exception as e:
      err = e
    if err is not None:
      confused = has_none(case['b']) or (refc is not None and refc[0] == 'ill' and refc[1] in ('arity', 'not-a-sequence'))
      if bad and not isinstance(err, ValueError) and not confused:
        cause = refb[1] if refb[0] == 'ill' else bad[0].replace(' ', '-')
        fail({'where': 'constructor', 'cls': cls, 'kind': 'wrong-exception-type', 'exc': type(err).__name__, 'cause': cause},
             '%s: raised %s(%s); ValueError expected (%s)' % (show, type(err).__name__, str(err)[:80], '; '.join(bad)))
      if not bad and refb[0] == 'table' and len(case['kw']) <= 1 and not case.get('sets'):
        single_ok = True
        if case['kw']:
          f, v = case['kw'][0]
          single_ok = self.single_valid(cls, n, f, v)
        zero_width_cdevice2 = cls == 'CDevice2' and (case['cb'] is None or case['cb'] == {'i': []}) and \
            sum(Fraction(r[0]) for r in refb[1]) == sum(Fraction(r[1]) for r in refb[1])
        if zero_width_cdevice2:
          self.note('CDevice2 without cumulative bounds rejects zero-width bounds (its default (sum lb, sum hb) has low = high)', show)
        elif single_ok:
          cause = 'ragged-raw-argument' if cls in GEN_CLASSES and 'inhomogeneous' in str(err) else 'other'
          fail({'where': 'constructor', 'cls': cls, 'kind': 'valid-rejected', 'exc': type(err).__name__, 'cause': cause},
               '%s: raised %s(%s) although every argument is well-formed and within its documented range' % (show, type(err).__name__, str(err)[:80]))
        else:
          self.note('a consistent final setting is rejected because of the order / the defaults it is checked against', show)
      return
    if bad:
      fail({'where': 'constructor', 'cls': cls, 'kind': 'ill-formed-accepted', 'sub': bad[0].split(' ')[0] if bad[0].startswith(('bounds', 'cbounds')) else bad[0]},
           '%s: ACCEPTED although %s' % (show, '; '.join(bad)))
      return
    # accepted: reported = supplied
    if not same_rows(refb[1], list(zip(dev.lbounds, dev.hbounds))):
      fail({'where': 'constructor', 'cls': cls, 'kind': 'wrong-table'}, '%s: reports bounds %s, supplied %s' % (show, list(zip(dev.lbounds, dev.hbounds)), refb[1]))
    if refc is not None and refc[0] == 'ok':
      want, got = refc[1], dev.cbounds
      if cls == 'CDevice2' and not want:
        want = [(sum(Fraction(r[0]) for r in refb[1]), sum(Fraction(r[1]) for r in refb[1]), 0, n)]
      ok = (got is None) if want is None else (got is not None and len(got) == len(want) and all(
        all(float(a) == float(b) for a, b in zip(g, w)) for g, w in zip(got, want)))
      d = dev.to_dict().get('cbounds', 'absent')
      if not ok or (want is not None and (d is None or d == 'absent')):
        fail({'where': 'constructor', 'cls': cls, 'kind': 'cbounds-not-reported'},
             '%s: accepted, but the device reports cbounds=%r (to_dict: %r); supplied %r' % (show, got, d, spec_py(case['cb'])))
    for f, v in case['kw']:
      if f in OWNS[cls] and not reported_matches(dev, cls, n, f, v):
        fail({'where': 'constructor', 'cls': cls, 'kind': 'parameter-not-reported', 'param': f}, '%s: reports %s=%r' % (show, f, getattr(dev, f)))
      if f in OWNS[cls] and f in dev.to_dict() and not deep_eq(dev.to_dict()[f], getattr(dev, f)):
        fail({'where': 'to_dict', 'cls': cls, 'kind': 'parameter-not-reported', 'param': f}, '%s: to_dict()[%s]=%r' % (show, f, dev.to_dict()[f]))
    # assignments after construction: exception types, and the documented ranges must hold whatever happened
    for f, v in case.get('sets', []):
      rng_ok = param_in_range(cls, n, f, v) if f not in ('bounds', 'cbounds') else None
      before = self.snapshot(dev, cls)
      try:
        setattr(dev, f, val_py(v, n))
        e = None
      except Exception as ex:
        e = ex
      step = '%s then %s = %r' % (show, f, val_py(v, n))
      if e is None and rng_ok is False:
        fail({'where': 'setter', 'cls': cls, 'kind': 'ill-formed-accepted', 'sub': f + ' out of range'}, step + ': ACCEPTED, out of its documented range')
      if e is None and rng_ok and not reported_matches(dev, cls, n, f, v):
        fail({'where': 'setter', 'cls': cls, 'kind': 'parameter-not-reported', 'param': f}, step + ': reports %r' % (getattr(dev, f),))
      if e is not None and rng_ok is False and not isinstance(e, ValueError):
        fail({'where': 'setter', 'cls': cls, 'kind': 'wrong-exception-type', 'exc': type(e).__name__, 'cause': f + ' out of range'}, step + ': raised %s' % type(e).__name__)
      if e is not None and self.snapshot(dev, cls) != before:
        key = {'kind': 'rejected-assignment-retained', 'cls': cls, 'field': f}
        if f == 'bounds':
          r = run_bounds('raw', n, to_py(v['b']))
          if r[0] == 'ok' and r[1] != 2:
            key['sub'] = 'misread-table'              # validate_bounds itself mis-read the argument (n = 2); HyperCube raised after the store
        fail(key, step + ': raised %s, yet the device now reports %s; before the rejected assignment it reported %s' % (type(e).__name__, self.snapshot(dev, cls), before))
    self.check_ranges(dev, cls, n, show + ' + ' + repr(case.get('sets', [])), fail)

  def snapshot(self, dev, cls):
    s = {'bounds': np().array(dev.bounds).tolist(), 'cbounds': None if dev.cbounds is None else [tuple(float(y) for y in x) for x in dev.cbounds]}
    for f in OWNS[cls]:
      s[f] = np().array(getattr(dev, f), dtype=object).tolist()
    return json.dumps(s, sort_keys=True, default=str)

  def single_valid(self, cls, n, f, v):
    """is `Cls(..., f=v)` (one keyword, everything else default) a valid, consistent setting?"""
    r = param_in_range(cls, n, f, v)
    if r is None:
      return True
    if not r:
      return False
    if cls == 'SDevice' and f == 'c2':
      return Fraction(v) <= 1                       # default c1 = 1
    if cls in ('IDevice2', 'CDevice2'):
      xs = fr(v); xs = xs if isinstance(xs, list) else [xs]
      return all(x >= -1 for x in xs) if f == 'p_h' else all(x <= 0 for x in xs)    # defaults p_l = -1, p_h = 0
    return True

  def check_ranges(self, dev, cls, n, show, fail):
    """the documented ranges hold on the device whatever sequence of assignments it has seen."""
    n_ = np()
    def bad(what):
      fail({'where': 'history', 'cls': cls, 'kind': 'invariant-broken', 'what': what}, '%s: the device now reports %s' % (show, what))
    if cls == 'SDevice':
      for f, ok in DOC.items():
        if not ok(getattr(dev, f)):
          bad('%s=%r' % (f, getattr(dev, f)))
      if any(x is not None and not x >= 1 for x in dev.rate_clip):
        bad('rate_clip=%r' % (dev.rate_clip,))
      if dev.c1 == 0 and dev.c2 > 0:
        self.note('SDevice holds c1 = 0 with c2 > 0 (the validators guarantee c2 <= c1 only when c1 > 0)', show)
    if cls == 'IDevice':
      if not (n_.array(dev.a) >= 0).all() or not (n_.array(dev.c) >= 0).all() or not (n_.array(dev.b) > 0).all():
        bad('a=%r b=%r c=%r' % (dev.a, dev.b, dev.c))
    if cls in ('IDevice2', 'CDevice2'):
      if not (n_.array(dev.p_l) <= n_.array(dev.p_h)).all() or not (n_.array(dev.p_h) <= 0).all():
        bad('p_l=%r p_h=%r' % (dev.p_l, dev.p_h))
    if cls == 'CDevice' and not dev.a <= 0:
      bad('a=%r' % (dev.a,))

  def oracle_set(self, case, fail):
    kind = case['kind']
    self._inputs += 1
    res = run_set(case)
    code = res[0]
    name = {0: 'accepted', 1: 'ValueError', 2: 'TypeError', 3: 'IndexError', 4: 'another exception'}[code]
    def expect(illformed, why, show, sub):
      if illformed and code == 0:
        fail({'where': kind, 'kind': 'ill-formed-accepted', 'sub': sub}, '%s: ACCEPTED although %s' % (show, why))
      elif illformed and code != 1:
        fail({'where': kind, 'kind': 'wrong-exception-type', 'exc': name, 'cause': sub}, '%s: raised %s, ValueError expected (%s)' % (show, name, why))
      elif not illformed and code != 0:
        fail({'where': kind, 'kind': 'valid-rejected', 'exc': name}, '%s: raised %s although it is well-formed' % (show, name))
    if kind == 'deviceset':
      lens = case['lens']
      show = 'DeviceSet(id=%r, devices of lengths %s, sbounds=%r)' % (set_id(case), lens, None if case['sb'] is None else to_py(case['sb']))
      if not lens:
        return expect(True, 'there is no device', show, 'no-devices')
      if len(set(lens)) > 1:
        return expect(True, 'horizon lengths differ', show, 'mismatched-lengths')
      if case['idok'] is None:
        return                                        # an id is not a setting; a non-string id is a type confusion (T2 still compares the outcome)
      if case['idok'] is False:
        return expect(True, 'the id does not match the documented pattern', show, 'bad-id')
      if case['sb'] is None:
        return expect(False, '', show, '')
      n = lens[0]
      if code == 0 and res[1] == 1:                   # accepted, but the set holds no aggregate bound at all
        ref = ref_bounds(case['sb'], n)
        if ref[0] == 'ill':
          fail({'where': 'DeviceSet.sbounds', 'kind': 'ill-formed-accepted', 'sub': ref[1]}, '%s: ACCEPTED (sbounds is None afterwards) although the specification is ill-formed (%s)' % (show, ref[1]))
        elif not has_none(case['sb']):
          fail({'where': 'DeviceSet.sbounds', 'kind': 'sbounds-not-reported'}, '%s: accepted, but the set reports sbounds=None' % show)
        return
      if code == 0:
        rows = [(None if math.isnan(res[2 + 2*i]) else res[2 + 2*i], None if math.isnan(res[3 + 2*i]) else res[3 + 2*i]) for i in range(n)]
        w = int(np().array(dk().DeviceSet('set1', mk_devices(lens), to_py(case['sb'])).sbounds).shape[1])
        r = ('ok', w, rows)
      else:
        try:
          dk().DeviceSet('set1', mk_devices(lens), to_py(case['sb'])); r = None
        except Exception as e:
          r = ('err', e)
      self.judge_bounds('DeviceSet.sbounds', n, case['sb'], r, fail)
      return
    if kind in ('mf', 'tworatio'):
      lb, hb = [Fraction(x) for x in case['lb']], [Fraction(x) for x in case['hb']]
      show = '%s(Device(bounds=(%s, %s)), %d flows%s)' % ('MFDeviceSet' if kind == 'mf' else 'TwoRatioMFDeviceSet', case['lb'], case['hb'], case['nflows'],
                                                          '' if kind == 'mf' else ', ratios of length %r, constraint_type %s' % (case.get('rlen'), 'eq' if case['ctok'] else "'le'"))
      if case['nflows'] == 0:
        return expect(True, 'there is no flow', show, 'no-flows')
      if any(x < 0 for x in lb) and any(x > 0 for x in hb):
        return expect(True, 'the wrapped device is two-way', show, 'two-way-device')
      if kind == 'tworatio':
        if case['nflows'] != 2:
          return expect(True, 'it supports exactly two flows', show, 'flow-count')
        if case.get('rlen') is None:
          return expect(True, 'there are no ratios', show, 'ratios-missing')
        if case['rlen'] != 2:
          return expect(True, 'ratios and flows differ in length', show, 'ratios-length')
        if not case['ctok']:
          return expect(True, 'the constraint type is unknown', show, 'constraint-type')
      return expect(False, '', show, '')
    if kind == 'tdevice':
      n = case['n']
      show = 'TDevice(length=%d, bounds=%r, sustainment=%s, efficiency=%s, t_init=%s, t_optimal=%s, t_range=%s, t_external=%s, c=%r, cbounds=%r)' % (
        n, to_py(case['b']), case['sustainment'], case['efficiency'], case['t_init'], case['t_optimal'], case['t_range'], case['t_external'], case['c'], spec_py(case['cb']))
      refb = ref_bounds(case['b'], n)
      c = fr(case['c'])
      why = []
      refc = None
      if refb[0] == 'ill': why.append('bounds')
      else:
        refc = ref_cbounds(case['cb'], n, [Fraction(r[0]) for r in refb[1]], [Fraction(r[1]) for r in refb[1]])
        if refc[0] == 'ill': why.append('cbounds')
      if not 0 <= Fraction(case['sustainment']) <= 1: why.append('sustainment outside [0,1]')
      if Fraction(case['efficiency']) == 0: why.append('efficiency is 0')
      if Fraction(case['t_range']) < 0: why.append('t_range < 0')
      if len(case['t_external']) != n: why.append('t_external has the wrong length')
      if (isinstance(c, list) and (len(c) != n or any(x < 0 for x in c))) or (not isinstance(c, list) and c < 0): why.append('c')
      expect(bool(why), '; '.join(why), show, why[0] if why else '')
      if why or code != 0:
        return
      # accepted: every setting is reported with the meaning the caller supplied (properties and to_dict)
      dev = build_tdevice(case)
      n_ = np()
      def bad(what, got, want):
        fail({'where': 'tdevice', 'cls': 'TDevice', 'kind': 'parameter-not-reported', 'param': what},
             '%s: reports %s=%r, supplied %r' % (show, what, got, want))
      want = {'sustainment': float(Fraction(case['sustainment'])), 'efficiency': float(Fraction(case['efficiency'])), 't_init': float(Fraction(case['t_init'])),
              't_optimal': float(Fraction(case['t_optimal'])), 't_range': float(Fraction(case['t_range'])),
              't_external': [float(Fraction(x)) for x in case['t_external']], 'c': [float(x) for x in c] if isinstance(c, list) else float(c)}
      dd = dev.to_dict()
      for k_, w_ in want.items():
        for src, got in (('', getattr(dev, k_)), ('to_dict()', dd.get(k_, 'absent'))):
          try:
            ok = n_.array(got, dtype=float).shape == n_.array(w_, dtype=float).shape and bool(n_.all(n_.array(got, dtype=float) == n_.array(w_, dtype=float)))
          except Exception:
            ok = False
          if not ok:
            bad((src + ' ' + k_).strip(), got, w_)
      if not same_rows(refb[1], list(zip(dev.lbounds, dev.hbounds))) or not same_rows(refb[1], [tuple(r) for r in n_.array(dd['bounds']).tolist()]):
        bad('bounds', n_.array(dev.bounds).tolist(), refb[1])
      wcb = refc[1]
      for src, got in (('cbounds', dev.cbounds), ('to_dict() cbounds', dd.get('cbounds', 'absent'))):
        if wcb is None:
          ok = got is None
        else:
          ok = got is not None and got != 'absent' and len(got) == len(wcb) and all(all(float(a) == float(b_) for a, b_ in zip(g, w_)) for g, w_ in zip(got, wcb))
        if not ok:
          bad(src, got, spec_py(case['cb']))
      return

  def nontrivial(self, case):
    """a case counts when it exercises both verdicts of a validator, or a non-default accepted setting:
    bounds / cbounds batches that hold at least one specification the documented grammar accepts AND one it rejects;
    constructor cases with a documented bounds form and at least one keyword, later assignment or cumulative bound;
    set-level cases with at least one device / flow; setter-history twins.  Shape probes and oracle-only probes do not count."""
    k = case['k']
    if k == 'bounds':
      if '_mixed' in case:
        return case['_mixed']
      verdicts = {ref_bounds(v, case['n'])[0] != 'ill' for v in case['vs']}
      return verdicts == {True, False}
    if k == 'cbounds':
      lb, hb = [Fraction(x) for x in case['lb']], [Fraction(x) for x in case['hb']]
      verdicts = {ref_cbounds(sp, case['n'], lb, hb)[0] == 'ok' for sp in case['specs']}
      return verdicts == {True, False}
    if k == 'ctor':
      return ref_bounds(case['b'], case['n'])[0] != 'ill' and bool(case['kw'] or case.get('sets') or case['cb'] is not None)
    if k == 'set':
      return bool(case.get('lens') or case.get('nflows') or case['kind'] == 'tdevice')
    return k == 'twin'

  def extra_evidence(self):
    return {
      'exhaustive': True,
      'enumeration': getattr(self, '_enumerated', {}),
      'enumeration_note': 'see vk/props/c11.py enum_bounds / kinds_bounds / enum_cbounds / enum_params / enum_class_forms / enum_sets; '
                          'batches of %d inputs are one case; random histories (sizes[tier]) come on top' % B,
      'inputs_judged_by_oracle': self._inputs,
      'outcome_classes': dict(sorted(self._stats.items())),
      'observations': {k: v for k, v in sorted(self._obs.items())},
      't1_units': (self._t1 or {}).get('t1_units', []),
      't1_fallback_units': (self._t1 or {}).get('t1_fallback_units', []),
      't2_only_units': (self._t1 or {}).get('t2_only_units', []),
    }


PROP = C11()
