"""C19 — step() stays feasible, never raises cost, and progresses when not optimal.

T2 (correspondence): both SciPy calls of `step` are replaced from outside — `device_kit.utils.minimize`
(the projection inside `utils.project`) and `device_kit.solve.minimize` (the limited minimisation) — by
stubs that record their arguments and answer prescribed results (statuses 0..9 x success, independently
for the two calls).  Compared with the Lean model: the outcome (which call raised / the flow
`s + x (s_next - s)` reshaped) [`solve.step_wrap`] and both optimisation problems observed at probe points:
the gradient step being projected, x0 = s, bounds, constraints; the line function on [0, 1]
[`solve.step_args`].

Oracle (implementation only): the REAL `step` from random feasible starts (random convex combinations of
LP vertices of the feasible polytope), flat and device-shaped, on convex leaves and trees: shape,
feasibility to 1e-6, cost non-increasing (1e-9 slack), strict decrease — for EVERY step size, also 2^-7 .. 2^-13 — when the start is
clearly not first-order optimal (gradient-scaled residual |P(s - a g) - s| / a > 1e-1 and LP gap < -1e-3), repeated steps monotone."""
from .. import common as C, gen, build
from .. import gen_solve as G
from .. import scipy_guard as SG
from ..check import Prop, Op


def np():
  import numpy
  return numpy


class C19(Prop):
  id = 'C19'
  lean_module = 'DK.Props.C19'
  uses_t1 = False
  theorems = [
    'DK.C19.step_ok_form', 'DK.C19.step_raises_on_projection_failure', 'DK.C19.step_raises_on_line_failure', 'DK.C19.accepted_iff',
    'DK.C19.step_feasible', 'DK.C19.step_monotone', 'DK.C19.descent_direction', 'DK.C19.descent_strict', 'DK.C19.fixed_point_first_order',
    'DK.C19.descent_decreases', 'DK.C19.step_progress', 'DK.C19.ascent_direction', 'DK.C19.ascent_noop', 'DK.C19.steps_monotone',
    'DK.projection_inequality', 'DK.feasible_convex',
  ]
  rule = ('stubbed: projection status 0..9 x success T/F and line status 0..9 x success T/F on {leaf, tree, tree with MF}, flat / device-shaped start, step sizes > 0; '
          'real: convex leaves / trees (single- and multi-row), random feasible starts flat and device-shaped, prices of all shapes, step sizes 1/8..4, 1-4 repeated steps; '
          'integer-typed starts (int ndarray / list of ints); histories step -> leaf setter (bounds, cbounds, cost parameter) -> step on the same tree compared with a fresh twin; '
          'sub-balanced sets (eq / ineq, sign +1 / -1) with the balance active; a raise from a feasible start is compared with a reference projection; '
          'two targeted families: "overshoot" (slots on a bound with the gradient pointing outward next to slots with stepsize x curvature > 2, step sizes 1/2/4) and '
          '"face" (a cumulative / aggregate bound active together with the box, raw step leaving the box in every slot); '
          'non-trivial: the start is not first-order optimal (projected-gradient residual > 1e-3)')
  sizes = {'quick': 60, 'thorough': 1500}
  assumptions = [
    'both SLSQP calls of step are parameters of the model; the theorems hold under the stated oracle specifications (ProjSpec, LineSpec / LineMinSpec) — level: proof (partial)',
    'status 8 with success=False is accepted by the code (logged only); the specifications are about accepted answers',
    'models on which SciPy\'s SLSQP is known to corrupt memory (more equality constraints than the variables it works on; vk/scipy_guard.py) are not stepped '
    'for real: counted as scipy_unsafe_skipped',
  ]

  def __init__(self):
    self.ev = {'real_steps': 0, 'raised_optimization_exception': 0, 'strict_checked': 0, 'no_feasible_start': 0, 'repeated_sequences': 0,
               'max_violation': 0.0, 'stub_runs': 0, 'scipy_unsafe_skipped': 0}

  # ------------------------------------------------------------------ cases
  def stub_case(self, rng, tier, mkind, st_p, ok_p, st_l, ok_l, n=None, variant=None):
    """variant 'near': the projection answers a point within 2^-9 per entry of the start (a short move is still a move);
    'edge': it answers points 2^-14 inside the lower bounds and the line answer is 1 (the returned flow is exactly that point)."""
    from fractions import Fraction as Fr
    m = G.random_model(rng, tier, mkind, nmax=4, n=n, classes=['Device', 'CDevice', 'IDevice2'] if n else None)
    R, n = G.model_rows(m), m['n']
    N = R*n
    mk = lambda st, ok, k: {'x': [C.fs(C.dy(rng, -4, 4, 3)) for _ in range(k)], 'success': ok, 'status': st, 'message': 'stub'}
    rl = mk(st_l, ok_l, 1)
    rl['x'] = [C.fs(C.dy(rng, 0, 1, 3))]
    s = G.dyadic_flow(rng, m)
    rp = mk(st_p, ok_p, N)
    if variant == 'near':
      rp['x'] = [C.fs(C.F(v) + Fr(rng.choice([-1, 1, 1]), 1 << 9)) for v in s]
    elif variant == 'edge':
      lb, _ = gen.tree_box(m['tree'], n)
      rp['x'] = [C.fs(C.F(v) + Fr(1, 1 << 14)) for v in lb]
      rl['x'] = ['1']
    shape = rng.choice(['flat', 'dev'])
    return {'kind': 'stub', 'model': m, 'p': G.gen_price(rng, R, n), 's': s, 'sshape': shape,
            'sorder': rng.choice(['C', 'F']) if shape == 'dev' else 'C',
            'stepsize': C.fs(C.dy(rng, 0.125, 4, 3)) if rng.random() < 0.7 else rng.choice(['1/128', '1/1024', '1/8192']),
            'res_proj': rp, 'res_line': rl, 'probe': G.dyadic_flow(rng, m), 'tprobe': C.fs(C.dy(rng, 0, 1, 3))}

  def overshoot_case(self, rng, tier, n=None):
    """geometry in which only the limited minimisation ALONG THE PROJECTED SEGMENT keeps the cost from rising:
    strongly curved slots with stepsize x curvature > 2 started away from their optimum, next to slots that sit on a
    bound with the gradient pointing out of the box (so the projection changes the direction).  Leaves: ADevice with a
    per-slot polynomial a x^2 + b x, or IDevice2 with a steep marginal-cost line; single row or a row of a tree."""
    from fractions import Fraction as Fr
    big = n is not None
    n = n or rng.randint(2, 5)
    alpha = rng.choice([1, 2, 4])
    cls = rng.choice(['ADevice', 'ADevice', 'IDevice2'])
    pinned = [rng.random() < 0.4 for _ in range(n)]
    if all(pinned) or not any(pinned):
      pinned[0] = True; pinned[-1] = False
    lb, hb, start, price = [], [], [], []
    if cls == 'ADevice':
      cs = []
      for k in range(n):
        lo = C.dy(rng, -1, 1); w = C.dy(rng, 1, 3)
        lb.append(lo); hb.append(lo + w)
        if pinned[k]:       # weak curvature, on the upper bound, price pushes further up (or mirrored on the lower bound)
          a = Fr(rng.randint(0, 2), 32); up = rng.random() < 0.5
          x0 = lo + w if up else lo
          cs.append([a, Fr(0)])
          g0 = 2*a*x0
          price.append(-(g0 + C.dy(rng, 1, 4)) if up else -g0 + C.dy(rng, 1, 4))
          start.append(x0)
        else:               # curvature 2a with stepsize * 2a in (2, 16]; optimum strictly inside; start near a bound
          a = Fr(rng.choice([2, 3, 4, 6, 8]), 2*alpha) if alpha > 1 else Fr(rng.choice([3, 4, 6, 8]), 2)
          opt = lo + w*Fr(rng.randint(2, 6), 8)
          cs.append([a, -2*a*opt])
          price.append(Fr(0))
          start.append(lo + w*Fr(rng.choice([0, 1, 7, 8]), 8))
      d = {'cls': 'ADevice', 'n': n, 'lb': [C.fs(x) for x in lb], 'hb': [C.fs(x) for x in hb], 'cbs': [],
           'prm': {'f': {'k': 'poly', 'cs': [[C.fs(a), C.fs(b), '0'] for a, b in cs], 'off': '0'}}, '_py': {'bform': 'table', 'cform': None}}
    else:
      pl, ph = [], []
      for k in range(n):
        lo = C.dy(rng, 0, 2); w = Fr(rng.choice([1, 2, 4]), 4)
        lb.append(lo); hb.append(lo + w)
        if pinned[k]:
          pl.append(Fr(-1, 4)); ph.append(Fr(-1, 8))
          up = rng.random() < 0.5
          start.append(lo + w if up else lo)
          price.append(-C.dy(rng, 1, 4) if up else C.dy(rng, 1, 4))
        else:               # slope (ph - pl)/w >= 3/alpha ... stepsize * slope > 2
          pl.append(Fr(-8)); ph.append(Fr(-8) + w*Fr(rng.choice([3, 4, 6, 8]), 1))
          start.append(lo + w*Fr(rng.choice([0, 1, 7, 8]), 8))
          price.append(-(pl[-1] + (ph[-1] - pl[-1])*Fr(rng.randint(2, 6), 8)))     # optimum strictly inside
      d = {'cls': 'IDevice2', 'n': n, 'lb': [C.fs(x) for x in lb], 'hb': [C.fs(x) for x in hb], 'cbs': [],
           'prm': {'p_l': [C.fs(x) for x in pl], 'p_h': [C.fs(x) for x in ph]}, '_py': {'bform': 'table', 'cform': None}}
    if big or rng.random() < 0.5:
      m = {'tree': G.leaf_tree(d, 'a'), 'n': n}
      p = [C.fs(x) for x in price]
      st = [C.fs(x) for x in start]
    else:
      o = G.convex_leaf(rng, tier, n, [rng.choice(['Device', 'IDevice2', 'CDevice'])], with_cbounds=False)
      t = {'k': 'node', 'id': 'root', 'sb': None, 'sub': False, 'ch': [{'k': 'leaf', 'id': 'a', 'dev': d}, {'k': 'leaf', 'id': 'b', 'dev': o}]}
      m = {'tree': t, 'n': n}
      p = [C.fs(x) for x in price]
      mid = [(C.F(a) + C.F(b))/2 for a, b in zip(o['lb'], o['hb'])]
      st = [C.fs(x) for x in start] + [C.fs(x) for x in mid]
    return {'kind': 'real', 'family': 'overshoot', 'model': m, 'p': p, 'sshape': rng.choice(['flat', 'dev']), 'stepsize': C.fs(alpha),
            'seed': 0, 'start': st, 'repeat': rng.choice([1, 2, 3])}

  def face_case(self, rng, tier):
    """a cumulative (single row) or aggregate (tree) bound active at the start TOGETHER with the box: the start lies
    on the face `sum = H` strictly inside the box, the per-slot prices differ and the raw gradient step leaves the box in
    every slot, so the nearest feasible point is a vertex-ish point of the face far from the start."""
    from fractions import Fraction as Fr
    n = rng.randint(2, 5)
    alpha = rng.choice([1, 2, 4])
    w = Fr(rng.choice([1, 2, 4]), 2)
    lo = C.dy(rng, 0, 2)
    frac = Fr(rng.randint(2, 6), 8)
    prices = rng.sample([Fr(-k, 2) for k in range(2*int(w) + 2, 2*int(w) + 14)], n)      # all < -w/alpha * ... distinct, push up
    def dev(cls, cbs):
      d = G.convex_leaf(rng, tier, n, [cls], with_cbounds=False)
      d['lb'] = [C.fs(lo)]*n; d['hb'] = [C.fs(lo + w)]*n; d['_py']['bform'] = 'table'
      if cls == 'IDevice2':
        d['prm'] = {'p_l': '-1/4', 'p_h': '-1/8'}
      if cbs:
        d['cbs'] = cbs; d['_py']['cform'] = '4tuples'
      return d
    cls = rng.choice(['Device', 'Device', 'IDevice2', 'CDevice'])
    if rng.random() < 0.5:
      H = n*(lo + w*frac)
      d = dev(cls, [[C.fs(n*lo - 1), C.fs(H), 0, n]])
      m = {'tree': G.leaf_tree(d, 'd'), 'n': n}
      st = [C.fs(lo + w*frac)]*n
    else:
      a, b = dev(cls, None), dev('Device', None)
      fa, fb = frac, Fr(rng.randint(1, 7), 8)
      H = 2*lo + w*(fa + fb)
      t = {'k': 'node', 'id': 'root', 'sb': [[C.fs(2*lo - 1), C.fs(H)]]*n, 'sub': False,
           'ch': [{'k': 'leaf', 'id': 'a', 'dev': a}, {'k': 'leaf', 'id': 'b', 'dev': b}]}
      m = {'tree': t, 'n': n}
      st = [C.fs(lo + w*fa)]*n + [C.fs(lo + w*fb)]*n
    return {'kind': 'real', 'family': 'face', 'model': m, 'p': [C.fs(x) for x in prices], 'sshape': rng.choice(['flat', 'dev']),
            'stepsize': C.fs(alpha), 'seed': 0, 'start': st, 'repeat': rng.choice([1, 2, 3])}

  def balance_case(self, rng, tier):
    """a SubBalancedDeviceSet whose labelled flows must balance (`eq`) or stay on one side (`ineq`, sign +1 / -1), with
    prices that push against the balance so that it is active for the projected gradient step."""
    n = rng.randint(1, 3)
    L = lambda v: [C.fs(v)]*n
    hi = C.dy(rng, 1, 3); cap = C.dy(rng, 1, 3)
    load = G.convex_leaf(rng, tier, n, [rng.choice(['Device', 'IDevice2', 'CDevice'])], with_cbounds=False)
    load['lb'] = L(0); load['hb'] = L(hi); load['_py']['bform'] = 'table'
    if load['cls'] == 'IDevice2':
      load['prm'] = {'p_l': '-1/2', 'p_h': '-1/4'}
    g = G.convex_leaf(rng, tier, n, ['Device'], with_cbounds=False)
    g['lb'] = L(-cap); g['hb'] = L(0); g['_py']['bform'] = 'table'
    kids = [{'k': 'leaf', 'id': 'la', 'dev': load}, {'k': 'leaf', 'id': 'ga', 'dev': g}]
    rows = [[C.fs(-C.dy(rng, 1, 3))]*n, [C.fs(-C.dy(rng, 0.25, 0.75, 2))]*n]
    if rng.random() < 0.5:
      z = G.convex_leaf(rng, tier, n, ['Device', 'IDevice2'], with_cbounds=False)
      kids.append({'k': 'leaf', 'id': 'z', 'dev': z}); rows.append([C.fs(C.dy(rng, -1, 1, 2))]*n)
    ctype = rng.choice(['ineq', 'ineq', 'eq'])
    sign = rng.choice(['-1', '-1', '1'])
    if ctype == 'ineq' and sign == '1':       # sum >= 0: make consuming costly and generating paid, so the set wants sum < 0
      rows[0] = [C.fs(C.dy(rng, 0.25, 0.75, 2))]*n; rows[1] = [C.fs(C.dy(rng, 1, 3))]*n
    t = {'k': 'node', 'id': 'site', 'sb': None, 'ch': kids, 'sub': True, 'labels': ['a'], 'ctype': ctype, 'sign': sign, 'rem': False}
    if rng.random() < 0.4:                    # the labelled rows inside an inner plain set
      t['ch'] = [{'k': 'node', 'id': 'inner', 'sb': None, 'sub': False, 'ch': kids[:2]}] + kids[2:]
    return {'kind': 'real', 'family': 'balance', 'model': {'tree': t, 'n': n}, 'p': rows, 'sshape': rng.choice(['flat', 'dev']),
            'stepsize': rng.choice(['1', '2', '1/2']), 'seed': rng.randrange(1 << 30), 'repeat': rng.choice([1, 2, 3])}

  def real_case(self, rng, tier):
    r = rng.random()
    if r < 0.08:
      return self.balance_case(rng, tier)
    if r < 0.18:
      return self.overshoot_case(rng, tier)
    if r < 0.31:
      return self.face_case(rng, tier)
    if r < 0.41:       # integer-typed feasible start (an int ndarray or a plain list of ints), moderate |stepsize * gradient| < 1
      m, flow, price = G.int_model(rng, tier)
      return {'kind': 'real', 'family': 'int-start', 'model': m, 'p': price, 'sshape': rng.choice(['flat', 'dev']), 'stepsize': rng.choice(['1', '1/2', '1']),
              'seed': 0, 'start': flow, 'sdtype': 'int', 'slist': rng.random() < 0.3, 'repeat': rng.choice([1, 2, 3])}
    if r < 0.51:       # step, re-rate a leaf through its public setters, step the SAME tree again: compared with a fresh twin
      m, edit = G.history_model(rng, tier)
      return {'kind': 'history', 'model': m, 'edit': edit, 'p': G.gen_price(rng, G.model_rows(m), m['n']), 'first': rng.choice(['step', 'step', 'touch']),
              'stepsize': C.fs(C.dy(rng, 0.5, 4, 2)), 'seed': rng.randrange(1 << 30), 'sshape': rng.choice(['flat', 'dev'])}
    for _ in range(6):        # a feasible model (LP over the implementation's polytope); starts are drawn inside it
      m = G.random_model(rng, tier)
      R, n = G.model_rows(m), m['n']
      try:
        dev = G.build_model(m)
        poly = G.polytope(dev, R*n)
        if poly[4] and G.feasibility(dev, R*n, poly)[0] == 'feasible':
          break
      except Exception:
        continue
    shape = rng.choice(['flat', 'dev'])
    return {'kind': 'real', 'model': m, 'p': G.gen_price(rng, R, n), 'sshape': shape, 'sorder': rng.choice(['C', 'F']) if shape == 'dev' else 'C',
            'stepsize': C.fs(C.dy(rng, 0.125, 4, 3)) if rng.random() < 0.65 else rng.choice(['1/128', '1/1024', '1/8192', '1/32']),
            'seed': rng.randrange(1 << 30), 'repeat': rng.choice([1, 1, 2, 3, 4])}

  def corpus(self):
    """minimised past failure: the ascent-sign no-op / rejection of device-shaped starts."""
    d = {'cls': 'IDevice2', 'n': 3, 'lb': ['0']*3, 'hb': ['2']*3, 'cbs': [], 'prm': {'p_l': '-2', 'p_h': '-1'}, '_py': {'bform': 'table', 'cform': None}}
    m = {'tree': {'k': 'leaf', 'id': 'i', 'dev': d}, 'n': 3}
    import json
    # witnesses of the two listed (open) findings, so that their KNOWN-FINDING lines print on every run:
    # F3: utils.project answers the start point with success on an MF tree whose adaptor constraints make the active set
    #     degenerate; step 2 is a silent no-op (found at thorough seed 403)
    f3 = json.loads('{"kind": "real", "model": {"tree": {"k": "node", "id": "root", "sb": [["183/32", "221/32"], ["83/16", "25/4"], ["15/2", "159/16"]], "ch": [{"k": "leaf", "id": "h1", "dev": {"cls": "Device", "n": 3, "lb": ["3/2", "3/4", "3"], "hb": ["3/2", "3/4", "17/4"], "cbs": [["3/2", "15/8", 0, 1], ["3/4", "9/8", 1, 2], ["111/32", "17/4", 2, 3]], "prm": {}, "_py": {"bform": "pair", "cform": "4tuples"}}}, {"k": "mf", "id": "m2", "dev": {"cls": "CDevice", "n": 3, "lb": ["1", "3/4", "5/4"], "hb": ["1", "3/4", "5/4"], "cbs": [["1", "11/8", 0, 1], ["2", "9/4", 1, 3]], "prm": {"a": "-1/4", "b": "3/2"}, "_py": {"bform": "table", "cform": "4tuples"}}, "flows": ["e", "h"], "ratios": ["11/4", "11/4"], "ctype": "ineq"}, {"k": "leaf", "id": "h3", "dev": {"cls": "CDevice2", "n": 3, "lb": ["5/4", "5/4", "5/4"], "hb": ["4", "4", "4"], "cbs": [["219/32", "159/16", 0, 3]], "prm": {"p_l": "-9/4", "p_h": "-1"}, "_py": {"bform": "scalar", "cform": "2tuple"}}}], "sub": false}, "n": 3}, "p": [["-3/8", "1/4", "1/4"], ["-1/4", "7/4", "-17/8"], ["1/8", "11/8", "5/8"], ["11/8", "-3/2", "-3/8"]], "sshape": "dev", "stepsize": "1/2", "seed": 484437361, "repeat": 4, "start": ["1.5000000000000002", "0.7500000000000001", "3.594632874115084", "0.5600769416315701", "0.3946726066792741", "1.1795503777120864", "0.4399230583684301", "0.355327393320726", "0.07044962228791385", "3.3187130546622456", "3.6875", "2.9312869453377552"], "family": "corpus"}')
    # F4: the projection answers success=False / status 8, step accepts it and returns a flow violating an aggregate equality by ~3e-6
    f4 = json.loads('{"kind": "real", "model": {"tree": {"k": "node", "id": "root", "sb": [["1/8", "31/32"], ["-5/4", "7/2"], ["-97/32", "-1/8"], ["-19/16", "-21/32"], ["15/16", "15/16"], ["-9/4", "-13/16"]], "ch": [{"k": "leaf", "id": "a1", "dev": {"cls": "Device", "n": 6, "lb": ["-4", "-4", "-4", "-4", "-4", "-4"], "hb": ["0", "0", "0", "0", "0", "0"], "cbs": [], "prm": {}, "_py": {"bform": "scalar", "cform": null}}}, {"k": "leaf", "id": "b2", "dev": {"cls": "TDevice", "n": 6, "lb": ["3/4", "11/4", "0", "7/4", "7/4", "7/4"], "hb": ["7/2", "7/2", "15/4", "2", "2", "7/2"], "cbs": [], "prm": {"sustainment": "7/8", "efficiency": "11/4", "t_init": "9/4", "t_optimal": "47/2", "t_range": "1/4", "t_external": ["21", "-5/2", "27", "39/2", "17", "11/2"], "c": "1/2"}, "_py": {"bform": "pair", "cform": null}}}], "sub": false}, "n": 6}, "p": ["3/8", "-5/2", "3/2", "-3/2", "-21/8", "3/8"], "sshape": "flat", "stepsize": "7/4", "seed": 389054278, "repeat": 2, "start": ["-2.105506050930447", "-3.899109067677524", "-0.41695968996687827", "-3.1461390439213592", "-1.03673033739872", "-3.191760668932298", "2.2961969811729945", "3.5", "0.29195968996687827", "2.0", "1.97423033739872", "2.3792606689322984"], "family": "corpus"}')
    # P1 (open): with a small step size the whole projected segment changes the cost by less than ~1e-3; the inner one-variable SLSQP run
    # (no jac, default ftol 1e-6) stops at x = 0 with success and step is a silent no-op although the start is clearly sub-optimal
    dp = {'cls': 'Device', 'n': 3, 'lb': ['0']*3, 'hb': ['4']*3, 'cbs': [], 'prm': {}, '_py': {'bform': 'scalar', 'cform': None}}
    p1 = {'kind': 'real', 'family': 'corpus', 'model': {'tree': {'k': 'leaf', 'id': 'a', 'dev': dp}, 'n': 3}, 'p': '1', 'sshape': 'flat',
          'stepsize': '1/4096', 'seed': 0, 'start': ['2', '2', '2'], 'repeat': 1}
    # F5 (open): on a tree with an MFDeviceSet the projection sub-problem, handed the analytic constraint Jacobians, makes SLSQP answer
    # status 4 ("Inequality constraints incompatible") from a FEASIBLE start, and step raises; the same call with numerically differentiated
    # constraints finds the projection (found at quick seed 302)
    f5 = json.loads('{"kind": "real", "model": {"tree": {"k": "node", "id": "root", "sb": [["-21/16", "9/8"], ["-1/4", "-1/4"], ["-3/2", "3"], ["-15/16", "-1/4"]], "ch": [{"k": "mf", "id": "m1", "dev": {"cls": "CDevice2", "n": 4, "lb": ["3", "7/4", "3/2", "7/4"], "hb": ["3", "7/4", "7/4", "15/4"], "cbs": [["19/4", "21/4", 0, 2], ["25/16", "7/4", 2, 3], ["3/2", "2", 3, 4]], "prm": {"p_l": "-1751/1000", "p_h": "-7/4"}, "_py": {"bform": "pair", "cform": "4tuples"}}, "flows": ["e"], "ratios": null}, {"k": "leaf", "id": "b2", "dev": {"cls": "IDevice2", "n": 4, "lb": ["0", "0", "0", "0"], "hb": ["7/4", "7/4", "7/4", "7/4"], "cbs": [["7/16", "35/32", 3, 4], ["-7/8", "35/16", 1, 3]], "prm": {"p_l": "-5/4", "p_h": "-5/4"}, "_py": {"bform": "table", "cform": "4tuples"}}}, {"k": "leaf", "id": "b3", "dev": {"cls": "PVDevice", "n": 4, "lb": ["-15/4", "-4", "-3/2", "-3"], "hb": ["-2", "-5/2", "-1/2", "-3"], "cbs": [], "prm": {}, "_py": {"bform": "pair", "cform": null}}}], "sub": false}, "n": 4}, "p": "-5/4", "sshape": "flat", "sorder": "C", "stepsize": "4", "seed": 836845820, "repeat": 1, "family": "corpus"}')
    return [{'kind': 'real', 'model': m, 'p': '1/2', 'sshape': sh, 'stepsize': '1', 'seed': 7, 'repeat': 3} for sh in ('dev', 'flat')] + [f3, f4, p1, f5]

  def cases(self, rng, tier, count):
    out = []
    reps = 1 if tier == 'quick' else 4
    for _ in range(reps):
      for mkind in ('leaf', 'tree', 'mf'):
        for st in G.SLSQP_STATUSES:
          for ok in (True, False):
            # projection answers (st, ok), line succeeds; and projection succeeds, line answers (st, ok)
            out.append(self.stub_case(rng, tier, mkind, st, ok, 0, True))
            out.append(self.stub_case(rng, tier, mkind, 0, True, st, ok))
        # double faults: the projection merely tolerated (status 8, success False) or clean, times EVERY answer of the limited minimisation
        for st in G.SLSQP_STATUSES:
          for ok in (True, False):
            out.append(self.stub_case(rng, tier, mkind, 8, False, st, ok))
        out.append(self.stub_case(rng, tier, mkind, 4, False, 9, False))
        for variant in ('near', 'near', 'edge', 'edge'):
          out.append(self.stub_case(rng, tier, mkind, 0, True, 0, True, variant=variant))
      out.append(self.stub_case(rng, tier, 'leaf', 0, True, 0, True, n=260))       # more than 256 variables
    for _ in range(6*reps):     # stubbed step after an earlier use of the tree and a leaf re-rating; integer-typed start
      m, edit = G.history_model(rng, tier)
      c = self.stub_case(rng, tier, 'leaf', 0, True, 0, True)
      R, n = G.model_rows(m), m['n']
      m2 = G.edited_model(m, edit)
      c.update({'model': m, 'edit': edit, 'p': G.gen_price(rng, R, n), 's': G.dyadic_flow(rng, m2), 'probe': G.dyadic_flow(rng, m2)})
      c['res_proj']['x'] = [C.fs(C.dy(rng, -4, 4, 3)) for _ in range(R*n)]
      out.append(c)
    for _ in range(4*reps):
      m, flow, price = G.int_model(rng, tier)
      c = self.stub_case(rng, tier, 'leaf', 0, True, 0, True)
      R, n = G.model_rows(m), m['n']
      c.update({'model': m, 'p': price, 's': flow, 'sdtype': 'int', 'probe': G.dyadic_flow(rng, m), 'stepsize': rng.choice(['1/2', '1', '3/4'])})
      c['res_proj']['x'] = [C.fs(C.dy(rng, -4, 4, 3)) for _ in range(R*n)]
      out.append(c)
    for _ in range(reps):       # one real overshoot geometry with more than 256 variables
      c = self.overshoot_case(rng, tier, n=260)
      c['repeat'] = 1
      out.append(c)
    for _ in range(count):
      out.append(self.real_case(rng, tier))
    return out

  # ------------------------------------------------------------------ the implementation under two stubs
  def run_stub(self, case):
    n_ = np()
    S = G.solve_module(); U = G.utils_module()
    G.quiet()
    m = case['model']
    dev = G.build_model(m)
    if case.get('edit'):
      G.touch(dev)
      G.apply_edit(dev, case['edit'])
    p = G.price_arg(case['p'])
    s = G.int_flow_arg(case['s'], m, case['sshape']) if case.get('sdtype') == 'int' else G.flow_arg(case['s'], m, case['sshape'], case.get('sorder', 'C'))
    fp, fl = G.fake_result(case['res_proj']), G.fake_result(case['res_line'])
    rec = {}
    probes = {'proj': [C.pf(v) for v in case['probe']], 'line': [C.pf(case['tprobe'])]}
    def stub(name, fake):
      def f(*a, **kw):
        fun = kw.pop('fun', a[0] if a else None); x0 = kw.pop('x0', a[1] if len(a) > 1 else None)
        rec[name + '_calls'] = rec.get(name + '_calls', 0) + 1
        try:      # observed at call time: the closures of step are late-binding
          rec[name] = G.observe_problem(fun, x0, kw, probes[name])
        except Exception as e:
          rec[name] = e
        return fake
      return f
    oldS, oldU = S.minimize, U.minimize
    S.minimize, U.minimize = stub('line', fl), stub('proj', fp)
    try:
      try:
        s1, o = S.step(dev, p, s, C.pf(case['stepsize']))
        if tuple(n_.array(s1).shape) != tuple(int(v) for v in dev.shape):
          raise ValueError('step returned shape %s for a device of shape %s' % (n_.array(s1).shape, tuple(dev.shape)))
        if o is not fl:
          raise ValueError('step returned a result object that is not the limited minimisation\'s')
        outcome = [1.0, float(dev.shape[0]), float(dev.shape[1])] + list(n_.array(s1, dtype=float).reshape(-1))
      except S.OptimizationException as e:
        outcome = [0.0, 1.0 if e.o is fp else (2.0 if e.o is fl else 9.0)]
    finally:
      S.minimize, U.minimize = oldS, oldU
    args = None
    for k in ('proj', 'line'):
      if isinstance(rec.get(k), Exception):
        raise rec[k]
    if 'proj' in rec and 'line' in rec:
      if rec['proj_calls'] != 1 or rec['line_calls'] != 1:
        raise ValueError('optimisers called %d / %d times' % (rec['proj_calls'], rec['line_calls']))
      args = rec['proj'] + rec['line']
    return outcome, args

  def ops(self, case):
    if case['kind'] != 'stub':
      return []
    m = G.edited_model(case['model'], case['edit']) if case.get('edit') else case['model']
    base = {'tree': m['tree'], 'n': m['n'], 'P': case['p'], 's': case['s'], 'stepsize': case['stepsize'],
            'res_proj': case['res_proj'], 'res_line': case['res_line']}
    memo = {}
    def run():
      if 'r' not in memo:
        try:
          memo['r'] = self.run_stub(case)
        except Exception as e:
          memo['r'] = e
      if isinstance(memo['r'], Exception):
        raise memo['r']
      return memo['r']
    out = [Op(dict(base, op='solve.step_wrap'), lambda: run()[0], 1e-9, 'outcome of step under stubbed optimisers')]
    accepted = case['res_proj']['success'] or case['res_proj']['status'] == 8
    if accepted:
      def args():
        a = run()[1]
        if a is None:
          raise ValueError('the limited minimisation was never called although the projection was accepted')
        return a
      out.append(Op(dict(base, op='solve.step_args', probe=case['probe'], tprobe=case['tprobe']), args, 1e-9, 'arguments of the two optimiser calls of step'))
    return out

  # ------------------------------------------------------------------ oracle
  def oracle(self, case):
    if case['kind'] == 'history':
      return self.oracle_history(case)
    return self.oracle_stub(case) if case['kind'] == 'stub' else self.oracle_real(case)

  def oracle_history(self, case):
    """step (or merely read the tree), re-rate a leaf through its public setters, step the SAME tree from a flow feasible for the
    re-rated tree; judged against a fresh twin built from the final parameters: feasible for the twin and equal to the twin's step."""
    n_ = np()
    S = G.solve_module(); G.quiet()
    m, edit = case['model'], case['edit']
    m2 = G.edited_model(m, edit)
    dev, twin = G.build_model(m), G.build_model(m2)
    R, n = G.model_rows(m), m['n']
    N = R*n
    base = {'classes': sorted(set(l['dev']['cls'] for l in G.all_leaves(m['tree']))), 'mf': False, 'rows': R, 'first': case['first'], 'sshape': case['sshape']}
    if not (SG.safe_to_solve(dev) and SG.safe_to_solve(twin)):
      self.ev['scipy_unsafe_skipped'] += 1
      return []
    poly2 = G.polytope(twin, N)
    box2 = G.model_box(m2)
    if not poly2[4]:
      return []
    s = G.feasible_start(twin, N, poly2, case['seed'])
    if s is None or G.violation(twin, s, m2)[0] > 1e-9:
      self.ev['no_feasible_start'] += 1
      return []
    p = G.price_arg(case['p']); alpha = C.pf(case['stepsize'])
    self.ev['histories'] = self.ev.get('histories', 0) + 1
    where = 'tree %s, price %s, stepsize %s, first call: %s, then leaf %s re-rated to bounds %s / %s%s%s, start %s (%s)' % (
      base['classes'], case['p'], case['stepsize'], case['first'], edit['leaf'], edit['lb'], edit['hb'],
      (', cbounds %s' % edit['cbs']) if 'cbs' in edit else '', ((', a=%s' % edit['a']) if 'a' in edit else '') + ((', parameters %s' % edit['prm']) if edit.get('prm') else ''), s.round(6).tolist(), case['sshape'])
    def run(d, start):
      arg = start.reshape(R, n) if case['sshape'] == 'dev' else start.copy()
      try:
        s1, o = S.step(d, p, arg, alpha)
        return ('ok', n_.array(s1, dtype=float))
      except S.OptimizationException:
        return ('raise', None)
    try:
      if case['first'] == 'step':
        poly1 = G.polytope(dev, N)
        s_old = G.feasible_start(dev, N, poly1, case['seed']) if poly1[4] else None
        if s_old is not None:
          run(dev, s_old)
        else:
          G.touch(dev)
      else:
        G.touch(dev)
      G.apply_edit(dev, edit)
      r1 = run(dev, s)
      r2 = run(twin, s)
    except Exception as e:
      return [{'key': dict(base, kind='wrong-exception', exc=type(e).__name__), 'detail': '%s: %s in a step / re-rate / step history; %s' % (type(e).__name__, str(e)[:120], where)}]
    if r1[0] != r2[0]:
      return [{'key': dict(base, kind='history-differs'), 'detail': 'after the history step %s, on a fresh twin built from the final parameters it %s; %s' % (
        'returned' if r1[0] == 'ok' else 'raised', 'returned' if r2[0] == 'ok' else 'raised', where)}]
    if r1[0] == 'raise':
      return []
    x1, x2 = r1[1].reshape(-1), r2[1].reshape(-1)
    v, what = G.violation(twin, x1, m2)
    if not G.n_box_ok(x1, box2, 1e-6):
      bd = n_.stack((n_.array(box2[0]), n_.array(box2[1])), axis=1)
      k = int(n_.argmax(n_.maximum(bd[:, 0] - x1, x1 - bd[:, 1])))
      v, what = max(v, float(max(bd[k, 0] - x1[k], x1[k] - bd[k, 1]))), 'the CURRENT bounds (%g, %g) of variable %d (value %.6g)' % (bd[k, 0], bd[k, 1], k, x1[k])
    if v > 1e-6 and v > 10*G.violation(twin, x2, m2)[0]:
      return [{'key': dict(base, kind='stale-after-setter'), 'detail': 'step on the same tree returned %s which violates %s by %.3g; on a fresh twin it returns %s; %s' % (
        x1.round(6).tolist(), what, v, x2.round(6).tolist(), where)}]
    c1, c2 = float(twin.cost(x1, p)), float(twin.cost(x2, p))
    if abs(c1 - c2) > 1e-5*max(1.0, abs(c2)) or float(n_.abs(x1 - x2).max()) > 1e-4:
      return [{'key': dict(base, kind='history-differs'), 'detail': 'step on the same tree returns %s (cost %.9g), on a fresh twin %s (cost %.9g); %s' % (
        x1.round(6).tolist(), c1, x2.round(6).tolist(), c2, where)}]
    case['_active'] = True
    return []

  def oracle_stub(self, case):
    """property text on stubbed runs: a failure other than status 8 of either call must surface as OptimizationException."""
    self.ev['stub_runs'] += 1
    rp, rl = case['res_proj'], case['res_line']
    acc = lambda r: r['success'] or r['status'] == 8
    key = {'kind': 'stub', 'proj': [rp['status'], rp['success']], 'line': [rl['status'], rl['success']]}
    try:
      outcome, _ = self.run_stub(case)
    except Exception as e:
      return [{'key': dict(key, kind='stub-raised', exc=type(e).__name__),
               'detail': 'step under stubbed optimisers raised %s: %s (start shape %s)' % (type(e).__name__, str(e)[:200], case['sshape'])}]
    if not acc(rp) and outcome[:2] != [0.0, 1.0]:
      return [{'key': dict(key, kind='silent-failure', call='projection'), 'detail': 'projection reported success=False status=%d but step did not raise its OptimizationException' % rp['status']}]
    if acc(rp) and not acc(rl) and outcome[:2] != [0.0, 2.0]:
      return [{'key': dict(key, kind='silent-failure', call='line'), 'detail': 'limited minimisation reported success=False status=%d but step did not raise its OptimizationException' % rl['status']}]
    if acc(rp) and acc(rl):
      if outcome[0] != 1.0:
        return [{'key': dict(key, kind='raised-on-accepted'), 'detail': 'both calls were accepted (success or status 8) but step raised'}]
      n_ = np()
      s = n_.array([C.pf(v) for v in case['s']]); q = n_.array([C.pf(v) for v in rp['x']]); x = C.pf(rl['x'][0])
      want = s + x*(q - s)
      if n_.abs(n_.array(outcome[3:]) - want).max() > 1e-9:
        return [{'key': dict(key, kind='not-on-segment'), 'detail': 'step returned %s, not s + x (s_next - s) = %s' % ([float(v) for v in outcome[3:]], want.tolist())}]
    return []

  def oracle_real(self, case):
    n_ = np()
    S = G.solve_module()
    G.quiet()
    from scipy.optimize import minimize
    m = case['model']
    dev = G.build_model(m)
    R, n = G.model_rows(m), m['n']
    N = R*n
    classes = sorted(set(l['dev']['cls'] for l in G.all_leaves(m['tree'])))
    base = {'classes': classes, 'mf': gen.tree_has(m['tree'], 'mf'), 'rows': R, 'sshape': case['sshape'], 'family': case.get('family', 'random')}
    if not SG.safe_to_solve(dev):        # covers step's projection, my own reference projection, and the limited minimisation
      self.ev['scipy_unsafe_skipped'] += 1
      return []
    poly = G.polytope(dev, N)
    if not poly[4]:
      return []
    s = n_.array([C.pf(v) for v in case['start']]) if case.get('start') else G.feasible_start(dev, N, poly, case['seed'])
    if s is None or G.violation(dev, s)[0] > 1e-9:
      self.ev['no_feasible_start'] += 1
      return []
    p = G.price_arg(case['p'])
    alpha = C.pf(case['stepsize'])
    f = lambda y: float(dev.cost(y, p))
    g = lambda y: n_.array(dev.deriv(y, p), dtype=float).flatten()
    where = 'classes=%s rows=%d n=%d price=%s stepsize=%s start(seed %d, %s)=%s' % (classes, R, n, case['p'], case['stepsize'], case['seed'], case['sshape'], s.round(6).tolist())
    cur = s.copy()
    costs = [f(cur)]
    for k in range(case['repeat']):
      arg = cur.reshape(R, n) if case['sshape'] == 'dev' else cur.copy()
      if case['sshape'] == 'dev' and case.get('sorder') == 'F':       # the same matrix held in Fortran memory order (e.g. frame.values.T)
        arg = n_.asfortranarray(arg)
      if k == 0 and case.get('sdtype') == 'int':       # the caller's flow is integer-typed (int ndarray or a plain list of ints)
        arg = G.int_flow_arg(case['start'], m, case['sshape'], as_list=bool(case.get('slist')))
      # how far from first-order optimal is the current point (independent of the implementation's projection)
      gx = g(cur)
      r = G.lp(gx, dev, N, poly)
      gap = float(r.fun - gx.dot(cur)) if r.status == 0 else 0.0
      z = cur - alpha*gx
      try:
        pr = minimize(lambda y: ((y - z)**2).sum(), cur, jac=lambda y: 2*(y - z), method='SLSQP', bounds=dev.bounds, constraints=dev.constraints,
                      options={'ftol': 1e-12, 'maxiter': 500})
        resid = float(n_.linalg.norm(pr.x - cur)) if pr.success and G.violation(dev, pr.x)[0] < 1e-7 else 0.0
      except Exception:
        resid = 0.0
      self.ev['real_steps'] += 1
      try:
        s1, o = S.step(dev, p, arg, alpha)
      except S.OptimizationException as e:
        self.ev['raised_optimization_exception'] += 1
        # from a feasible start step should return; it may raise when SLSQP genuinely fails on the projection — which a reference
        # projection that differentiates the constraints numerically (their analytic `jac` dropped) then reproduces
        cons = [{'type': c_['type'], 'fun': c_['fun']} for c_ in dev.constraints]
        if SG.safe_problem(dev.bounds, cons, True):
          try:
            ref = minimize(lambda y: ((y - z)**2).sum(), cur, jac=lambda y: 2*(y - z), method='SLSQP', bounds=dev.bounds, constraints=cons,
                           options={'ftol': 1e-9, 'maxiter': 200, 'disp': False})
            ref_ok = bool(ref.success) and G.violation(dev, ref.x, m)[0] < 1e-6
          except Exception:
            ref_ok = False
          if ref_ok:
            return [{'key': dict(base, kind='raised-on-feasible-start', status=getattr(e.o, 'status', None)),
                     'detail': 'step %d raised OptimizationException (%s) from a feasible start although the projection problem is solvable: the same SLSQP call with '
                               'numerically differentiated constraints returns the feasible point %s; %s' % (k + 1, str(getattr(e.o, 'message', e.o))[:60], ref.x.round(6).tolist(), where)}]
        return []
      except Exception as e:
        return [{'key': dict(base, kind='wrong-exception', exc=type(e).__name__),
                 'detail': 'step raised %s (%s) from a feasible start; %s' % (type(e).__name__, str(e)[:120], where)}]
      a = n_.array(s1, dtype=float)
      if tuple(a.shape) != (R, n):
        return [{'key': dict(base, kind='shape'), 'detail': 'step returned shape %s for a device of shape (%d, %d); %s' % (a.shape, R, n, where)}]
      nxt = a.reshape(-1)
      v, what = G.violation(dev, nxt, m)
      self.ev['max_violation'] = max(self.ev['max_violation'], v)
      if v > 1e-6:
        # was the projection one of the status-8 answers the code accepts with a warning? (re-run: deterministic)
        try:
          _, po = G.utils_module().project(z, cur, dev.bounds, dev.constraints)
          st8 = bool((not po.success) and po.status == 8)
        except Exception:
          st8 = False
        key = dict(base, kind='infeasible-step', proj_status8=st8)
        if v <= 1e-2:
          key['viol_le_1e-2'] = True
        return [{'key': key,
                 'detail': 'step %d returned %s which violates %s by %.3g%s; %s' % (k + 1, nxt.round(6).tolist(), what, v,
                   ' (the projection answered success=False, status 8, which step accepts with a warning)' if st8 else '', where)}]
      c0, c1 = f(cur), f(nxt)
      if c1 > c0 + 1e-9*max(1.0, abs(c0)):
        return [{'key': dict(base, kind='cost-increase'), 'detail': 'step %d raised the cost %.12g -> %.12g; %s' % (k + 1, c0, c1, where)}]
      scale = max(1.0, float(n_.abs(gx).max()))
      # "clearly sub-optimal", whatever the step size: the projected-gradient norm |P(s - a g) - s| / a (a gradient-scaled residual) is
      # above 1e-1 and an LP independently confirms a descent direction.  Then ANY step size > 0 must lower the cost.
      pgrad = resid/alpha
      if resid > 0 and pgrad > 1e-1 and gap < -1e-3*scale:
        case['_active'] = True
        self.ev['strict_checked'] += 1
        if not c1 < c0 - 1e-9*max(1.0, abs(c0)):
          slope = float(gx.dot(pr.x - cur))                 # directional derivative of the cost along the projected segment
          try:
            lx = n_.array(o.x, dtype=float).reshape(-1)
            line_x0 = bool(o.success) and lx.size == 1 and float(lx[0]) == 0.0
          except Exception:
            line_x0 = False
          key = dict(base, kind='no-progress', licq=G.licq(dev, N, poly, cur)[0], dup=G.parallel_active_pair(dev, N, poly, cur))
          if line_x0:
            key['line_x0'] = True
          if line_x0 and abs(slope) < 2e-3:                 # the whole projected segment changes the cost by less than ~1e-3
            key['small_step'] = True
            self.ev['small_slope_noop'] = self.ev.get('small_slope_noop', 0) + 1
          return [{'key': key,
                   'detail': 'step %d made no progress (cost %.12g -> %.12g) although the start is not first-order optimal: projected-gradient norm %.3g '
                             '(residual %.3g at stepsize %g), LP descent gap %.3g, slope along the projected segment %.3g, limited minimisation answered x=%s success=%s; %s' % (
                               k + 1, c0, c1, pgrad, resid, alpha, gap, slope, getattr(o, 'x', None), getattr(o, 'success', None), where)}]
      cur = nxt
      costs.append(c1)
    if case['repeat'] > 1:
      self.ev['repeated_sequences'] += 1
    return []

  def nontrivial(self, case):
    return case['kind'] in ('real', 'history') and bool(case.get('_active'))

  def canon(self, case):
    import json
    return json.dumps({k: v for k, v in case.items() if not k.startswith('_')}, sort_keys=True, default=str)

  def extra_evidence(self):
    return {'c19': self.ev, 'level_note': 'proof (partial): wrapper logic, feasibility/monotonicity under oracle specifications and the descent lemma are proved; SLSQP in both sub-problems is a parameter'}


PROP = C19()
