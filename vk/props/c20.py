"""C20 — scenario helpers decode run-length / care / on-off specs to the table denoted.

Value / size coverage (blind-spot audit r7): run values, storage parameters and cost coefficients are dyadic or, with
probability 1/4, decimals k/10, k/1000, k/10000 (so float32 storage, `round(v, 3)`, `int()` are visible); stored-only outputs
(run tables, cbounds, bounds, parameters) are compared at 1e-12; the quick basis pool contains 24, 25 and 48 with run /
interval starts at or above 24 (hour-of-day arithmetic); `peak_flow` has up to 5 coefficients; a fixed load accepted with
SOME open slots must still carry the table of its runs.

Case kinds (description-first; numbers are dyadic rationals as strings):
  run     loader.run_to_array       a run dictionary (1..6 runs, scalar or vector values, shuffled keys)
  cb      loader.run_to_cbounds     a run dictionary of [l, h] pairs
  care    loader.care2bounds        a care mask + bounds (2-tuple / 2-tuple of vectors / vector)
  on      loader.on2bounds          an on-interval list + bounds
  supply  loader.supply_bounds      the bounds a supply device ends up with
  export  loader.load, loader.dcost a builder export: load (each cost kind), fixed_load, storage, supply, thermal_load

The generator keeps three populations apart (see `gen_export`):
  * MAIN       well-formed exports of the kinds that load today (load / supply x every cost kind incl. supply at basis 2
               and supply x flow_bounds_relative since fix 375582f, fixed_load, storage);
  * MALFORMED  inputs outside the property (no run at 0, fixed load with open slots, unknown type, no `costs` entry,
               cumulative_flow, ...): T2 compares model and implementation outcome (both raising the same type, or both
               loading the same leaves, is agreement); the oracle demands NOTHING of them — which exports are rejected
               is not part of C20;
  * KNOWN-BAD  well-formed (per the property) exports of kinds the loader claims to support but cannot load today:
               `kb_thermal` (thermal_load, basis >= 2) and `kb_storage_clip` (storage with clipping factors), tagged `_kb`.
               The oracle reports each with a precise key ({'kind': 'cannot-load', 'device_type': ..., 'exc': ...}).

Observed, OUTSIDE the property (not emitted by the oracle; T2 still pins the model to the code on them):
  * `load_fixed_load_device` rejects only when ALL slots have lo != hi (`.all()`), so a fixed load with SOME open slots
    is accepted — C20 does not say which exports are rejected;
  * `load_data` evaluates `'name' in data` on the device LIST: the export's name is never used, the set is always
    'site' — set ids are not part of C20;
  * `care2bounds` / `on2bounds` read a length-2 `bounds` as the documented 2-tuple `(low, high)`, so a bounds VECTOR at
    horizon 2 is taken as that pair — the 2-tuple form has precedence at n = 2 (like validate_bounds' table precedence);
    model and oracle both use that reading;
  * a load / supply device without a `costs` entry raises KeyError in `load_cost_function` — treated as malformed input;
  * supply `cumulative_bounds` are NOT negated by the loader (`{0: [1, 5]}` raises 'infeasible', `{0: [-5, -1]}` loads).
    Read against the property text — "supply devices have their bounds negated and swapped; each cumulative run becomes a
    bound over exactly the slots up to the next run" — the per-slot bounds are negated, the cumulative runs are taken as
    given: not a violation; the generator draws them feasible for the negated bounds;
  * a cumulative run starting at or after the basis has no slots: the cbounds setter rejects it (ValueError, 77b3fee) —
    malformed input;
  * device ids (`title` / type), the leaf's class, defaults of storage parameters that were not exported, `rate_clip`, and
    whether the helpers' result dict drops the `care`/`on` entry or shares other entries with the input are not stated by
    C20: not checked by the oracle (T2 still compares class and all storage fields with the model);
  * supply x flow_bounds_relative: the curve's x_l/x_h are the NEGATED bounds and the whole cost is then reflected;
    the oracle checks the parameters are the device's bounds, as the code has it;
  * `cumulative_flow_bounds_relative` without `cumulative_bounds` raises TypeError; an empty device list raises inside
    DeviceSet; the nested-quote f-string in `load_cbounds` needs Python >= 3.12.
"""
import copy, math, logging
from fractions import Fraction
from .. import common as C
from ..common import F, fs, pf, dy
from ..check import Prop, Op

ERR = {'KeyError': 1, 'ValueError': 2, 'TypeError': 3, 'IndexError': 4, 'Exception': 5}
PROBES = [0, 1, -1, 2, -2, 3]


def np():
  import numpy
  return numpy


def L():
  C.repo()
  from device_kit.loaders import builder_loader
  logging.getLogger().setLevel(logging.ERROR)
  return builder_loader


def U():
  C.repo()
  from device_kit import utils
  return utils


# ------------------------------------------------------------------ description -> python objects
def num(s, ints=False):
  q = Fraction(s)
  if ints and q.denominator == 1:
    return int(q)
  return float(q)


def py_val(v, ints=False):
  return [num(x, ints) for x in v] if isinstance(v, list) else num(v, ints)


def py_run(r, ints=False):
  return {'basis': r['basis'], 'runs': {str(s): py_val(v, ints) for s, v in r['runs']}}


def py_device(d, ints=False):
  out = {'type': d['type']}
  if 'title' in d:
    out['title'] = d['title']
  out['bounds'] = py_run(d['bounds'], ints)
  if 'cumulative_bounds' in d:
    out['cumulative_bounds'] = py_run(d['cumulative_bounds'], ints)
  if 'costs' in d:
    c = {}
    for k, v in d['costs'].items():
      if k in ('flow', 'flow_bounds_relative'):
        c[k] = py_run(v, ints)
      else:
        c[k] = py_val(v, ints)
    out['costs'] = c
  if 'parameters' in d:
    p = d['parameters']
    if isinstance(p, list):                       # storage: ordered [key, value] pairs
      out['parameters'] = {k: num(v, ints) for k, v in p}
    else:                                         # thermal: object
      q = {}
      for k, v in p.items():
        q[k] = py_run(v, ints) if isinstance(v, dict) else py_val(v, ints)
      out['parameters'] = q
  return out


def py_export(e, ints=False):
  out = {'basis': e['basis'], 'devices': [py_device(d, ints) for d in e['devices']]}
  if 'name' in e:
    out['name'] = e['name']
  return out


def py_helper_bounds(b):
  n_ = np()
  if b['form'] == 'pair':
    return (pf(b['lo']), pf(b['hi']))
  if b['form'] == 'pairvec':
    return (n_.array([pf(x) for x in b['lo']]), n_.array([pf(x) for x in b['hi']]))
  return n_.array([pf(x) for x in b['v']])


def outcome(thunk):
  """[0, values…] or [-1, code of the exception type]; flat floats."""
  try:
    v = thunk()
  except Exception as e:
    name = type(e).__name__
    return [-1.0, float(ERR.get(name, 9))]
  return [0.0] + flatten(v)


def flatten(v):
  n_ = np()
  if isinstance(v, (list, tuple)):
    out = []
    for u in v:
      out += flatten(u)
    return out
  if isinstance(v, n_.ndarray):
    return [float(x) for x in v.reshape(-1)]
  return [float(v)]


# ------------------------------------------------------------------ fingerprints of loaded objects (T2)
def fn_print(f, n):
  C.repo()
  from device_kit import functions as Fm
  if isinstance(f, Fm.NullFunction):
    return [0]
  if isinstance(f, Fm.SumFunction):
    def fold(fs_):
      if len(fs_) == 1:
        return fn_print(fs_[0], n)
      return [1] + fn_print(fs_[0], n) + fold(fs_[1:])
    return fold(list(f.functions))
  if isinstance(f, Fm.ReflectedFunction):
    return [2] + fn_print(f.function, n)
  if isinstance(f, Fm.Poly2DOffset):
    out = [3]
    for k in range(n):
      out += [float(x) for x in f.coeffs[k]] + [float(f.offsets[k])]
    return out
  if isinstance(f, Fm.X2D):
    out = [4]
    for g in f.functions:
      out += [float(g.p_l), float(g.p_h), float(g.x_l), float(g.x_h)]
    return out
  if isinstance(f, Fm.InnerSumFunction):
    g = f.outer_function
    return [6, float(g.p_l), float(g.p_h), float(g.x_l), float(g.x_h)]
  if isinstance(f, Fm.RangesFunction):
    def fold(i):
      s, e = f.ranges[i]
      if i == len(f.ranges) - 1:
        return fn_print(f.functions[i], e - s)
      return [7, e - s] + fn_print(f.functions[i], e - s) + fold(i + 1)
    return fold(0)
  if isinstance(f, Fm.DemandFunction):
    return [8] + [float(f.inner_function(x)) for x in PROBES]
  return [99]


def leaf_print(dev):
  n_ = np()
  name = type(dev).__name__
  n = len(dev)
  cbs = dev.cbounds or []
  head = [n] + [float(x) for x in dev.lbounds] + [float(x) for x in dev.hbounds] + [len(cbs)] + flatten([list(c) for c in cbs])
  if name == 'ADevice':
    return [0] + head + fn_print(dev.f, n)
  if name == 'SDevice':
    return [1] + head + [dev.c1, dev.c2, dev.c3, dev.capacity, dev.damage_depth, dev.start, dev.reserve, dev.efficiency, dev.sustainment]
  if name == 'TDevice':
    return [2] + head + flatten([dev.sustainment, dev.efficiency, dev._t_init, dev._t_optimal, n_.array(dev._t_range), list(dev._t_external), n_.ones(n)*dev.c])
  return [9] + head


def load_print(export):
  ds = L().load_data(export)
  out = [len(ds.devices)]
  for d in ds.devices:
    out += leaf_print(d)
  return out


# ------------------------------------------------------------------ generators
def gen_starts(rng, basis, k, zero=True, beyond=False):
  pool = list(range(1, basis))
  rng.shuffle(pool)
  starts = ([0] if zero else []) + sorted(pool[:max(0, k - (1 if zero else 0))])
  if basis > 24 and rng.random() < 0.6:
    starts.append(rng.randint(24, basis - 1))        # a run that starts in the second day
  if beyond and rng.random() < 0.5:
    starts.append(basis + rng.randint(0, 3))
  return sorted(set(starts))


def pick_k(rng, basis):
  return min(rng.choice([1, 1, 2, 2, 2, 3, 3, 4, 5, 6]), max(1, basis))


def shuffled(rng, runs, p=0.7):
  runs = list(runs)
  if rng.random() < p:
    rng.shuffle(runs)
  return runs


def val(rng, lo=-4, hi=4, bits=2):
  return fs(dy(rng, lo, hi, bits))


def decq(rng, lo, hi):
  """a decimal k/1000 or k/10000 in [lo, hi]: NOT a dyadic, so float32 storage / round(v, 3) / int() change it."""
  den = rng.choice([1000, 1000, 10000, 10000, 10])
  a, b = math.ceil(F(lo)*den), math.floor(F(hi)*den)
  return Fraction(rng.randint(a, b), den) if a <= b else F(lo)


def rq(rng, lo, hi, bits=2, p_dec=0.25):
  """a stored-only value (run value, storage parameter, coefficient): dyadic, or with probability p_dec a decimal."""
  return decq(rng, lo, hi) if rng.random() < p_dec else dy(rng, lo, hi, bits)


def rval(rng, lo=-4, hi=4):
  return fs(rq(rng, lo, hi))


def gen_run(rng, basis, shape=None, zero=True, beyond=False, k=None):
  """a homogeneous run dictionary; shape None = scalar, int = vector length."""
  starts = gen_starts(rng, basis, k or pick_k(rng, basis), zero, beyond)
  runs = []
  for s in starts:
    runs.append([s, rval(rng) if shape is None else [rval(rng) for _ in range(shape)]])
  return {'basis': basis, 'runs': shuffled(rng, runs)}


def gen_bounds_run(rng, basis, sign='+', fixed=False, k=None):
  """a `bounds` run of ordered [lo, hi] pairs."""
  starts = gen_starts(rng, basis, k or pick_k(rng, basis), beyond=rng.random() < 0.1)   # a start >= basis is simply never reached
  runs = []
  for s in starts:
    if sign == '+':
      a = dy(rng, 0, 3)
      b = a if fixed else a + dy(rng, 0, 3)
    else:
      a = dy(rng, -3, 1)
      b = a if fixed else a + dy(rng, 0, 4)
    if not fixed and b == a and rng.random() < 0.6:
      b = a + Fraction(rng.randint(1, 8), 4)
    runs.append([s, [fs(a), fs(b)]])
  return {'basis': basis, 'runs': shuffled(rng, runs)}


def table_of(run):
  """generator-side expansion of a run it built itself (segments in sorted order)."""
  basis = run['basis']
  srt = sorted(run['runs'], key=lambda r: r[0])
  out = [None]*basis
  for i, (s, v) in enumerate(srt):
    e = srt[i + 1][0] if i + 1 < len(srt) else basis
    for t in range(s, min(e, basis)):
      out[t] = v
  return out


def gen_cb_run(rng, basis, lo, hi, feasible=True):
  """cumulative bounds feasible w.r.t. per-slot (lo, hi) Fractions."""
  starts = gen_starts(rng, basis, min(pick_k(rng, basis), 3))
  runs = []
  for i, s in enumerate(starts):
    e = starts[i + 1] if i + 1 < len(starts) else basis
    lsum, hsum = sum(lo[s:e], Fraction(0)), sum(hi[s:e], Fraction(0))
    l = dy(rng, lsum - 1, hsum)
    h = max(l, lsum) + Fraction(rng.randint(1, 8), 4)
    if not feasible:
      l, h = hsum + 1, hsum + 2
    runs.append([s, [fs(l), fs(h)]])
  return {'basis': basis, 'runs': shuffled(rng, runs)}


COST_KINDS = ['none', 'flow', 'flow_bounds_relative', 'cumulative_flow_bounds_relative', 'peak_flow', 'several']


def gen_costs(rng, basis, kind):
  c = {}
  kinds = [kind]
  if kind == 'several':
    kinds = [k for k in COST_KINDS[1:5] if rng.random() < 0.6] or ['flow']
  if kind == 'none':
    kinds = []
  for k in kinds:
    if k == 'flow':
      c[k] = gen_run(rng, basis, shape=3 if rng.random() < 0.9 else 4)
      for r in c[k]['runs']:
        r[1][0] = fs(rq(rng, 0, 3))           # convex quadratic
    elif k == 'flow_bounds_relative':
      c[k] = gen_run(rng, basis, shape=2)
      for r in c[k]['runs']:
        a = rq(rng, -3, 0); r[1] = [fs(a), fs(a + rq(rng, 0, 3))]
    elif k == 'cumulative_flow_bounds_relative':
      a = rq(rng, -3, 0); c[k] = [fs(a), fs(a + rq(rng, 0, 3))]
    elif k == 'peak_flow':
      c[k] = [rval(rng, 0, 2) for _ in range(rng.choice([1, 2, 3, 3, 4, 5]))]      # up to a quartic: every coefficient counts
      if F(c[k][0]) == 0:
        c[k][0] = fs(Fraction(rng.randint(1, 8), 4))
  return c


def gen_load(rng, basis, cost_kind):
  d = {'type': 'load', 'bounds': gen_bounds_run(rng, basis, '+')}
  tb = table_of(d['bounds'])
  lo, hi = [F(x[0]) for x in tb], [F(x[1]) for x in tb]
  c = gen_costs(rng, basis, cost_kind)
  if 'cumulative_flow_bounds_relative' in c or rng.random() < 0.3:
    d['cumulative_bounds'] = gen_cb_run(rng, basis, lo, hi)
  d['costs'] = c
  return d


def gen_fixed(rng, basis):
  return {'type': 'fixed_load', 'bounds': gen_bounds_run(rng, basis, '+', fixed=True)}


STORAGE_KEYS = ['capacity', 'efficiencyFactor', 'reserveRatio', 'startingRatio', 'fastChargeCostFactor',
                'flipFlopCostFactor', 'deepDischargeCostFactor', 'deepDepthRatio']


def gen_storage(rng, basis):
  d = {'type': 'storage', 'bounds': gen_bounds_run(rng, basis, '-')}
  keys = [k for k in STORAGE_KEYS if rng.random() < 0.6]
  rng.shuffle(keys)
  c2 = rq(rng, 0, 1)
  vals = {'capacity': rq(rng, 1, 12), 'efficiencyFactor': rng.choice([F(1), Fraction(1, 2), Fraction(3, 4), Fraction(7, 8), decq(rng, Fraction(1, 2), 1)]),
          'reserveRatio': rq(rng, 0, 1), 'startingRatio': rq(rng, 0, 1),
          'fastChargeCostFactor': c2 + Fraction(rng.randint(1, 8), 4) + (decq(rng, 0, Fraction(1, 8)) if rng.random() < 0.25 else 0), 'flipFlopCostFactor': c2,
          'deepDischargeCostFactor': rq(rng, 0, 3), 'deepDepthRatio': rq(rng, 0, 1)}
  d['parameters'] = [[k, fs(vals[k])] for k in keys]
  return d


def gen_supply(rng, basis, cost_kind):
  d = {'type': 'supply', 'bounds': gen_bounds_run(rng, basis, '+')}
  tb = table_of(d['bounds'])
  lo, hi = [-F(x[1]) for x in tb], [-F(x[0]) for x in tb]
  c = gen_costs(rng, basis, cost_kind)
  if 'cumulative_flow_bounds_relative' in c or rng.random() < 0.3:
    d['cumulative_bounds'] = gen_cb_run(rng, basis, lo, hi)    # NOT negated by the loader: feasible for the negated bounds
  d['costs'] = c
  return d


# ---- MALFORMED exports: must be rejected -------------------------------------------------------
def malformed_device(rng, basis):
  why = rng.choice(['no-zero-run', 'fixed-all-open', 'fixed-partly-open', 'unknown-type', 'cumulative-flow', 'cfbr-without-cbounds',
                    'infeasible-cbounds', 'cbounds-start-beyond', 'flow-too-short', 'no-parameters', 'no-costs'])
  if why == 'no-zero-run' and basis >= 2:
    d = gen_load(rng, basis, 'none')
    d['bounds']['runs'] = [[s if s else 1, v] for s, v in d['bounds']['runs'] if s == 0 or s > 1]
  elif why == 'fixed-all-open':
    d = {'type': 'fixed_load', 'bounds': gen_bounds_run(rng, basis, '+')}
    for r in d['bounds']['runs']:
      r[1][1] = fs(F(r[1][0]) + 1)
  elif why == 'fixed-partly-open' and basis >= 2:      # accepted today (`.all()`): outside the property, T2 only
    d = {'type': 'fixed_load', 'bounds': gen_bounds_run(rng, basis, '+', fixed=True, k=max(2, min(3, basis)))}
    r = rng.choice(d['bounds']['runs'])
    r[1][1] = fs(F(r[1][0]) + 1)
  elif why == 'no-costs':                              # KeyError in load_cost_function: malformed for this loader
    d = gen_load(rng, basis, 'none') if rng.random() < 0.5 else gen_supply(rng, basis, 'none')
    del d['costs']
  elif why == 'unknown-type':
    d = gen_fixed(rng, basis); d['type'] = 'battery'
  elif why == 'cumulative-flow':
    d = gen_load(rng, basis, 'flow'); d['costs']['cumulative_flow'] = ['1', '0']
  elif why == 'cfbr-without-cbounds':
    d = gen_load(rng, basis, 'none'); d.pop('cumulative_bounds', None)
    d['costs'] = {'cumulative_flow_bounds_relative': ['-2', '-1']}
  elif why == 'infeasible-cbounds':
    d = gen_load(rng, basis, 'none')
    tb = table_of(d['bounds'])
    d['cumulative_bounds'] = gen_cb_run(rng, basis, [F(x[0]) for x in tb], [F(x[1]) for x in tb], feasible=False)
  elif why == 'cbounds-start-beyond':                  # run start at / after the basis: empty or reversed range, ValueError since 77b3fee
    d = gen_load(rng, basis, 'none')
    tb = table_of(d['bounds'])
    d['cumulative_bounds'] = gen_cb_run(rng, basis, [F(x[0]) for x in tb], [F(x[1]) for x in tb])
    d['cumulative_bounds']['runs'].append([basis + rng.choice([0, 0, 1, 3]), ['-1', '1']])
  elif why == 'flow-too-short':
    d = gen_load(rng, basis, 'none'); d['costs'] = {'flow': gen_run(rng, basis, shape=2)}
  elif why == 'no-parameters':
    d = gen_storage(rng, basis); del d['parameters']
  else:
    d = gen_load(rng, basis, 'none'); d['bounds']['runs'] = [[1, ['0', '1']]]; why = 'no-zero-run'
  d['_malformed'] = why
  return d


# ---- KNOWN-BAD kinds: well-formed per the property, but cannot load / load wrongly today ---------
def kb_thermal(rng, basis):
  return {'type': 'thermal_load', '_kb': 'thermal', 'bounds': gen_bounds_run(rng, basis, '+'),
          'parameters': {'desiredTemperature': val(rng, 18, 22), 'initialTemperature': val(rng, 15, 25),
                         'thermalSustainment': fs(dy(rng, 0, 1)), 'efficiencyFactor': fs(rng.choice([F(1), Fraction(1, 2), F(2)])),
                         'externalTemperatureProfile': [val(rng, 0, 30) for _ in range(basis)],
                         'temperatureVariationCareFactor': gen_run(rng, basis)}}


def kb_thermal_fix(d):
  for r in d['parameters']['temperatureVariationCareFactor']['runs']:
    r[1] = fs(abs(F(r[1])))
  return d


def kb_storage_clip(rng, basis):
  d = gen_storage(rng, basis); d['_kb'] = 'storage-clipping'
  d['parameters'].insert(rng.randint(0, len(d['parameters'])),
                         [rng.choice(['chargeRateClippingFactor', 'disChargeRateClippingFactor']), fs(1 + dy(rng, 0, 2))])
  return d


def gen_export(rng, tier, focus=None):
  basis = pick_basis(rng, tier)
  ndev = rng.choice([1, 2, 2, 3, 3, 4])
  devs = []
  kinds = ['load', 'fixed_load', 'storage', 'supply']
  for i in range(ndev):
    kind = (focus[0] if focus and i == 0 else rng.choice(kinds))
    ck = (focus[1] if focus and i == 0 else rng.choice(COST_KINDS))
    if kind == 'load':
      d = gen_load(rng, basis, ck)
    elif kind == 'fixed_load':
      d = gen_fixed(rng, basis)
    elif kind == 'storage':
      d = gen_storage(rng, basis)
    else:
      d = gen_supply(rng, basis, ck)
    if rng.random() < 0.4:
      d['title'] = 'dev%d' % i
    devs.append(d)
  e = {'basis': basis, 'devices': devs}
  r = rng.random()
  if focus is None and r < 0.10:                                   # ---- MALFORMED branch
    devs[rng.randrange(len(devs))] = malformed_device(rng, basis)
  elif focus is None and r < 0.18:                                 # ---- KNOWN-BAD branch (thermal, storage clipping)
    mk = rng.choice([lambda: kb_thermal_fix(kb_thermal(rng, basis)), lambda: kb_storage_clip(rng, basis)])
    devs[rng.randrange(len(devs))] = mk()
  if rng.random() < 0.08:
    e['name'] = 'myset'                                             # ignored by load_data (observed, outside the property)
  # probe flows for loader.dcost
  i = rng.randrange(len(devs))
  e_case = {'k': 'export', 'export': e, '_ints': rng.random() < 0.5,
            'probe': {'i': i, 's': [val(rng, -3, 3, 3) for _ in range(basis)], 's0': [val(rng, -3, 3, 3) for _ in range(basis)]}}
  return e_case


def pick_basis(rng, tier):
  if tier == 'thorough':
    return rng.choice(list(range(1, 13))*3 + [16, 24, 31, 48])
  return rng.choice([1, 2, 2, 3, 3, 4, 4, 5, 6, 7, 8, 10, 12, 12, 24, 25, 25, 48, 48])      # beyond a day of hourly slots too


def gen_run_case(rng, tier):
  basis = pick_basis(rng, tier)
  r = rng.random()
  shape = rng.choice([None, None, 1, 2, 2, 3, 0])
  run = gen_run(rng, basis, shape, zero=rng.random() > 0.06, beyond=rng.random() < 0.15)
  mixed = False
  if r < 0.10 and len(run['runs']) >= 1:        # mixed shapes: numpy broadcasting quirks (T2 only)
    mixed = True
    k = rng.randrange(len(run['runs']))
    run['runs'][k][1] = rng.choice([val(rng), [val(rng)], [val(rng), val(rng)], [val(rng)]*3])
  return {'k': 'run', 'run': run, '_mixed': mixed, '_ints': rng.random() < 0.5}


def gen_cb_case(rng, tier):
  basis = pick_basis(rng, tier)
  run = gen_run(rng, basis, 2, zero=rng.random() > 0.15, beyond=rng.random() < 0.1)
  bad = rng.random() < 0.06 and bool(run['runs'])
  if bad:
    run['runs'][rng.randrange(len(run['runs']))][1] = rng.choice([val(rng), [val(rng)], [val(rng)]*3])
  return {'k': 'cb', 'run': run, '_bad': bad, '_ints': rng.random() < 0.5}


def gen_helper_bounds(rng, n):
  form = rng.choice(['pair', 'pair', 'pairvec', 'vector'])
  if form == 'pair':
    a = dy(rng, -3, 3); return {'form': 'pair', 'lo': fs(a), 'hi': fs(a + dy(rng, 0, 3))}
  if form == 'pairvec':
    lo = [dy(rng, -3, 3) for _ in range(n)]
    return {'form': 'pairvec', 'lo': [fs(x) for x in lo], 'hi': [fs(x + dy(rng, 0, 3)) for x in lo]}
  return {'form': 'vector', 'v': [val(rng) for _ in range(n)]}      # n == 2: read as the 2-tuple (documented precedence)


def gen_care_case(rng, tier):
  n = pick_basis(rng, tier)
  care = [rng.choice(['0', '1']) for _ in range(n)]
  if rng.random() < 0.1:
    care = [val(rng, 0, 2) for _ in range(n)]     # weights other than 0/1: T2 only
  return {'k': 'care', 'n': n, 'care': care, 'bounds': gen_helper_bounds(rng, n)}


def gen_on_case(rng, tier):
  l = pick_basis(rng, tier)
  on = []
  for _ in range(rng.choice([0, 1, 1, 2, 2, 3])):
    a = rng.randrange(l) if l <= 24 or rng.random() < 0.5 else rng.randint(24, l - 1)
    b = rng.randint(a, min(l - 1 + (1 if rng.random() < 0.1 else 0), a + rng.choice([0, 1, 4, 6])))
    on += [a, b]
  if rng.random() < 0.05 and on:
    on = on[:-1]                                   # odd length: IndexError
  return {'k': 'on', 'l': l, 'on': on, 'bounds': gen_helper_bounds(rng, l)}


def gen_supply_case(rng, tier):
  basis = pick_basis(rng, tier)
  return {'k': 'supply', 'run': gen_bounds_run(rng, basis, rng.choice('+-')), '_ints': rng.random() < 0.5}


# ------------------------------------------------------------------ oracle helpers (independent of the model)
def o_expand(run):
  """slot t takes the value of the run with the greatest start <= t (None when there is none)."""
  out = []
  for t in range(run['basis']):
    best = None
    for s, v in run['runs']:
      if s <= t and (best is None or s > best[0]):
        best = (s, v)
    out.append(None if best is None else best[1])
  return out


def o_floats(v):
  return [pf(x) for x in v] if isinstance(v, list) else pf(v)


def close(a, b):
  a = np().array(a, dtype=float); b = np().array(b, dtype=float)
  return a.shape == b.shape and bool(np().all(np().abs(a - b) <= 1e-12*np().maximum(1, np().abs(b))))      # stored values: no arithmetic beyond a sign


def has_zero(run):
  return any(s == 0 for s, _ in run['runs'])


def homogeneous(run):
  shapes = set((len(v) if isinstance(v, list) else None) for _, v in run['runs'])
  return len(shapes) == 1


def fail(key, detail):
  return {'key': key, 'detail': detail}


S_MAP = {'capacity': 'capacity', 'efficiencyFactor': 'efficiency', 'reserveRatio': 'reserve', 'startingRatio': 'start',
         'fastChargeCostFactor': 'c1', 'flipFlopCostFactor': 'c2', 'deepDischargeCostFactor': 'c3', 'deepDepthRatio': 'damage_depth'}


FIXED_OPEN = 'fixed load with a slot whose bounds differ'     # may be rejected; if ACCEPTED the leaf must still be the expansion


def o_well_formed(d, basis):
  """None when the exported device is well-formed in the property's sense, else the reason it must be rejected."""
  if d['type'] not in ('load', 'fixed_load', 'storage', 'supply', 'thermal_load'):
    return 'unknown type'
  runs = [d['bounds']] + [d[k] for k in ('cumulative_bounds',) if k in d]
  costs = d.get('costs', {})
  runs += [costs[k] for k in ('flow', 'flow_bounds_relative') if k in costs]
  if d['type'] == 'thermal_load' and 'parameters' in d and 'temperatureVariationCareFactor' in d['parameters']:
    runs.append(d['parameters']['temperatureVariationCareFactor'])
  for r in runs:
    if not has_zero(r) or r['basis'] != basis:
      return 'a run dictionary without a run at 0'
  tb = o_expand(d['bounds'])
  if any(not isinstance(v, list) or len(v) != 2 or F(v[0]) > F(v[1]) for v in tb):
    return 'bounds are not ordered pairs'
  if d['type'] == 'fixed_load' and any(F(v[0]) != F(v[1]) for v in tb):
    return FIXED_OPEN
  if d['type'] in ('load', 'supply') and 'costs' not in d:
    return 'no costs entry'
  if 'cumulative_flow' in costs:
    return 'cumulative_flow cost is documented as not implemented'
  if 'cumulative_flow_bounds_relative' in costs and 'cumulative_bounds' not in d:
    return 'cumulative_flow_bounds_relative without cumulative_bounds'
  if 'flow' in costs and any(len(v) < 3 for _, v in costs['flow']['runs']):
    return 'flow cost coefficients need 3 entries'
  if d['type'] in ('storage', 'thermal_load') and 'parameters' not in d:
    return 'no parameters'
  if 'cumulative_bounds' in d:
    if any(s >= basis for s, _ in d['cumulative_bounds']['runs']):
      return 'a cumulative run starting at or after the basis (no slots up to the next run)'
    lo, hi = o_device_bounds(d)
    for (l, h, s, e) in o_cbounds(d['cumulative_bounds']):
      if h <= l or sum(lo[s:e]) > h or sum(hi[s:e]) < l:
        return 'cumulative bounds infeasible for the per-slot bounds'
  return None


def o_device_bounds(d):
  tb = o_expand(d['bounds'])
  lo, hi = [pf(v[0]) for v in tb], [pf(v[1]) for v in tb]
  if d['type'] == 'supply':
    return [-x for x in hi], [-x for x in lo]
  return lo, hi


def o_cbounds(run):
  srt = sorted(run['runs'], key=lambda r: r[0])
  out = []
  for i, (s, v) in enumerate(srt):
    e = srt[i + 1][0] if i + 1 < len(srt) else run['basis']
    out.append((pf(v[0]), pf(v[1]), s, e))
  return out


def o_check_costs(d, dev, basis, tag):
  """curve parameters of a loaded load/supply device vs the expansion of the exported runs."""
  C.repo()
  from device_kit import functions as Fm
  costs = d.get('costs', {})
  f = dev.f
  key = lambda what: {'kind': 'wrong-' + what, 'device_type': d['type']}
  want = [k for k in ('flow', 'flow_bounds_relative', 'cumulative_flow_bounds_relative', 'peak_flow') if k in costs]
  if not want:
    if not isinstance(f, Fm.NullFunction):
      return [fail(key('cost'), '%s: no costs exported but the leaf has f=%s' % (tag, type(f).__name__))]
    return []
  if d['type'] == 'supply':
    if not isinstance(f, Fm.ReflectedFunction):
      return [fail(key('cost'), '%s: a supply cost must be reflected, got %s' % (tag, type(f).__name__))]
    f = f.function
  parts = list(getattr(f, 'functions', []))
  if not isinstance(f, Fm.SumFunction) or len(parts) != len(want):
    return [fail(key('cost'), '%s: expected %d cost terms %s, got %s' % (tag, len(want), want, [type(p).__name__ for p in parts]))]
  lo, hi = o_device_bounds(d)
  out = []
  for k, p in zip(want, parts):
    if k == 'flow':
      tb = [o_floats(v) for v in o_expand(costs[k])]
      ok = isinstance(p, Fm.Poly2DOffset) and close(p.coeffs, [[v[0], v[1], 0.0] for v in tb]) and close(p.offsets, [v[2] for v in tb])
    elif k == 'flow_bounds_relative':
      tb = [o_floats(v) for v in o_expand(costs[k])]
      ok = isinstance(p, Fm.X2D) and len(p.functions) == basis and all(
        close([g.p_l, g.p_h, g.x_l, g.x_h], [tb[t][0], tb[t][1], lo[t], hi[t]]) for t, g in enumerate(p.functions))
    elif k == 'cumulative_flow_bounds_relative':
      cbs = o_cbounds(d['cumulative_bounds']); pl, ph = o_floats(costs[k])
      ok = isinstance(p, Fm.RangesFunction) and [tuple(r) for r in p.ranges] == [(c[2], c[3]) for c in cbs] and all(
        isinstance(g, Fm.InnerSumFunction) and close([g.outer_function.p_l, g.outer_function.p_h, g.outer_function.x_l, g.outer_function.x_h], [pl, ph, c[0], c[1]])
        for g, c in zip(p.functions, cbs))
    else:
      poly = np().poly1d(o_floats(costs[k]))
      ok = isinstance(p, Fm.DemandFunction) and close([p.inner_function(x) for x in PROBES], [poly(x) for x in PROBES])
    if not ok:
      out.append(fail(key('curve-parameters'), '%s: the %s term is not the piecewise-constant expansion of %s' % (tag, k, costs[k])))
  return out


def o_check_leaf(d, dev, basis, tag):
  """the property's claims about one loaded leaf: per-slot bounds (supply: negated and swapped), cumulative bounds,
  curve parameters = the piecewise-constant expansion of the exported runs.  Nothing else (ids, classes, defaults of
  parameters that were not exported, rate_clip … are outside C20)."""
  out = []
  key = lambda what: {'kind': 'wrong-' + what, 'device_type': d['type']}
  lo, hi = o_device_bounds(d)
  if len(dev) != basis or not (close(dev.lbounds, lo) and close(dev.hbounds, hi)):
    out.append(fail(key('bounds'), '%s: bounds %s, expected per slot %s from runs %s' % (tag, np().array(dev.bounds).tolist(), list(zip(lo, hi)), d['bounds'])))
    return out
  if 'cumulative_bounds' in d:
    want = o_cbounds(d['cumulative_bounds'])
    got = [tuple(float(x) for x in c) for c in (dev.cbounds or [])]
    if len(got) != len(want) or not all(close(g, w) for g, w in zip(got, want)):
      out.append(fail(key('cbounds'), '%s: cbounds %s, expected %s' % (tag, got, want)))
  elif dev.cbounds:
    out.append(fail(key('cbounds'), '%s: cbounds %s for a device without cumulative_bounds' % (tag, dev.cbounds)))
  if d['type'] in ('load', 'supply'):
    if not hasattr(dev, 'f'):
      out.append(fail(key('curve-parameters'), '%s: the loaded %s has no preference function' % (tag, type(dev).__name__)))
    else:
      out += o_check_costs(d, dev, basis, tag)
  elif d['type'] == 'storage':
    want = {S_MAP[k]: pf(v) for k, v in d['parameters'] if k in S_MAP}        # exported parameters only
    got = {k: getattr(dev, k, None) for k in want}
    if not all(got[k] is not None and close(got[k], want[k]) for k in want):
      out.append(fail(key('parameters'), '%s: storage parameters %s, exported %s' % (tag, got, want)))
  elif d['type'] == 'thermal_load':
    p = d['parameters']
    care = o_expand(p['temperatureVariationCareFactor'])
    want = [pf(p['thermalSustainment']), pf(p['efficiencyFactor']), pf(p['initialTemperature']), pf(p['desiredTemperature'])]
    try:
      got = [dev.sustainment, dev.efficiency, dev._t_init, dev._t_optimal]
      ok = close(got, want) and close(np().array(dev._t_range).reshape(-1), o_floats(care)) \
        and close(list(dev._t_external), o_floats(p['externalTemperatureProfile']))
    except AttributeError:
      ok = False
    if not ok:
      out.append(fail(key('parameters'), '%s: thermal parameters differ from the export' % tag))
  return out


def deep_equal(a, b):
  n_ = np()
  if isinstance(a, dict):
    return isinstance(b, dict) and list(a.keys()) == list(b.keys()) and all(deep_equal(a[k], b[k]) for k in a)
  if isinstance(a, (list, tuple)):
    return type(a) is type(b) and len(a) == len(b) and all(deep_equal(x, y) for x, y in zip(a, b))
  if isinstance(a, n_.ndarray):
    return isinstance(b, n_.ndarray) and a.shape == b.shape and bool((a == b).all())
  return type(a) is type(b) and a == b


# ------------------------------------------------------------------ the property
class C20(Prop):
  id = 'C20'
  lean_module = 'DK.Props.C20'
  uses_t1 = True      # T1l regenerates DK/Gen/Loaders/*.lean from the current source before the bridge is audited
  bridge = ['DK.BridgeLoaders.' + t for t in (
    'run_to_array_scalar', 'run_to_array_pair', 'run_to_array_vec', 'run_to_cbounds_array', 'load_cbounds',
    'load_load_device_bounds', 'load_fixed_load_device_bounds', 'load_storage_device_bounds', 'load_supply_device_bounds',
    'load_thermal_load_device_bounds', 'tableBounds_toRun', 'loadDevice_fixedLoad', 'load_storage_device_parameter_map',
    'load_storage_device_parameter_map_keys', 'load_thermal_load_device_parameter_map', 'storageSet_strGet',
    'load_storage_device_params', 'care2bounds_pair', 'care2bounds_pairvec', 'care2bounds_vector',
    'on2bounds_pair', 'on2bounds_pairvec', 'on2bounds_vector')]
  theorems = ['DK.Loader.' + t for t in (
    'runToArray_spec', 'runToArray_greatest', 'runToArray_perm', 'runToArray_perm_spec', 'runToArray_keyError',
    'runToArrayNp_homogeneous', 'runToCbounds_entries', 'runToCbounds_length', 'runToCbounds_partition', 'runToCbounds_perm',
    'care_spec', 'care_spec_vec', 'care_vector_n2', 'on_spec', 'on_odd', 'supply_spec', 'supplyBounds_spec',
    'supplyBounds_eq', 'supply_basis2_regression', 'tableBounds_spec', 'load_bounds_spec', 'supply_bounds_spec', 'loadData_length',
    # bridges to the functions loadDevice / the driver execute, curve parameters per cost kind, leaf composition
    'runToCboundsNp_eq', 'load_cbounds_spec', 'runToArrayNp_spec', 'flowTerm_spec', 'fbrTerm_spec', 'cboundsOf_chained',
    'rangesFn_eval', 'cfbr_spec', 'loadCostFunction_ok', 'load_leaf_spec', 'supply_leaf_spec', 'storage_leaf_spec',
    'storageSet_spec', 'storageParams_spec', 'storageParams_unknown')]
  rule = ('run dictionaries (1..6 runs, scalar / vector values, shuffled keys, ~25 % of stored values non-dyadic decimals k/10, k/1000, k/10000; basis 1..12, 24, 25, 48 quick / ..48 thorough, run and interval starts at or above 24), care masks, '
          'on-interval lists, supply bounds, and builder exports of every kind (load x each cost kind, fixed_load, storage, supply, '
          'thermal_load); non-trivial: a run dictionary with >= 2 runs; an export with >= 2 runs in some device and >= 2 device kinds; '
          'a mask with both cared and uncared slots; an on-list with a slot on and a slot off')
  sizes = {'quick': 600, 'thorough': 15000}
  assumptions = ['keys of a run dictionary are canonical non-negative decimal integers (negative / zero-padded keys not modelled)',
                 'every run of an export carries the export basis; storage / cbounds validators are exercised only inside their accepted range',
                 'numpy slicing / broadcasting / shape inference are re-stated in the model (runToArrayNp, readPair), not verified',
                 'theorems cover run_to_array / cbounds / each cost kind / storage map / leaf composition on homogeneous well-formed runs; '
                 'the numpy layer on mixed shapes, the validators, the thermal loader and the Python-object <-> Fn correspondence rest on T2 + oracle (see DK/Props/C20.lean docstring)',
                 'oracle: expansion "value of the run with the greatest start <= t" coded independently; inputs deep-compared with copies; '
                 'it checks only what C20 states (one leaf per device, bounds / cbounds / curve parameters, supply negated+swapped, helper limits, inputs unmodified)']

  # ---- cases
  def cases(self, rng, tier, count):
    out = []
    focus = [(k, c) for k in ('load', 'supply') for c in COST_KINDS] + [('fixed_load', 'none'), ('storage', 'none')]
    for f in focus:                                   # every kind x cost kind at least once
      out.append(gen_export(rng, tier, focus=f))
    gens = [(gen_run_case, 20), (gen_cb_case, 10), (gen_care_case, 10), (gen_on_case, 10), (gen_supply_case, 8), (gen_export, 42)]
    bag = [g for g, w in gens for _ in range(w)]
    while len(out) < count:
      g = rng.choice(bag)
      out.append(g(rng, tier))
    return out

  # ---- corpus: minimal inputs of the fixed defects (D24, 375582f), of the two known-bad kinds, and of the
  #      observed-outside-the-property inputs; run first on every check
  def corpus(self):
    run = lambda b, rs: {'basis': b, 'runs': rs}
    probe = lambda b: {'i': 0, 's': ['1/2']*b, 's0': ['1/4']*b}
    ex = lambda b, devs, **kw: dict({'k': 'export', 'export': dict({'basis': b, 'devices': devs}, **kw), '_ints': True, 'probe': probe(b)})
    return [
      {'k': 'run', 'run': run(4, [[2, '5'], [0, '1']]), '_mixed': False, '_ints': True},                       # D24 (fixed): key order
      {'k': 'cb', 'run': run(4, [[2, ['0', '1']], [0, ['2', '3']]]), '_bad': False, '_ints': True},
      ex(2, [{'type': 'thermal_load', '_kb': 'thermal', 'bounds': run(2, [[0, ['0', '2']]]),
              'parameters': {'desiredTemperature': '20', 'initialTemperature': '18', 'thermalSustainment': '1/2', 'efficiencyFactor': '1',
                             'externalTemperatureProfile': ['10', '11'], 'temperatureVariationCareFactor': run(2, [[0, '2']])}}]),
      ex(1, [{'type': 'thermal_load', 'bounds': run(1, [[0, ['0', '2']]]),                                         # basis 1 thermal LOADS today and must keep loading
              'parameters': {'desiredTemperature': '20', 'initialTemperature': '18', 'thermalSustainment': '1/2', 'efficiencyFactor': '1',
                             'externalTemperatureProfile': ['10'], 'temperatureVariationCareFactor': run(1, [[0, '2']])}}]),
      ex(3, [{'type': 'load', '_malformed': 'cbounds-start-beyond', 'bounds': run(3, [[0, ['0', '2']]]),                # range check of the cbounds setter (77b3fee)
              'cumulative_bounds': run(3, [[0, ['-1', '5']], [3, ['-1', '1']]]), 'costs': {}}]),
      ex(1, [{'type': 'storage', '_kb': 'storage-clipping', 'bounds': run(1, [[0, ['-1', '1']]]), 'parameters': [['chargeRateClippingFactor', '2']]}]),
      # regressions of fix 375582f (supply at basis 2; supply x flow_bounds_relative) — MAIN inputs now
      ex(2, [{'type': 'supply', 'bounds': run(2, [[0, ['0', '2']], [1, ['1', '5']]]), 'costs': {}}]),
      ex(2, [{'type': 'supply', 'bounds': run(2, [[0, ['1', '5']], [1, ['0', '2']]]), 'costs': {}}]),
      ex(3, [{'type': 'supply', 'bounds': run(3, [[0, ['0', '2']]]), 'costs': {'flow_bounds_relative': run(3, [[0, ['-2', '-1']]])}}]),
      ex(2, [{'type': 'supply', 'bounds': run(2, [[1, ['3/4', '9/4']], [0, ['5/2', '7/2']]]),
              'costs': {'flow_bounds_relative': run(2, [[0, ['-9/4', '1/4']], [1, ['-1/2', '2']]])}}]),
      {'k': 'supply', 'run': run(2, [[0, ['1', '5']], [1, ['0', '2']]]), '_ints': True},
      # outside the property (T2 only): no costs entry, partly open fixed load, export name, length-2 bounds vector
      ex(1, [{'type': 'load', '_malformed': 'no-costs', 'bounds': run(1, [[0, ['0', '1']]])}]),
      ex(2, [{'type': 'fixed_load', '_malformed': 'fixed-partly-open', 'bounds': run(2, [[0, ['1', '1']], [1, ['2', '3']]])}]),
      ex(1, [{'type': 'fixed_load', 'bounds': run(1, [[0, ['1', '1']]])}], name='myset'),
      {'k': 'care', 'n': 2, 'care': ['1', '0'], 'bounds': {'form': 'vector', 'v': ['1', '3']}},
      {'k': 'on', 'l': 2, 'on': [0, 0], 'bounds': {'form': 'vector', 'v': ['1', '3']}},
      # blind spots found by the audit r7: non-dyadic stored values, horizons / starts >= 24, peak_flow of degree 3
      {'k': 'run', 'run': run(3, [[0, '1/10'], [2, '3/10']]), '_mixed': False, '_ints': False},
      {'k': 'run', 'run': run(3, [[0, ['1/10', '1234/10000']], [1, ['-7/1000', '2']]]), '_mixed': False, '_ints': False},
      {'k': 'cb', 'run': run(48, [[0, ['0', '10']], [12, ['1/10', '40']]]), '_bad': False, '_ints': False},
      {'k': 'on', 'l': 48, 'on': [30, 35], 'bounds': {'form': 'pair', 'lo': '1', 'hi': '3'}},
      {'k': 'on', 'l': 25, 'on': [2, 3, 24, 24], 'bounds': {'form': 'pair', 'lo': '1/10', 'hi': '3'}},
      ex(2, [{'type': 'load', 'bounds': run(2, [[0, ['0', '4']]]), 'costs': {'peak_flow': ['1', '0', '0', '0']}}]),
      ex(2, [{'type': 'load', 'bounds': run(2, [[0, ['0', '4']]]), 'costs': {'peak_flow': ['1/2', '1', '0', '1/10', '3']}}]),
      ex(1, [{'type': 'storage', 'bounds': run(1, [[0, ['-1', '1']]]), 'parameters': [['capacity', '51234/10000'], ['efficiencyFactor', '9123/10000']]}]),
      ex(48, [{'type': 'load', 'bounds': run(48, [[0, ['0', '1']], [30, ['1/2', '2']]]), 'cumulative_bounds': run(48, [[0, ['0', '10']], [12, ['1', '40']]]), 'costs': {}}]),
      ex(6, [{'type': 'fixed_load', '_malformed': 'fixed-partly-open', 'bounds': run(6, [[0, ['1', '1']], [4, ['1/2', '2']]])}]),      # C20-F
    ]

  # ---- T2
  def ops(self, case):
    k = case['k']; ints = case.get('_ints', False)
    if k == 'run':
      run = py_run(case['run'], ints)
      return [Op({'op': 'loader.run_to_array', 'run': case['run']}, lambda: outcome(lambda: L().run_to_array(run)), 1e-12, 'run_to_array')]
    if k == 'cb':
      run = py_run(case['run'], ints)
      return [Op({'op': 'loader.run_to_cbounds', 'run': case['run']}, lambda: outcome(lambda: L().run_to_cbounds_array(run)), 1e-12, 'run_to_cbounds_array')]
    if k == 'care':
      dev = {'care': np().array([pf(x) for x in case['care']]), 'bounds': py_helper_bounds(case['bounds'])}
      return [Op({'op': 'loader.care2bounds', 'n': case['n'], 'care': case['care'], 'bounds': case['bounds']},
                 lambda: outcome(lambda: U().care2bounds(dev)['bounds']), 1e-9, 'care2bounds')]
    if k == 'on':
      dev = {'on': list(case['on']), 'bounds': py_helper_bounds(case['bounds'])}
      return [Op({'op': 'loader.on2bounds', 'l': case['l'], 'on': case['on'], 'bounds': case['bounds']},
                 lambda: outcome(lambda: U().on2bounds(dev, case['l'])['bounds']), 1e-9, 'on2bounds')]
    if k == 'supply':
      d = {'type': 'supply', 'bounds': py_run(case['run'], ints), 'costs': {}}
      return [Op({'op': 'loader.supply_bounds', 'run': case['run']},
                 lambda: outcome(lambda: L().load_supply_device(d, case['run']['basis']).bounds), 1e-12, 'supply bounds')]
    if k == 'export':
      e = case['export']; pr = case['probe']
      ex1, ex2 = py_export(e, ints), py_export(e, ints)
      s = np().array([pf(x) for x in pr['s']]); s0 = np().array([pf(x) for x in pr['s0']])
      def dcost():
        dev = L().load_data(ex2).devices[pr['i']]
        return dev.cost(s, 0) - dev.cost(s0, 0)
      return [Op({'op': 'loader.load', 'export': e}, lambda: outcome(lambda: load_print(ex1)), 1e-9, 'load_data'),
              Op({'op': 'loader.dcost', 'export': e, 'i': pr['i'], 's': pr['s'], 's0': pr['s0']}, lambda: outcome(dcost), 1e-9, 'cost difference of a loaded leaf')]
    raise ValueError('unknown case kind %r' % k)

  # ---- oracle on the implementation
  def oracle(self, case):
    return getattr(self, 'oracle_' + case['k'])(case)

  def oracle_run(self, case):
    run_d = case['run']
    if not has_zero(run_d) or not homogeneous(run_d):
      return []                                       # outside the property's domain: T2 only
    run = py_run(run_d, case.get('_ints')); before = copy.deepcopy(run)
    try:
      got = L().run_to_array(run)
    except Exception as e:
      return [fail({'kind': 'cannot-decode', 'fn': 'run_to_array', 'exc': type(e).__name__}, 'run_to_array(%s) raised %s: %s' % (before, type(e).__name__, e))]
    out = []
    want = [o_floats(v) for v in o_expand(run_d)]
    if not close(got, want):
      out.append(fail({'kind': 'wrong-table', 'fn': 'run_to_array'}, 'run_to_array(%s) = %s, expected %s (value of the last run starting at or before each slot)' % (before, np().array(got).tolist(), want)))
    if not deep_equal(run, before):
      out.append(fail({'kind': 'input-modified', 'fn': 'run_to_array'}, 'run_to_array modified its argument: %s -> %s' % (before, run)))
    return out

  def oracle_cb(self, case):
    run_d = case['run']
    if case.get('_bad') or not all(isinstance(v, list) and len(v) == 2 for _, v in run_d['runs']):
      return []
    run = py_run(run_d, case.get('_ints')); before = copy.deepcopy(run)
    try:
      got = L().run_to_cbounds_array(run)
    except Exception as e:
      return [fail({'kind': 'cannot-decode', 'fn': 'run_to_cbounds_array', 'exc': type(e).__name__}, 'run_to_cbounds_array(%s) raised %s' % (before, type(e).__name__))]
    out = []
    want = o_cbounds(run_d)
    if len(got) != len(want) or not all(close(g, w) for g, w in zip(got, want)):
      out.append(fail({'kind': 'wrong-cbounds', 'fn': 'run_to_cbounds_array'}, 'run_to_cbounds_array(%s) = %s, expected %s' % (before, got, want)))
    elif has_zero(run_d) and all(s < run_d['basis'] for s, _ in run_d['runs']):
      cover = [sum(1 for c in got if c[2] <= t < c[3]) for t in range(run_d['basis'])]
      if any(c != 1 for c in cover):
        out.append(fail({'kind': 'not-a-partition', 'fn': 'run_to_cbounds_array'}, 'ranges of %s do not partition [0,%d): coverage %s' % (got, run_d['basis'], cover)))
    if not deep_equal(run, before):
      out.append(fail({'kind': 'input-modified', 'fn': 'run_to_cbounds_array'}, 'argument modified: %s -> %s' % (before, run)))
    return out

  def _helper(self, case, fn, n, mask, dev, call):
    b = case['bounds']
    if any(m not in (0.0, 1.0) for m in mask):
      return []
    before = copy.deepcopy(dev)
    extra = [1, [2, 3]]; dev['note'] = extra; before['note'] = copy.deepcopy(extra)
    try:
      res = call(dev)
    except Exception as e:
      return [fail({'kind': 'raised', 'fn': fn, 'exc': type(e).__name__}, '%s(%s) raised %s: %s' % (fn, before, type(e).__name__, e))]
    got = res['bounds']
    if b['form'] == 'pair':
      lo, hi = [pf(b['lo'])]*n, [pf(b['hi'])]*n
    elif b['form'] == 'pairvec':
      lo, hi = [pf(x) for x in b['lo']], [pf(x) for x in b['hi']]
    elif n == 2:           # a length-2 `bounds` IS the documented 2-tuple (low, high): that reading has precedence
      lo, hi = [pf(b['v'][0])]*2, [pf(b['v'][1])]*2
    else:
      lo = hi = [pf(x) for x in b['v']]
    want = [[lo[t], hi[t]] if mask[t] else [0.0, 0.0] for t in range(n)]
    out = []
    if not close(got, want):
      out.append(fail({'kind': 'wrong-bounds', 'fn': fn}, '%s(%s) gives bounds %s, expected %s (limits inside, 0 outside)' % (fn, before, np().array(got).tolist(), want)))
    if not deep_equal(dev, before):
      out.append(fail({'kind': 'input-modified', 'fn': fn}, '%s modified its argument: %s -> %s' % (fn, before, dev)))
    return out

  def oracle_care(self, case):
    mask = [pf(x) for x in case['care']]
    dev = {'care': np().array(mask), 'bounds': py_helper_bounds(case['bounds'])}
    return self._helper(case, 'care2bounds', case['n'], mask, dev, lambda d: U().care2bounds(d))

  def oracle_on(self, case):
    l, on = case['l'], case['on']
    if len(on) % 2:
      return []
    mask = [1.0 if any(on[i] <= t <= on[i + 1] for i in range(0, len(on), 2)) else 0.0 for t in range(l)]
    dev = {'on': list(on), 'bounds': py_helper_bounds(case['bounds'])}
    return self._helper(case, 'on2bounds', l, mask, dev, lambda d: U().on2bounds(d, l))

  def oracle_supply(self, case):
    e = {'basis': case['run']['basis'], 'devices': [{'type': 'supply', 'bounds': case['run'], 'costs': {}}]}
    return self.oracle_export({'k': 'export', 'export': e, '_ints': case.get('_ints')})

  def oracle_export(self, case):
    e = case['export']; basis = e['basis']; ints = case.get('_ints')
    reasons = [o_well_formed(d, basis) for d in e['devices']]
    export = py_export(e, ints); before = copy.deepcopy(export)
    out = []
    try:
      ds = L().load_data(export)
      exc = None
    except Exception as ex:
      exc = ex
    if any(r for r in reasons if r != FIXED_OPEN) or (exc is not None and any(reasons)):
      return []            # outside the property: which exports are rejected (and how) is not part of C20
    # (an export whose only irregularity is a fixed load with open slots and that WAS accepted falls through:
    #  one leaf per device, and every leaf's bounds table must be the table of its runs)
    if exc is not None:
      # which exported device cannot load?  (one-device exports, same basis)
      for i, d in enumerate(e['devices']):
        single = {'basis': basis, 'devices': [py_device(d, ints)]}
        try:
          L().load_data(single)
        except Exception as ex1:
          key = {'kind': 'cannot-load', 'device_type': d['type'], 'exc': type(ex1).__name__}
          if d['type'] == 'thermal_load':
            key['basis_ge_2'] = basis >= 2            # the array-valued t_range only breaks basis >= 2; basis 1 loads today
          feat = self._feature(d, basis)
          if feat:
            key['feature'] = feat
          out.append(fail(key, 'load_data(%s) raised %s: %s' % (single, type(ex1).__name__, str(ex1)[:160])))
      if not out:
        out.append(fail({'kind': 'cannot-load', 'device_type': 'set', 'exc': type(exc).__name__}, 'load_data(%s) raised %s: %s' % (before, type(exc).__name__, exc)))
      return out[:1] + [f for f in out[1:] if f['key'] != out[0]['key']]
    if len(ds.devices) != len(e['devices']):
      out.append(fail({'kind': 'leaf-count'}, '%d leaves for %d exported devices' % (len(ds.devices), len(e['devices']))))
      return out
    for i, (d, dev) in enumerate(zip(e['devices'], ds.devices)):
      out += o_check_leaf(d, dev, basis, 'device %d of %s' % (i, before))
    if not deep_equal(export, before):
      out.append(fail({'kind': 'input-modified', 'fn': 'load_data'}, 'load_data modified the export'))
    return out

  @staticmethod
  def _feature(d, basis):
    costs = d.get('costs')
    if d['type'] == 'storage' and any(k.endswith('ClippingFactor') for k, _ in d.get('parameters', [])):
      return 'clipping'
    return None

  # ---- evidence
  def nontrivial(self, case):
    k = case['k']
    if k == 'run':
      return len(case['run']['runs']) >= 2 and has_zero(case['run']) and homogeneous(case['run'])
    if k == 'cb':
      return len(case['run']['runs']) >= 2 and not case.get('_bad')
    if k == 'supply':
      return len(case['run']['runs']) >= 2
    if k == 'care':
      return set(case['care']) == {'0', '1'}
    if k == 'on':
      on = case['on']; l = case['l']
      if len(on) % 2:
        return False
      m = [any(on[i] <= t <= on[i + 1] for i in range(0, len(on) - 1, 2)) for t in range(l)]
      return any(m) and not all(m)
    e = case['export']; devs = e['devices']
    if any(('_kb' in d) or ('_malformed' in d) or o_well_formed(d, e['basis']) for d in devs):
      return False
    return len(set(d['type'] for d in devs)) >= 2 and any(len(d['bounds']['runs']) >= 2 for d in devs)


PROP = C20()
