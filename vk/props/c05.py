"""C05 — solve() returns a feasible cost-minimal flow or raises, never a silent bad one.

T2 (correspondence): `device_kit.solve.minimize` is replaced from outside (no repo hook) by a stub that
records its keyword arguments and answers a prescribed OptimizeResult — every SLSQP status 0..9 x
success in {True, False}.  Compared with the Lean model: the outcome (raise / reshaped x / shortcut)
[`solve.wrap`], and what the optimiser was handed, observed at a probe point: x0, objective difference,
Jacobian, bounds, constraint kinds/values, callback presence [`solve.args`]; plus the closed-form optimum
[`solve.closed`].

Oracle (implementation only, never the model): the stubbed runs against the property text itself
(failure => OptimizationException, success => device-shaped x); REAL solves on feasible convex leaves /
trees (shape, bounds and every constraint to 1e-6, closed form, first-order certificate gap by an LP over
the feasible polytope, and — when the gap is suspicious — an explicit better feasible point), and on
infeasible models (must raise OptimizationException)."""
import os
from .. import common as C, gen, build
from .. import gen_solve as G
from .. import scipy_guard as SG
from ..check import Prop, Op


def np():
  import numpy
  return numpy


def n_box_ok(x, box, tol=1e-5):
  return G.n_box_ok(x, box, tol)


STUB_MODELS = ['leaf', 'tree', 'mf']


class C05(Prop):
  id = 'C05'
  lean_module = 'DK.Props.C05'
  uses_t1 = False
  theorems = {'DK.Props.C05': [
    'DK.C05.solve_raises_on_failure', 'DK.C05.solve_raises_on_every_status', 'DK.C05.solve_ok_cases',
    'DK.C05.shortcut_checks_constraints', 'DK.C05.shortcut_ok_iff', 'DK.C05.all_withinTol_iff', 'DK.C05.allWithin_zero_iff', 'DK.C05.shortcut_unique',
    'DK.C05.plain_objective', 'DK.C05.prox_zero_is_none', 'DK.C05.prox_objective',
    'DK.C05.first_order_certificate', 'DK.C05.first_order_certificate_grad', 'DK.feasible_convex',
    'DK.C05.idevice2_closed_form', 'DK.C05.idevice2_first_order', 'DK.C05.idevice2_stationary',
    'DK.C05.device_closed_form', 'DK.C05.cdevice_closed_form',
  ],
              'DK.Props.TreeGrad': ['DK.TreeGrad.first_order_certificate_mat', 'DK.TreeGrad.tree_grad_ineq', 'DK.TreeGrad.tree_first_order_certificate',
                                    'DK.TreeGrad.tree_certified_sublevel', 'DK.TreeGrad.shipped_tree_first_order_certificate']}
  rule = ('fault enumeration: every SLSQP status 0..9 x success T/F x {leaf, tree, tree with MF adaptor} x prox None/0/>0 x s0 None/flat/device-shaped x callback; '
          'real solves: convex leaves of every class and trees (aggregate bounds, label balancing, MF adaptors), n <= 6 (8 thorough), all price shapes, prox on/off, '
          's0 given/None (float and integer dtype), all-fixed devices, infeasible models, producers with zero-capacity slots behind MF / two-ratio adaptors, '
          'histories solve -> leaf setter (bounds, cbounds, cost parameter) -> solve on the same tree compared with a fresh twin; non-trivial: a real solve whose returned flow has >= 1 active constraint or bound')
  sizes = {'quick': 60, 'thorough': 1500}
  assumptions = [
    'SLSQP is a parameter of the model: its convergence and the honesty of its `success` flag are runtime behaviour no theorem reaches (level: proof, partial); only the oracle observes them',
    'oracle polytope: bounds + the implementation\'s constraint functions read at 0 and the unit vectors (exact for affine functions; affinity probed)',
    'models on which SciPy\'s SLSQP is known to corrupt memory (more equality constraints than the variables it works on; vk/scipy_guard.py) are not solved for real: '
    'they are counted as scipy_unsafe_skipped, the stubbed runs still cover them',
  ]

  def __init__(self):
    self.ev = {'real_solves': 0, 'returned': 0, 'raised_on_feasible': 0, 'raised_on_infeasible': 0, 'infeasible_models': 0,
               'shortcut_returns': 0, 'closed_form_compared': 0, 'certificates': 0, 'worst_gap_over_scale': 0.0,
               'max_violation': 0.0, 'refined_searches': 0, 'stub_runs': 0, 'nonaffine_skipped': 0,
               'scipy_unsafe_skipped': 0, 'raised_on_feasible_degenerate_start': 0, 'raised_on_feasible_by_status': {}}

  # ------------------------------------------------------------------ cases
  def stub_case(self, rng, tier, mkind, status, success, n=None):
    m = G.random_model(rng, tier, mkind, nmax=4, n=n, classes=G.LIGHT if n else None)
    R, n = G.model_rows(m), m['n']
    N = R*n
    r = rng.random()
    s0, shape, order = None, 'flat', 'C'
    if r < 0.6:      # the caller's start point: anywhere within box +- 2 (it is only ASSUMED feasible), flat / device-shaped, C or Fortran memory order
      s0 = G.dyadic_flow(rng, m, spread=rng.choice([None, 2, 2])); shape = rng.choice(['flat', 'dev'])
      order = rng.choice(['C', 'F']) if shape == 'dev' else 'C'
    prox = rng.choice([None, None, '0', '1/2', '2', '-1'])
    res = {'x': [C.fs(C.dy(rng, -4, 4, 3)) for _ in range(N)], 'success': success, 'status': status,
           'message': G.SLSQP_MESSAGES[status] if not (success and status) else 'stub'}
    return {'kind': 'stub', 'model': m, 'p': G.gen_price(rng, R, n), 's0': s0, 's0shape': shape, 's0order': order, 'prox': prox,
            'cb': rng.random() < 0.3, 'res': res, 'probe': G.dyadic_flow(rng, m),
            'ftol': rng.choice([None, None, None, '1/1024']), 'maxiter': rng.choice([None, None, None, 7, 250])}

  FIXED_CONS = ['none', 'sat-ineq', 'sat-eq', 'viol-ineq', 'viol-eq', 'edge-in-ineq', 'edge-in-eq', 'edge-out-ineq', 'edge-out-eq']

  def fixed_model(self, rng, tier, mkind=None, con=None):
    """every slot fixed (lb == hb): the shortcut applies.  `con` places one constraint relative to the only in-bounds
    flow: satisfied / violated, inequality / equality, and just inside / outside the default tolerance 1e-6
    (2^-24 ~ 6e-8 inside, 2^-16 ~ 1.5e-5 outside).  mkind: a leaf (ADevice with a user constraint), a tree of fixed
    leaves with aggregate bounds, a tree with an MF adaptor over a zero-flow device carrying a user constraint."""
    from fractions import Fraction as Fr
    n = rng.randint(1, 4)
    mkind = mkind or rng.choice(['leaf', 'tree', 'mf'])
    con = con or rng.choice(self.FIXED_CONS)
    eq = con.endswith('eq') and not con.endswith('ineq')
    if con.startswith('sat'):
      delta = Fr(0) if eq else C.dy(rng, 0, 2)
    elif con.startswith('viol'):
      delta = -C.dy(rng, Fr(1, 8), 2, 3) * (rng.choice([1, -1]) if eq else 1)
    elif con.startswith('edge-in'):
      delta = -Fr(1, 1 << 24) * (rng.choice([1, -1]) if eq else 1)
    elif con.startswith('edge-out'):
      delta = -Fr(1, 1 << 16) * (rng.choice([1, -1]) if eq else 1)
    else:
      delta = None
    def ucon(vals):
      w = [C.dy(rng, -2, 2) for _ in vals]
      c = delta - sum((a*b for a, b in zip(w, vals)), Fr(0))
      return [{'type': 'eq' if eq else 'ineq', 'w': [C.fs(x) for x in w], 'c': C.fs(c), 'n': len(vals), 'jac': rng.random() < 0.7}]
    def fixed_leaf(i, cls=None, zero=False):
      cls = cls or rng.choice(['Device', 'IDevice2', 'CDevice', 'IDevice', 'PVDevice'])
      d = G.convex_leaf(rng, tier, n, [cls], with_cbounds=False)
      sign = -1 if cls == 'PVDevice' else 1
      v = [Fr(0) if zero else sign*C.dy(rng, 0, 3) for _ in range(n)]
      d['lb'] = [C.fs(x) for x in v]; d['hb'] = [C.fs(x) for x in v]; d['_py']['bform'] = 'table'
      if cls == 'ADevice':
        d['prm']['f'] = {'k': 'null'}
      return d, v
    if mkind == 'leaf':
      d, v = fixed_leaf(0, 'ADevice' if delta is not None else None)
      if delta is not None:
        d['ucons'] = ucon(v)
      return {'tree': G.leaf_tree(d, 'f0'), 'n': n}
    kids, tot = [], [Fr(0)]*n
    if mkind == 'mf':
      d, v = fixed_leaf(0, 'ADevice', zero=True)
      if delta is not None:
        d['ucons'] = ucon(v)
      kids.append({'k': 'mf', 'id': 'm0', 'dev': d, 'flows': ['e', 'h'][:rng.randint(1, 2)], 'ratios': None})
    for i in range(rng.randint(1, 3)):
      d, v = fixed_leaf(i)
      kids.append({'k': 'leaf', 'id': 'f%d' % i, 'dev': d})
      tot = [a + b for a, b in zip(tot, v)]
    t = {'k': 'node', 'id': 'root', 'sb': None, 'ch': kids, 'sub': False}
    if mkind == 'tree' and delta is not None:
      j = rng.randrange(n)
      sb = []
      for i in range(n):
        if i != j:
          sb.append([C.fs(tot[i] - 1), C.fs(tot[i] + 1)])
        elif eq:
          sb.append([C.fs(tot[i] - delta), C.fs(tot[i] - delta)])      # column sum - bound = delta
        elif rng.random() < 0.5:
          sb.append([C.fs(tot[i] - delta), C.fs(tot[i] - delta + 1)])  # lower side: sum - lo = delta
        else:
          sb.append([C.fs(tot[i] + delta - 1), C.fs(tot[i] + delta)])  # upper side: hi - sum = delta
      t['sb'] = sb
    return {'tree': t, 'n': n}

  def near_fixed_model(self, rng, tier, leaf_only=False):
    """every slot is fixed or NEARLY fixed (width 2^-17 ~ 7.6e-6 or 2^-23 ~ 1.2e-7), at least one slot is not fixed: the
    shortcut must NOT be taken (it applies only when every slot is exactly fixed); the optimum is still a closed form."""
    from fractions import Fraction as Fr
    n = rng.randint(1, 4)
    def leaf(id):
      cls = rng.choice(['Device', 'CDevice', 'PVDevice'])
      d = G.convex_leaf(rng, tier, n, [cls], with_cbounds=False)
      sign = -1 if cls == 'PVDevice' else 1
      lo = [sign*C.dy(rng, 0, 3) for _ in range(n)]
      w = [rng.choice([Fr(0), Fr(1, 1 << 17), Fr(1, 1 << 23)]) for _ in range(n)]
      if not any(w):
        w[rng.randrange(n)] = rng.choice([Fr(1, 1 << 17), Fr(1, 1 << 23)])
      lb = [a - b if sign < 0 else a for a, b in zip(lo, w)]; hb = [a if sign < 0 else a + b for a, b in zip(lo, w)]
      d['lb'] = [C.fs(x) for x in lb]; d['hb'] = [C.fs(x) for x in hb]; d['_py']['bform'] = 'table'
      return {'k': 'leaf', 'id': id, 'dev': d}
    if leaf_only or rng.random() < 0.5:
      return {'tree': leaf('f0'), 'n': n}
    return {'tree': {'k': 'node', 'id': 'root', 'sb': None, 'sub': False, 'ch': [leaf('f%d' % i) for i in range(rng.randint(2, 3))]}, 'n': n}

  def real_case(self, rng, tier):
    r = rng.random()
    if r < 0.12:
      m = G.infeasible_model(rng, tier)
      return {'kind': 'infeasible', 'model': {'tree': m['tree'], 'n': m['n']}, 'why': m['why'],
              'p': G.gen_price(rng, G.model_rows(m), m['n']), 's0': None, 's0shape': 'flat', 'prox': None}
    if r < 0.145:
      m = self.near_fixed_model(rng, tier, leaf_only=True)
      d = m['tree']['dev']
      return {'kind': 'closed', 'dev': d, 'p': [C.fs(C.dy(rng, -3, 3, 3)) for _ in range(d['n'])]}
    if r < 0.17:
      m = self.fixed_model(rng, tier)
      return {'kind': 'real', 'model': m, 'p': G.gen_price(rng, G.model_rows(m), m['n']), 's0': None, 's0shape': 'flat', 'prox': None}
    if r < 0.28:
      n = rng.randint(1, 6 if tier == 'quick' else 8)
      d = G.convex_leaf(rng, tier, n, [rng.choice(['IDevice2', 'IDevice2', 'Device', 'PVDevice', 'CDevice'])], with_cbounds=False)
      return {'kind': 'closed', 'dev': d, 'p': [C.fs(C.dy(rng, -3, 3, 3)) for _ in range(n)]}
    if r < 0.38:       # producers with zero-capacity slots behind an MF adaptor: the documented conduit box is (-cap_t, 0)
      m = G.mf_producer_model(rng, tier)
      R, n = G.model_rows(m), m['n']
      return {'kind': 'real', 'model': m, 'p': [C.fs(C.dy(rng, 0.25, 3, 3)) for _ in range(n)] if rng.random() < 0.7 else G.gen_price(rng, R, n),
              's0': None, 's0shape': 'flat', 'prox': None}
    if r < 0.48:       # solve, re-rate a leaf through its public setters, solve the SAME tree again: compared with a fresh twin
      m, edit = G.history_model(rng, tier)
      return {'kind': 'history', 'model': m, 'edit': edit, 'p': G.gen_price(rng, G.model_rows(m), m['n']), 'first': rng.choice(['solve', 'solve', 'touch'])}
    if r < 0.52:       # integer-typed start point
      m, flow, price = G.int_model(rng, tier)
      return {'kind': 'real', 'model': m, 'p': price, 's0': flow, 's0shape': rng.choice(['flat', 'dev']), 's0dtype': 'int',
              'prox': rng.choice([None, '2'])}
    if r < 0.58:       # the proximal penalty is centred on the CALLER's start point: also where device.project would move it (MF adaptors),
                       # where it lies outside the box (within box +- 2), and when the device-shaped array is held in Fortran memory order
      m = G.random_model(rng, tier, rng.choice(['mf', 'tree', 'leaf']), nmax=4)
      shape = rng.choice(['flat', 'dev', 'dev'])
      return {'kind': 'real', 'model': m, 'p': G.gen_price(rng, G.model_rows(m), m['n']), 's0': G.dyadic_flow(rng, m, spread=rng.choice([None, 2])),
              's0shape': shape, 's0order': rng.choice(['C', 'F']) if shape == 'dev' else 'C', 'prox': rng.choice(['1/2', '2', '8'])}
    m = G.random_model(rng, tier)
    R, n = G.model_rows(m), m['n']
    s0, shape = None, 'flat'
    prox = rng.choice([None, None, None, '1/2', '2', '8'])
    if rng.random() < 0.35:
      s0 = G.dyadic_flow(rng, m); shape = rng.choice(['flat', 'dev'])
      if rng.random() < 0.5:
        prox = rng.choice(['1/2', '2', '8'])      # the penalty is centred on the CALLER's start point
    return {'kind': 'real', 'model': m, 'p': G.gen_price(rng, R, n), 's0': s0, 's0shape': shape, 'prox': prox}

  def corpus(self):
    """minimised past failures, run first on every check."""
    def leaf(id, cls, n, lb, hb, prm):
      return {'k': 'leaf', 'id': id, 'dev': {'cls': cls, 'n': n, 'lb': lb, 'hb': hb, 'cbs': [], 'prm': prm, '_py': {'bform': 'table', 'cform': None}}}
    i2 = lambda id, pl: leaf(id, 'IDevice2', 3, ['0']*3, ['2']*3, {'p_l': pl, 'p_h': '-1'})
    two_rows = {'tree': {'k': 'node', 'id': 'root', 'sb': [['0', '3']]*3, 'ch': [i2('a', '-2'), i2('b', '-3')], 'sub': False}, 'n': 3}
    fixed = {'tree': {'k': 'node', 'id': 'root', 'sb': None, 'sub': False,
                      'ch': [leaf('a', 'Device', 2, ['1', '2'], ['1', '2'], {}), leaf('b', 'Device', 2, ['0', '3'], ['0', '3'], {})]}, 'n': 2}
    fixed_bad = {'tree': dict(fixed['tree'], sb=[['2', '3'], ['6', '7']]), 'n': 2}
    mk = lambda m, p: {'kind': 'real', 'model': m, 'p': p, 's0': None, 's0shape': 'flat', 'prox': None}
    # witness of the listed (open) finding F2: two MF adaptors, the second over a zero-width slot (conduit-sum equality) with a coincident
    # cumulative bound; SLSQP stays at the even split (-2, -2) with status 0 although (-4, 0) is feasible and cheaper by 1.25
    mfleaf = lambda id, cls, lb, hb, cb, prm, flows: {'k': 'mf', 'id': id, 'flows': flows, 'ratios': None,
      'dev': {'cls': cls, 'n': 1, 'lb': [lb], 'hb': [hb], 'cbs': [cb], 'prm': prm, '_py': {'bform': 'pair', 'cform': '2tuple'}}}
    f2 = {'tree': {'k': 'node', 'id': 'root', 'sb': [['-185/32', '241/32']], 'sub': False, 'ch': [
            mfleaf('m1', 'ADevice', '2', '13/4', ['2', '21/8', 0, 1], {'f': {'k': 'hlq', 'pl': ['-1/2'], 'ph': ['-1/4'], 'xl': ['2'], 'xh': ['13/4']}}, ['e', 'h', 'g']),
            mfleaf('m2', 'GDevice', '-4', '-4', ['-4', '-7/2', 0, 1], {'cost_coeffs': ['1', '1']}, ['e', 'h'])]}, 'n': 1}
    # witness of the non-MF variant (found at seed 303 with 1500 cases): a nested set's equality aggregate bound (0, 0) over a slot whose
    # only leaf is fixed at 0 by its bounds — the equality duplicates the active bound
    import json
    f2b = json.loads('{"kind": "real", "model": {"tree": {"k": "node", "id": "root", "sb": [["89/32", "89/32"], ["75/16", "75/16"], ["61/16", "61/16"]], "ch": [{"k": "leaf", "id": "a1", "dev": {"cls": "IDevice", "n": 3, "lb": ["1/2", "1/2", "1/2"], "hb": ["5/2", "5/2", "5/2"], "cbs": [], "prm": {"a": "0", "b": ["2", "3", "4"], "c": "0"}, "_py": {"bform": "scalar", "cform": null}}}, {"k": "node", "id": "s3", "sb": [["0", "0"], ["11/16", "39/16"], ["9/8", "9/8"]], "ch": [{"k": "leaf", "id": "h2", "dev": {"cls": "IDevice2", "n": 3, "lb": ["0", "1/4", "1/2"], "hb": ["0", "15/4", "7/4"], "cbs": [], "prm": {"p_l": "-7/4", "p_h": "-1"}, "_py": {"bform": "pair", "cform": null}}}], "sub": false}, {"k": "leaf", "id": "a4", "dev": {"cls": "CDevice2", "n": 3, "lb": ["7/4", "1/2", "3/4"], "hb": ["4", "1/2", "3"], "cbs": [["3", "15/2", 0, 3]], "prm": {"p_l": "-2", "p_h": "-3/4"}, "_py": {"bform": "table", "cform": null}}}], "sub": false}, "n": 3}, "p": ["5/8", "-1/2", "-2"], "s0": null, "s0shape": "flat", "prox": null}')
    # a storage leaf whose `reserve` is raised between two solves of the same tree (fixed sub-seed: the same case on every run)
    import random as _r
    hr = _r.Random(1000); hm, hedit = G.sdevice_history(hr, 'quick', 3)
    hist = {'kind': 'history', 'model': hm, 'edit': hedit, 'p': G.gen_price(hr, G.model_rows(hm), hm['n']), 'first': 'solve'}
    return [mk(f2, [['21/8'], ['-5/4'], ['-15/8'], ['13/8'], ['1']]), f2b, hist,
            mk(two_rows, '3/2'),        # every multi-row solve raised a low-level SciPy error (matrix-shaped Jacobian)
            mk(fixed, '0'),             # the fixed-flow shortcut returned a flat vector
            mk(fixed_bad, '0')]         # ... and ignored the constraints (aggregate bounds exclude the only in-bounds flow): must raise

  def cases(self, rng, tier, count):
    out = []
    reps = 1 if tier == 'quick' else 4
    for _ in range(reps):
      for mkind in STUB_MODELS:
        for status in G.SLSQP_STATUSES:
          for success in (True, False):
            out.append(self.stub_case(rng, tier, mkind, status, success))
    for nlong in (25, 48):      # long horizons: the options handed to the optimiser (ftol, maxiter) must not depend on the horizon
      for mkind in ('leaf', 'tree'):
        out.append(self.stub_case(rng, tier, mkind, rng.choice(G.SLSQP_STATUSES), rng.random() < 0.5, n=nlong))
    for _ in range(reps):       # the shortcut under the stub: the optimiser must not be called; constraints decide ok / raise
      for mkind in STUB_MODELS:
        for con in self.FIXED_CONS:
          m = self.fixed_model(rng, tier, mkind, con)
          R, n = G.model_rows(m), m['n']
          out.append({'kind': 'stub', 'model': m, 'p': G.gen_price(rng, R, n), 's0': None, 's0shape': 'flat', 'prox': None, 'cb': False,
                      'ftol': rng.choice([None, None, None, '1/1024', '1/1048576', '1/1073741824']),
                      'res': {'x': [C.fs(C.dy(rng, -4, 4, 3)) for _ in range(R*n)], 'success': rng.random() < 0.5, 'status': rng.choice([0, 4, 8]), 'message': 'stub'},
                      'probe': G.dyadic_flow(rng, m)})
    for _ in range(6*reps):     # nearly fixed boxes under the stub: the optimiser MUST be called
      m = self.near_fixed_model(rng, tier)
      R, n = G.model_rows(m), m['n']
      c = self.stub_case(rng, tier, 'leaf', rng.choice(G.SLSQP_STATUSES), rng.random() < 0.6)
      c.update({'model': m, 'p': G.gen_price(rng, R, n), 's0': None, 's0shape': 'flat', 's0order': 'C', 'probe': G.dyadic_flow(rng, m)})
      c['res']['x'] = [C.fs(C.dy(rng, -4, 4, 3)) for _ in range(R*n)]
      out.append(c)
    for _ in range(reps):       # one real solve at a two-day horizon with a closed form
      d = G.convex_leaf(rng, tier, 48, ['IDevice2'], with_cbounds=False)
      out.append({'kind': 'closed', 'dev': d, 'p': [C.fs(C.dy(rng, -3, 3, 3)) for _ in range(48)]})
    for _ in range(6*reps):     # stubbed solve after an earlier use of the tree and a leaf re-rating: the optimiser sees the current table
      m, edit = G.history_model(rng, tier)
      R, n = G.model_rows(m), m['n']
      c = self.stub_case(rng, tier, 'leaf', rng.choice(G.SLSQP_STATUSES), rng.random() < 0.6)
      c.update({'model': m, 'edit': edit, 'p': G.gen_price(rng, R, n), 's0': None, 's0shape': 'flat', 'probe': G.dyadic_flow(rng, G.edited_model(m, edit))})
      c['res']['x'] = [C.fs(C.dy(rng, -4, 4, 3)) for _ in range(R*n)]
      out.append(c)
    for _ in range(count):
      out.append(self.real_case(rng, tier))
    return out

  # ------------------------------------------------------------------ running the implementation under a stub
  def run_stub(self, case):
    """-> (outcome list as the driver encodes it, observed problem list)."""
    n_ = np()
    S = G.solve_module()
    m = case['model']
    dev = G.build_model(m)
    if case.get('edit'):       # an earlier use of the tree, then a leaf re-rated through its public setters
      G.touch(dev)
      G.apply_edit(dev, case['edit'])
    p = G.price_arg(case['p'])
    s0 = G.flow_arg(case['s0'], m, case['s0shape'], case.get('s0order', 'C')) if case['s0'] is not None else None
    prox = None if case['prox'] is None else C.pf(case['prox'])
    cb = (lambda d, x: None) if case['cb'] else None
    fake = G.fake_result(case['res'])
    rec = {}
    probe = [C.pf(v) for v in case['probe']]
    def stub(*a, **kw):
      fun = kw.pop('fun', a[0] if a else None); x0 = kw.pop('x0', a[1] if len(a) > 1 else None)
      rec['calls'] = rec.get('calls', 0) + 1
      try:        # observed at call time
        rec['args'] = G.observe_problem(fun, x0, kw, probe)
      except Exception as e:
        rec['args'] = e
      return fake
    old = S.minimize
    S.minimize = stub
    try:
      try:
        opts = {'ftol': C.pf(case['ftol'])} if case.get('ftol') is not None else {}
        if case.get('maxiter') is not None:
          opts['maxiter'] = int(case['maxiter'])
        s, o = S.solve(dev, p, s0, solver_options=opts, prox=prox, cb=cb)
        if tuple(n_.array(s).shape) != tuple(int(v) for v in dev.shape):
          raise ValueError('solve returned shape %s for a device of shape %s' % (n_.array(s).shape, tuple(dev.shape)))
        if o is None:
          outcome = [2.0, float(dev.shape[0]), float(dev.shape[1])] + list(n_.array(s, dtype=float).reshape(-1))
        elif o is fake:
          outcome = [1.0, float(dev.shape[0]), float(dev.shape[1])] + list(n_.array(s, dtype=float).reshape(-1))
        else:
          raise ValueError('solve returned a result object that is not the optimiser\'s')
      except S.OptimizationException as e:
        outcome = [0.0] if e.o is fake else ([3.0] if not rec.get('calls') else [9.0])
    finally:
      S.minimize = old
    args = []
    if rec.get('calls'):
      if rec['calls'] != 1:
        raise ValueError('optimiser called %d times' % rec['calls'])
      if isinstance(rec['args'], Exception):
        raise rec['args']
      args = rec['args']
    return outcome, args

  def ops(self, case):
    if case['kind'] == 'stub':
      m = G.edited_model(case['model'], case['edit']) if case.get('edit') else case['model']
      base = {'tree': m['tree'], 'n': m['n'], 'P': case['p'], 's0': case['s0'], 'prox': case['prox'], 'cb': case['cb'], 'ftol': case.get('ftol'), 'maxiter': case.get('maxiter')}
      memo = {}
      def run():
        if 'r' not in memo:
          try:
            memo['r'] = self.run_stub(case)
          except Exception as e:
            memo['r'] = e
        if isinstance(memo['r'], Exception):
          raise memo['r']
        return memo['r']
      return [
        Op(dict(base, op='solve.wrap', res=case['res']), lambda: run()[0], 1e-9, 'outcome of solve under a stubbed optimiser'),
        Op(dict(base, op='solve.args', probe=case['probe']), lambda: run()[1], 1e-9, 'arguments handed to the optimiser'),
      ]
    if case['kind'] == 'closed':
      d = case['dev']
      return [Op({'op': 'solve.closed', 'dev': d, 'p': case['p']}, lambda: G.closed_form(d, [C.pf(x) for x in case['p']]), 1e-9, 'closed-form optimum')]
    return []

  # ------------------------------------------------------------------ oracle
  def oracle(self, case):
    k = case['kind']
    if k == 'stub':
      return self.oracle_stub(case)
    if k == 'history':
      return self.oracle_history(case)
    if k == 'closed':
      m = {'tree': G.leaf_tree(case['dev']), 'n': case['dev']['n']}
      return self.oracle_real(dict(case, model=m, s0=None, s0shape='flat', prox=None, kind='real'), closed=True, orig=case)
    return self.oracle_real(case)

  def oracle_stub(self, case):
    """the property text on the stubbed run: a reported failure is raised, a success returns x in device shape."""
    n_ = np()
    self.ev['stub_runs'] += 1
    res = case['res']
    key = {'kind': 'stub', 'status': res['status'], 'success': res['success']}
    try:
      outcome, args = self.run_stub(case)
    except Exception as e:
      return [{'key': dict(key, kind='stub-raised', exc=type(e).__name__),
               'detail': 'solve under a stubbed optimiser (status %d, success %s) raised %s: %s' % (res['status'], res['success'], type(e).__name__, str(e)[:200])}]
    code = outcome[0]
    if case.get('s0') is not None and args:
      # "forall start points": the optimiser starts from the CALLER's point, row by row, wherever it lies and however the array is laid out in memory
      Nv = int(args[0]); got = [float(v) for v in args[1:1 + Nv]]; want = [C.pf(v) for v in case['s0']]
      if len(got) != len(want) or any(abs(a - b) > 1e-12 for a, b in zip(got, want)):
        return [{'key': dict(key, kind='start-point-altered'),
                 'detail': 'solve was given the start point %s (%s, memory order %s) but handed the optimiser x0 = %s' % (want, case['s0shape'], case.get('s0order', 'C'), got)}]
    if code in (2.0, 3.0):     # shortcut: the optimiser result is irrelevant — but only a fully fixed device may take it
      mm = G.edited_model(case['model'], case['edit']) if case.get('edit') else case['model']
      lb, hb = G.model_box(mm)
      if any(a != b for a, b in zip(lb, hb)):
        return [{'key': dict(key, kind='shortcut-on-free-device'),
                 'detail': 'solve %s without calling the optimiser although %d of %d slots are not fixed (bounds %s / %s)' % (
                   'returned' if code == 2.0 else 'raised', sum(a != b for a, b in zip(lb, hb)), len(lb), lb, hb)}]
      tol = C.pf(case['ftol']) if case.get('ftol') is not None else 1e-6
      dev = G.build_model(mm)
      v, what = G.violation(dev, n_.array(lb), mm)
      if code == 2.0 and v > tol*(1 + 1e-9) + 1e-15:
        return [{'key': dict(key, kind='infeasible-return', shortcut=True),
                 'detail': 'fixed-flow shortcut returned %s which violates %s by %.3g (tolerance %g)' % (lb, what, v, tol)}]
      if code == 3.0 and v < 0.5*tol:
        return [{'key': dict(key, kind='fixed-feasible-raised'),
                 'detail': 'every slot is fixed and the only in-bounds flow %s satisfies all constraints (max violation %.3g, tolerance %g) but solve raised' % (lb, v, tol)}]
      return []
    if not res['success'] and code != 0.0:
      return [{'key': dict(key, kind='silent-failure'),
               'detail': 'optimiser reported success=False status=%d (%s) but solve returned a flow instead of raising OptimizationException' % (res['status'], res.get('message'))}]
    if res['success']:
      want = [C.pf(v) for v in res['x']]
      if code != 1.0 or any(abs(a - b) > 1e-12 for a, b in zip(outcome[3:], want)):
        return [{'key': dict(key, kind='success-not-returned'), 'detail': 'optimiser reported success (status %d) but solve did not return its x reshaped' % res['status']}]
    return []

  def objective(self, dev, p, prox, s0flat):
    n_ = np()
    if prox:
      f = lambda y: float(dev.cost(y, p)) + (1/(2*prox))*float(((y - s0flat)**2).sum())
      g = lambda y: n_.array(dev.deriv(y, p), dtype=float).flatten() + (1/prox)*(y - s0flat)
    else:
      f = lambda y: float(dev.cost(y, p))
      g = lambda y: n_.array(dev.deriv(y, p), dtype=float).flatten()
    return f, g

  def oracle_real(self, case, closed=False, orig=None):
    n_ = np()
    S = G.solve_module()
    m = case['model']
    dev = G.build_model(m)
    R, n = G.model_rows(m), m['n']
    N = R*n
    classes = sorted(set(l['dev']['cls'] for l in G.all_leaves(m['tree'])))
    has_mf = gen.tree_has(m['tree'], 'mf')
    base = {'classes': classes, 'mf': has_mf, 'rows': R}
    where = 'model classes=%s rows=%d n=%d price=%s s0=%s prox=%s' % (classes, R, n, case['p'], 'given' if case['s0'] is not None else None, case.get('prox'))
    if tuple(int(v) for v in dev.shape) != (R, n):
      return [{'key': dict(base, kind='device-shape'), 'detail': 'device.shape is %s, description has (%d, %d)' % (tuple(dev.shape), R, n)}]
    if not SG.safe_to_solve(dev):
      self.ev['scipy_unsafe_skipped'] += 1
      return []
    p = G.price_arg(case['p'])
    s0 = G.flow_arg(case['s0'], m, case['s0shape'], case.get('s0order', 'C')) if case['s0'] is not None else None
    if s0 is not None and case.get('s0dtype') == 'int':
      s0 = G.int_flow_arg(case['s0'], m, case['s0shape'])
    prox = None if case.get('prox') is None else C.pf(case['prox'])
    poly = G.polytope(dev, N)
    box = G.model_box(m)            # the DOCUMENTED per-variable bounds, from the description
    bd = n_.stack((n_.array(box[0]), n_.array(box[1])), axis=1)
    table_differs = n_.array(dev.bounds, dtype=float).shape != bd.shape or not n_.allclose(n_.array(dev.bounds, dtype=float), bd, atol=1e-12)
    feas, witness = G.feasibility(dev, N, poly, box)
    self.ev['real_solves'] += 1
    if feas == 'infeasible':
      self.ev['infeasible_models'] += 1
    try:
      s, o = S.solve(dev, p, s0, prox=prox)
    except S.OptimizationException as e:
      self.ev['raised_on_infeasible' if feas == 'infeasible' else 'raised_on_feasible'] += 1
      if feas != 'feasible':
        return []
      # a feasible model (LP witness in hand) must be solved — unless the optimiser itself genuinely fails on it: the
      # documented SciPy call (same objective, same start, ftol 1e-6, maxiter 1000), made here directly, fails too.
      # (On the unchanged tree these are SLSQP failures on degenerate active sets / infeasible starts; they are counted.)
      from scipy.optimize import minimize
      o = e.o
      status = getattr(o, 'status', None)
      x0 = (n_.array(s0, dtype=float) if s0 is not None else n_.array(dev.project(n_.zeros(dev.shape)), dtype=float)).flatten()
      f, g = self.objective(dev, p, prox, x0)
      try:
        ref = minimize(f, x0, jac=g, method='SLSQP', bounds=dev.bounds, constraints=dev.constraints, options={'ftol': 1e-6, 'maxiter': 1000, 'disp': False})
        ref_ok, ref_status = bool(ref.success), int(ref.status)
      except Exception:
        ref_ok, ref_status = False, -1
      bs = self.ev['raised_on_feasible_by_status']
      bs[str(status)] = bs.get(str(status), 0) + 1
      if not ref_ok:
        if poly[4] and not G.licq(dev, N, poly, x0)[0]:
          self.ev['raised_on_feasible_degenerate_start'] += 1
        return []
      return [{'key': dict(base, kind='raised-on-feasible', status=status),
               'detail': 'solve raised OptimizationException (%s) although the model is feasible (the flow %s satisfies bounds and constraints, max violation %.1e) '
                         'and the documented SLSQP call (ftol 1e-6, maxiter 1000, same start and objective) succeeds with status %d; %s' % (
                           ('status %s: %s' % (status, getattr(o, 'message', ''))) if status is not None else str(o)[:80],
                           witness.round(6).tolist(), G.violation(dev, witness)[0], ref_status, where)}]
    except Exception as e:
      return [{'key': dict(base, kind='wrong-exception', exc=type(e).__name__),
               'detail': 'solve raised %s (%s) instead of returning or raising OptimizationException; %s' % (type(e).__name__, str(e)[:120], where)}]
    self.ev['returned'] += 1
    shortcut = o is None
    if shortcut:
      self.ev['shortcut_returns'] += 1
    a = n_.array(s, dtype=float)
    if tuple(a.shape) != (R, n):
      return [{'key': dict(base, kind='shape', shortcut=shortcut), 'detail': 'solve returned shape %s for a device of shape (%d, %d)%s; %s' % (a.shape, R, n, ' (fixed-flow shortcut)' if shortcut else '', where)}]
    x = a.reshape(-1)
    v, what = G.violation(dev, x, m)
    self.ev['max_violation'] = max(self.ev['max_violation'], v if feas != 'infeasible' else 0.0)
    # solver tolerance: SLSQP's own (relaxed) convergence test accepts a constraint violation up to 10 * ftol = 1e-5 (observed 3.5e-6 with status 0
    # from an out-of-box start); the shortcut, which tests the constraints itself, is held to ftol
    if v > (1e-6 if shortcut else 1e-5):
      return [{'key': dict(base, kind='infeasible-return', shortcut=shortcut, model_feasible=feas),
               'detail': 'solve returned %s which violates %s by %.3g (model is %s%s); %s' % (x.round(6).tolist(), what, v, feas, ', fixed-flow shortcut' if shortcut else '', where)}]
    if feas == 'infeasible':
      return [{'key': dict(base, kind='returned-on-infeasible'), 'detail': 'LP says the model is infeasible but solve returned a flow within tolerance; %s' % where}]
    if not n_box_ok(x, box):
      k = int(n_.argmax(n_.maximum(bd[:, 0] - x, x - bd[:, 1])))
      return [{'key': dict(base, kind='infeasible-return', shortcut=shortcut, model_feasible=feas),
               'detail': 'solve returned %s; variable %d = %.6g is outside its documented bounds (%g, %g); %s' % (x.round(6).tolist(), k, x[k], bd[k, 0], bd[k, 1], where)}]
    if shortcut and (bd[:, 0] == bd[:, 1]).all():
      return []          # the only in-bounds flow
    if shortcut:
      return [{'key': dict(base, kind='shortcut-on-free-device'),
               'detail': 'solve returned without an optimiser result although %d of %d variables are not fixed by their bounds (widths %s); %s' % (
                 int((bd[:, 0] != bd[:, 1]).sum()), N, sorted(set((bd[:, 1] - bd[:, 0]).tolist()))[:4], where)}]
    out = []
    # closed form
    if closed:
      d = case['dev'] if 'dev' in case else orig['dev']
      xs = G.closed_form(d, [C.pf(t) for t in case['p']])
      if xs is not None:
        self.ev['closed_form_compared'] += 1
        pv = n_.array([C.pf(t) for t in case['p']])
        c_star = float(dev.cost(n_.array(xs), pv)); c_got = float(dev.cost(x, pv))
        if abs(c_got - c_star) > 1e-5*max(1.0, abs(c_star)):
          out.append({'key': dict(base, kind='closed-form'), 'detail': '%s: solve cost %.9g at %s, closed-form optimum %s has cost %.9g; p=%s' % (d['cls'], c_got, x.round(6).tolist(), xs, c_star, case['p'])})
    # first-order certificate by LP over the feasible polytope
    if not poly[4]:
      self.ev['nonaffine_skipped'] += 1
      return out
    s0flat = n_.array(s0, dtype=float).flatten() if s0 is not None else n_.array(dev.project(n_.zeros(dev.shape)), dtype=float).flatten()
    f, g = self.objective(dev, p, prox, s0flat)
    gx = g(x)
    r = G.lp(gx, dev, N, poly, box)
    if r.status != 0:
      return out
    gap = float(r.fun - gx.dot(x))
    scale = max(1.0, float(n_.abs(gx).max())*max(1.0, float((bd[:, 1] - bd[:, 0]).max())))
    self.ev['certificates'] += 1
    self.ev['worst_gap_over_scale'] = min(self.ev['worst_gap_over_scale'], gap/scale)
    ok_licq, nact = G.licq(dev, N, poly, x)
    if nact > 0:
      case['_active'] = True
    if gap < -1e-4*scale:
      # a suspicious gap: exhibit a strictly better feasible point, or accept (the gap bounds, it does not measure, sub-optimality)
      self.ev['refined_searches'] += 1
      best, xb = G.better_point(f, g, dev, N, x, [r.x, witness, x + 0.5*(r.x - x), x], box=box, m=m)
      fx = f(x)
      if xb is not None and fx - best > 1e-5*max(1.0, abs(best)):
        out.append({'key': dict(base, kind='suboptimal' if not table_differs else 'suboptimal-vs-documented-bounds', licq=ok_licq, shortcut=shortcut,
                             dup=G.parallel_active_pair(dev, N, poly, x)),
                    'detail': 'solve reported success at %s with objective %.9g, but the feasible flow %s (max violation %.1e) has objective %.9g; certificate gap %.3g; '
                              'active constraint gradients linearly %s; %s' % (x.round(6).tolist(), fx, xb.round(6).tolist(), G.violation(dev, xb, m, box)[0], best, gap,
                                                                               'independent' if ok_licq else 'DEPENDENT', where) + (
                      '; NOTE device.bounds %s differs from the documented per-variable bounds %s' % (n_.array(dev.bounds).tolist(), bd.tolist()) if table_differs else '')})
    if table_differs and not out:
      out.append({'key': dict(base, kind='bounds-table'), 'detail': 'device.bounds %s differs from the documented per-variable bounds %s; %s' % (
        n_.array(dev.bounds).tolist(), bd.tolist(), where)})
    return out

  def oracle_history(self, case):
    """solve (or merely read the tree), re-rate a leaf through its public setters, solve the SAME tree again; the result is judged
    against a fresh twin built from the final parameters: feasible for the twin (documented limits and its constraints), and
    the same outcome / cost as the twin's own solve."""
    n_ = np()
    S = G.solve_module()
    m, edit = case['model'], case['edit']
    m2 = G.edited_model(m, edit)
    dev = G.build_model(m)
    twin = G.build_model(m2)
    R, n = G.model_rows(m), m['n']
    base = {'classes': sorted(set(l['dev']['cls'] for l in G.all_leaves(m['tree']))), 'mf': False, 'rows': R, 'first': case['first']}
    if not (SG.safe_to_solve(dev) and SG.safe_to_solve(twin)):
      self.ev['scipy_unsafe_skipped'] += 1
      return []
    p = G.price_arg(case['p'])
    self.ev['histories'] = self.ev.get('histories', 0) + 1
    where = 'tree %s, price %s, first call: %s, then leaf %s re-rated to bounds %s / %s%s%s' % (
      base['classes'], case['p'], case['first'], edit['leaf'], edit['lb'], edit['hb'],
      (', cbounds %s' % edit['cbs']) if 'cbs' in edit else '', ((', a=%s' % edit['a']) if 'a' in edit else '') + ((', parameters %s' % edit['prm']) if edit.get('prm') else ''))
    def run(d):
      try:
        s, o = S.solve(d, p)
        return ('ok', n_.array(s, dtype=float))
      except S.OptimizationException:
        return ('raise', None)
    try:
      if case['first'] == 'solve':
        run(dev)
      else:
        G.touch(dev)
      G.apply_edit(dev, edit)
      r1 = run(dev)
      r2 = run(twin)
    except Exception as e:
      return [{'key': dict(base, kind='wrong-exception', exc=type(e).__name__), 'detail': '%s: %s in a solve / re-rate / solve history; %s' % (type(e).__name__, str(e)[:120], where)}]
    if r1[0] != r2[0]:
      return [{'key': dict(base, kind='history-differs'), 'detail': 'after the history solve %s, a fresh twin built from the final parameters %s; %s' % (
        'returned' if r1[0] == 'ok' else 'raised', 'returned' if r2[0] == 'ok' else 'raised', where)}]
    if r1[0] == 'raise':
      return []
    x1, x2 = r1[1].reshape(-1), r2[1].reshape(-1)
    if r1[1].shape != (R, n):
      return [{'key': dict(base, kind='shape'), 'detail': 'shape %s after a history; %s' % (r1[1].shape, where)}]
    v, what = G.violation(twin, x1, m2)
    box = G.model_box(m2)
    if not n_box_ok(x1, box):
      bd = n_.stack((n_.array(box[0]), n_.array(box[1])), axis=1)
      k = int(n_.argmax(n_.maximum(bd[:, 0] - x1, x1 - bd[:, 1])))
      v, what = max(v, float(max(bd[k, 0] - x1[k], x1[k] - bd[k, 1]))), 'the CURRENT bounds (%g, %g) of variable %d (value %.6g)' % (bd[k, 0], bd[k, 1], k, x1[k])
    if v > 1e-6:
      return [{'key': dict(base, kind='stale-after-setter'), 'detail': 'the second solve of the same tree returned %s which violates %s by %.3g; a fresh twin returns %s; %s' % (
        x1.round(6).tolist(), what, v, x2.round(6).tolist(), where)}]
    c1, c2 = float(twin.cost(x1, p)), float(twin.cost(x2, p))
    if abs(c1 - c2) > 1e-5*max(1.0, abs(c2)):
      return [{'key': dict(base, kind='history-cost'), 'detail': 'the second solve of the same tree costs %.9g, a fresh twin\'s solve %.9g; %s' % (c1, c2, where)}]
    case['_active'] = True
    return []

  def nontrivial(self, case):
    return case['kind'] in ('real', 'closed', 'history') and bool(case.get('_active'))

  def canon(self, case):
    import json
    return json.dumps({k: v for k, v in case.items() if not k.startswith('_')}, sort_keys=True, default=str)

  def extra_evidence(self):
    return {'c05': self.ev, 'level_note': 'proof (partial): wrapper logic, objective assembly, certificate soundness and closed forms are proved; SLSQP convergence / honesty of `success` is only observed'}


PROP = C05()
