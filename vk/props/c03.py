"""C03 — leaf bounds + constraints describe exactly the documented feasible flows."""
import random
from fractions import Fraction
from .. import common as C, gen, build
from ..check import Prop, Op
from .. import gen_cons as G

ACCEPT = 1e-9      # a flow is a member when every slack is >= -ACCEPT (scaled)
FIRM = 1e-8        # ... and firmly outside when some slack is < -FIRM (scaled): the guard band between the two is skipped


def flows(case):
  return [build.arr(x) for x in case['probes']]


def int_arr(ip):
  return G.np().array([int(Fraction(v)) for v in ip], dtype=int)


def shaped(case, x):
  return x.reshape(1, -1) if case.get('_shape') == 'row' else x


def exported_slacks(dev, x, shape_row=False):
  """[(name, slack)] from the exported bounds and constraint list of the live device."""
  np = G.np()
  out = []
  b = np.asarray(dev.bounds, dtype=float)
  for k in range(len(x)):
    out.append(('bounds[%d].low' % k, x[k] - b[k, 0])); out.append(('bounds[%d].high' % k, b[k, 1] - x[k]))
  xx = x.reshape(1, -1) if shape_row else x
  for i, c in enumerate(dev.constraints):
    vs = np.asarray(c['fun'](xx), dtype=float).reshape(-1)      # a vector-valued fun is one slack per component (scipy semantics)
    if vs.size == 0:
      raise ValueError('constraint function returned no value')
    for j, v in enumerate(vs):
      name = 'constraints[%d]%s(%s)' % (i, '[%d]' % j if vs.size > 1 else '', c['type'])
      out.append((name, float(v) if c['type'] == 'ineq' else -abs(float(v))))
  return out


OWNERS = ('Device', 'SDevice', 'ADevice')


def constraints_owner(dev):
  """the class whose `constraints` property the device resolves to (T1 translates those of OWNERS only)."""
  for klass in type(dev).__mro__:
    if 'constraints' in klass.__dict__:
      return klass.__name__
  return None


def worst(sl):
  return min(sl, key=lambda t: t[1])


class C03(Prop):
  id = 'C03'
  lean_module = 'DK.Props.C03'
  theorems = ['DK.C03.feasible_iff_spec_device', 'DK.C03.feasible_iff_spec_sdevice', 'DK.C03.feasible_iff_spec_sdevice_rec',
              'DK.C03.feasible_iff_spec_adevice', 'DK.C03.feasible_iff_spec_leaf', 'DK.C03.chargeAt_eq_socRec',
              'DK.C03.deviceCons_length', 'DK.C03.sdeviceCons_length', 'DK.C09.socDot_eq_chargeAt']
  uses_t1 = True      # T1v regenerates DK/Gen/Vec.lean from the current source before the bridge is audited
  bridge_vec = ['DK.BridgeVec.Device_constraints_fun0', 'DK.BridgeVec.Device_constraints_jac0',
                'DK.BridgeVec.Device_constraints_fun1', 'DK.BridgeVec.Device_constraints_jac1', 'DK.BridgeVec.Device_constraints',
                'DK.BridgeVec.SDevice_constraints_soc', 'DK.BridgeVec.SDevice_constraints_fun0',
                'DK.BridgeVec.SDevice_constraints_jac0', 'DK.BridgeVec.SDevice_constraints_fun1',
                'DK.BridgeVec.SDevice_constraints_jac1', 'DK.BridgeVec.SDevice_constraints_socCons',
                'DK.BridgeVec.SDevice_constraints_fun2', 'DK.BridgeVec.SDevice_constraints_fun3',
                'DK.BridgeVec.SDevice_constraints_fun4', 'DK.BridgeVec.SDevice_constraints_jac4']      # T1v: vector method bodies (vk/translate_vec.py, DK/Lemmas/BridgeVec.lean)
  bridge = bridge_vec + ['DK.BridgeSets.Device_constraints', 'DK.BridgeSets.SDevice_constraints']   # T1s LeafCons: the whole constraint lists
  rule = ('every atomic class (plus the unmodelled WindowDevice, oracle only) x horizon n (1..8 quick plus 5 % from {12,16,24,25,31,48}; ..60 thorough; 25 % of prices, interior flows and cost parameters are non-dyadic decimals) x cumulative-bound form (none, 2-tuple, one 4-tuple whole/sub-range, '
          'several contiguous, several overlapping, nested; CDevice2 default; rows written as tuples / lists / integer ndarrays in a list or tuple; 30 % with a limit off the dyadic grid by k/10^7) x storage (efficiency/sustainment =1 and <1, rate_clip absent / None / scalar k / '
          '(k, None) / (None, k) / (k1, k2) with k1 != k2 in either order, as tuple / list / ndarray, reserve 0 and >0; 12 %: parameter changed through its setter after a first read of .constraints) x ADevice user constraints (eq/ineq, with/without jac, with a harmless extra dict key, vector-valued with one slack per slot); probes: interior, box vertices, '
          'exactly on a cumulative limit, 1/64 inside/outside it, outside the box, storage over/under-fill, plus one all-integer flow passed as an INTEGER-typed array; flows presented as (n,) or (1, n); the list taken from the first or the second read of .constraints. non-trivial: >= 1 cumulative '
          'bound or storage, and the probes fall on both sides of >= 1 documented constraint')
  sizes = {'quick': 1000, 'thorough': 6000}
  assumptions = ['T2 compares, per exported constraint, (type, value at each probe flow), as a multiset: each model row is paired with the nearest unused implementation row (no rounding, no sort key)',
                 'oracle membership tolerance: member iff every slack >= -1e-9*scale; a disagreement counts only if the other side is beyond 1e-8*scale',
                 'oracle semantics are taken from the case description (bounds, cbounds, storage parameters, user constraints as data), '
                 'not from the live object, so a constructor that drops a setting is caught as well']

  def __init__(self):
    self.hist = {}

  def cases(self, rng, tier, count):
    out = []
    for _ in range(count):
      d, tag = G.gen_cons_leaf(rng, tier)
      case = {'dev': d, 'probes': G.gen_probes(rng, d), '_shape': rng.choice(['flat', 'flat', 'row']), 'tag': tag,
              'oseed': rng.randrange(1 << 30)}
      # glue: one all-integer flow handed over as an INTEGER-typed array; the list as a second read of .constraints returns it
      case['iprobe'] = [str(v) for v in G.int_flow(rng, [C.F(x) for x in d['lb']], [C.F(x) for x in d['hb']])]
      case['_reads'] = rng.choice([1, 2])
      if d['cls'] == 'WindowDevice':
        case['oracle_only'] = True          # no model of this class: the membership oracle alone speaks
      if any(u.get('_noflat') is not None for u in (d.get('ucons') or [])):
        case['_shape'] = 'flat'             # (family user_fun_shape: the other checks present the vector the user fun was written for)
      out.append(case)
    G.prefetch([self.line(c) for c in out if not c.get('oracle_only')])
    return out

  def line(self, case):
    return {'op': 'cons.leaf', 'dev': case['dev'], 'probes': list(case['probes']) + ([case['iprobe']] if case.get('iprobe') else []), 'jac': False}

  def ops(self, case):
    if case.get('oracle_only'):
      return []
    d = case['dev']
    dev = G.build_dev(d, 'dev')
    P = [shaped(case, x) for x in flows(case)]
    PI = P + ([shaped(case, int_arr(case['iprobe']))] if case.get('iprobe') else [])
    line = self.line(case)
    mrows = G.model_rows(line)
    def impl():
      cons = dev.constraints
      if case.get('_reads') == 2:
        cons = dev.constraints
      return G.align_rows(mrows, G.impl_rows(cons, PI, False))
    ops = [Op(line, impl, 1e-9, 'constraint (type, value) rows' + (' (second read)' if case.get('_reads') == 2 else ''))]
    if d['cls'] == 'SDevice':
      ops.append(Op({'op': 'cons.charge', 'dev': d, 'probes': case['probes']},
                    lambda: [dev.charge_at(x.reshape(-1)) for x in P], 1e-9, 'charge_at'))
    return ops

  # ---- oracle: membership two ways on the implementation
  def oracle(self, case):
    np = G.np()
    d = case['dev']; n = d['n']; cls = d['cls']
    tag = case.get('tag', {})
    self.hist[('cls', cls)] = self.hist.get(('cls', cls), 0) + 1
    for k in ('cform', 'crows', 'climit', 'rate_clip', 'lossy', 'leaky', 'reread', 'ucons'):
      if k in tag:
        self.hist[(k, str(tag[k]))] = self.hist.get((k, str(tag[k])), 0) + 1
    fails = []
    key = lambda kind: {'cls': cls, 'kind': kind}
    try:
      dev = G.build_dev(d, 'dev')
    except Exception as e:
      py = d.get('_py', {})
      return [{'key': key('construction-raises'), 'detail': '%s n=%d: constructing the device (cbounds %s as %s rows, prm %s, rate_clip form %s) raised %s: %s'
               % (cls, n, d.get('cbs'), py.get('crows', 'tuple'), d.get('prm') if cls == 'SDevice' else '-', py.get('rcform'), type(e).__name__, str(e)[:160])}]
    rr = d.get('_py', {}).get('reread')
    ctx = (' [device built with %s=%s, .constraints read once, then %s set to %s through its setter]' % (rr[0], rr[1], rr[0], d['prm'][rr[0]])) if rr else ''
    cbr = d.get('_py', {}).get('cb_reread')
    if cbr:
      ctx += ' [device built with cbounds=%s, .constraints read once, then cbounds set to %s through its setter]' % (
        'None' if cbr == 'none' else '(%s, %s)' % (cbr[0], cbr[1]), d['cbs'] or 'None')
    owner = constraints_owner(dev)
    relabel = (lambda kind: kind) if owner in OWNERS else (lambda kind: 'constraints-overridden')
    octx = '' if owner in OWNERS else ' [%s.constraints resolves to an override in class %s, which the T1 translation does not read]' % (cls, owner)
    # a user constraint written for the flow VECTOR must see the same flow alone and as a row of a set
    for u, c in zip(d.get('ucons') or [], [c for c in dev.constraints][2*len(d.get('cbs') or []):]):
      if u.get('_noflat') is not None:
        x0 = np.array([(C.pf(a) + C.pf(b))/2 for a, b in zip(d['lb'], d['hb'])])
        va = np.asarray(c['fun'](x0))
        try:
          vr = np.asarray(c['fun'](x0.reshape(1, -1)))
        except Exception as e:
          vr = np.array('raises %s' % type(e).__name__)
        if va.shape != vr.shape or vr.dtype.kind == 'U' or not np.allclose(va, vr):
          fails.append({'key': key('user-constraint-shape'), 'detail': 'ADevice n=%d: the user constraint `lambda x: x[%d]*w + c` gives %s for the flow vector %s and %s '
                        'for the same flow as the (1, n) row a DeviceSet passes' % (n, u['_noflat'], va.tolist(), x0.tolist(), vr.tolist())})
          return fails
    # reported attributes against the description
    want_cb = [(C.pf(c[0]), C.pf(c[1]), int(c[2]), int(c[3])) for c in (d.get('cbs') or [])]
    got_cb = [tuple(float(v) if i < 2 else int(v) for i, v in enumerate(c)) for c in (dev.cbounds or [])]
    if want_cb != got_cb:
      fails.append({'key': key('cbounds-reported'), 'detail': '%s: configured cbounds %s but device.cbounds reports %s' % (cls, want_cb, got_cb)})
    lb = [C.pf(v) for v in d['lb']]; hb = [C.pf(v) for v in d['hb']]
    rng = random.Random(case.get('oseed', 0))
    probes = [list(map(float, x)) for x in flows(case)]
    # more flows: box vertices, random in a box 25 % larger, and segments between an inside and an outside flow
    for _ in range(6):
      probes.append([rng.choice([a, b]) for a, b in zip(lb, hb)])
    for _ in range(10):
      probes.append([a - 0.25*(b - a + 1) + rng.random()*1.5*(b - a + 1) for a, b in zip(lb, hb)])
    for _ in range(10):
      probes.append([a + rng.random()*(b - a) for a, b in zip(lb, hb)])
    spec = lambda x: G.spec_slacks(d, x)
    inside = [x for x in probes if worst(spec(x))[1] >= 0]
    outside = [x for x in probes if worst(spec(x))[1] < 0]
    for _ in range(6):   # bisect towards the boundary of the documented set, probe on both sides of it
      if not inside or not outside:
        break
      a, b = rng.choice(inside), rng.choice(outside)
      lo, hi = 0.0, 1.0
      for _ in range(40):
        mid = (lo + hi)/2
        x = [u + mid*(v - u) for u, v in zip(a, b)]
        if worst(spec(x))[1] >= 0: lo = mid
        else: hi = mid
      d_ab = max(1e-12, max(abs(v - u) for u, v in zip(a, b)))
      for t in [lo + s_*eps/d_ab for eps in (1e-4, 1e-6, 2e-7) for s_ in (-1, 1)]:
        if 0 <= t <= 1:
          probes.append([u + t*(v - u) for u, v in zip(a, b)])
    row = case.get('_shape') == 'row'
    if case.get('iprobe'):
      xi = int_arr(case['iprobe'])
      probes.append([float(v) for v in xi])
      try:
        si, sf = exported_slacks(dev, xi, row), exported_slacks(dev, xi.astype(float), row)
        bad = [(a[0], a[1], b[1]) for a, b in zip(si, sf) if abs(a[1] - b[1]) > 1e-12*max(1.0, abs(b[1]))]
        if len(si) != len(sf):
          fails.append({'key': key('second-read'), 'detail': '%s n=%d: two consecutive reads of .constraints return lists of %d and %d entries'
                        % (cls, n, len(si) - 2*n, len(sf) - 2*n) + ctx})
        elif bad:
          fails.append({'key': key('int-flow'), 'detail': '%s n=%d: at the integer-typed flow %s the exported %s evaluates to %r, at the same flow as float to %r'
                        % (cls, n, xi.tolist(), bad[0][0] if bad else 'list', bad[0][1] if bad else len(si), bad[0][2] if bad else len(sf)) + ctx})
      except Exception as e:
        fails.append({'key': key('constraint-raises'), 'detail': '%s: evaluating the exported constraints at the integer-typed flow %s raised %s: %s' % (cls, xi.tolist(), type(e).__name__, str(e)[:120]) + ctx})
    for x in probes:
      if fails:
        break
      xa = np.array(x, dtype=float)
      try:
        ex = exported_slacks(dev, xa, row)
      except Exception as e:
        fails.append({'key': key('constraint-raises'), 'detail': '%s: evaluating the exported constraints at %s raised %s: %s' % (cls, x, type(e).__name__, str(e)[:120])})
        break
      sp = spec(x)
      scale = max(1.0, max(abs(v) for v in x))
      we, ws = worst(ex), worst(sp)
      if we[1] >= -ACCEPT*scale and ws[1] < -FIRM*scale:
        fails.append({'key': key(relabel('accepts-infeasible')),
                      'detail': '%s n=%d: flow %s satisfies the exported bounds+constraints (worst slack %.3g at %s) but violates the documented '
                                'constraint %s by %.6g' % (cls, n, x, we[1], we[0], ws[0], -ws[1]) + ctx + octx})
        break
      if ws[1] >= -ACCEPT*scale and we[1] < -FIRM*scale:
        fails.append({'key': key(relabel('rejects-feasible')),
                      'detail': '%s n=%d: flow %s satisfies every documented constraint (worst slack %.3g at %s) but the exported %s is violated by %.6g'
                                % (cls, n, x, ws[1], ws[0], we[0], -we[1]) + ctx + octx})
        break
      if cls == 'SDevice':
        rep = np.asarray(dev.charge_at(xa), dtype=float).reshape(-1)
        loop = G.soc_loop(d['prm'], x)
        if rep.size != n or any(abs(u - v) > 1e-9*max(1.0, abs(v)) for u, v in zip(rep, loop)):
          fails.append({'key': key('charge_at'), 'detail': 'SDevice: charge_at(%s) = %s but the documented recurrence gives %s' % (x, rep.tolist(), loop)})
          break
    return fails

  def nontrivial(self, case):
    d = case['dev']
    if not (d.get('cbs') or d['cls'] == 'SDevice'):
      return False
    n = d['n']
    pos, neg = set(), set()
    for x in case['probes']:
      for name, v in G.spec_slacks(d, [C.pf(u) for u in x])[2*n:]:
        (pos if v > 0 else neg if v < 0 else set()).add(name)
    return bool(pos & neg)

  def canon(self, case):
    import json
    return json.dumps({k: case[k] for k in ('dev', 'probes')}, sort_keys=True, default=str)

  def extra_evidence(self):
    return {'input_distribution': {'%s=%s' % k: v for k, v in sorted(self.hist.items())}}


PROP = C03()
