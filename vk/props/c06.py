"""C06 — every supplied constraint Jacobian is the gradient of its constraint function."""
import os, random
from fractions import Fraction
from .. import common as C, gen, build
from ..check import Prop, Op
from .. import gen_cons as G


def lossy_rows(t, n):
  """row indices of the tree that belong to a lossy storage device (their flow must stay off 0 for finite differences)."""
  rows, r = [], 0
  for b in gen.tree_leaves(t):
    k = 1 if b['k'] == 'leaf' else len(b['flows'])
    if b['k'] == 'leaf' and b['dev']['cls'] == 'SDevice' and b['dev']['prm'].get('efficiency', '1') != '1':
      rows += list(range(r, r + k))
    r += k
  return rows


PAIR_CLIPS = [rc for rc, form in G.RATE_CLIPS if rc is not None and form == 'pair']


def one_way_device(rng, tier, n):
  """a device a multi-flow adaptor accepts (all flows of one sign) whose constraint Jacobians are worth wrapping:
  a storage that only charges (bounds (0, hb)) or only discharges ((lb, 0)), lossy most of the time so that its Jacobian
  depends on the flow, or a thermal device."""
  if rng.random() < 0.25:
    d = gen.gen_leaf(rng, tier, ['TDevice'], n=n)
    return d
  d = gen.gen_leaf(rng, tier, ['SDevice'], n=n)
  mag = [C.dy(rng, Fraction(1, 2), 4) for _ in range(n)]
  if rng.random() < 0.6:
    d['lb'] = ['0']*n; d['hb'] = [C.fs(m) for m in mag]
  else:
    d['lb'] = [C.fs(-m) for m in mag]; d['hb'] = ['0']*n
  d['_py']['bform'] = 'table'
  d['cbs'] = []; d['_py']['cform'] = None
  if rng.random() < 0.7:
    d['prm']['efficiency'] = rng.choice(['1/2', '3/4', '7/8'])
  return d


def mf_lossy_blocks(t, n):
  """(first row, number of conduits, sign) of every adaptor around a lossy storage: its kink is where a conduit SUM is 0."""
  out, r = [], 0
  for b in gen.tree_leaves(t):
    k = 1 if b['k'] == 'leaf' else len(b['flows'])
    d = b['dev']
    if b['k'] == 'mf' and d['cls'] == 'SDevice' and d['prm'].get('efficiency', '1') != '1':
      out.append((r, k, -1.0 if any(C.F(v) < 0 for v in d['lb']) else 1.0))
    r += k
  return out


def off_sum_kink(x, n, blocks):
  """move the first conduit so that no conduit sum of a wrapped lossy storage is within 1e-3 of zero."""
  x = x.copy()
  for (r0, k, sign) in blocks:
    for i in range(n):
      tot = sum(x[(r0 + r)*n + i] for r in range(k))
      if abs(tot) < 1e-3:
        x[r0*n + i] += sign*0.125
  return x


def off_kink(x, idx):
  """move the listed entries that are within 1e-3 of zero to +-1/8."""
  x = x.copy()
  for k in idx:
    if abs(x[k]) < 1e-3:
      x[k] = 0.125 if x[k] >= 0 else -0.125
  return x


def directions(rng, m):
  np = G.np()
  if m <= 16:
    return [(k, None) for k in range(m)]
  ds = [(k, None) for k in rng.sample(range(m), 6)]
  for _ in range(10):
    ds.append((None, np.array([rng.uniform(-1, 1) for _ in range(m)])))
  return ds


def check_jacobians(cons, x, m, rng, label):
  """finite differences of every `fun` against its `jac` at the flat flow x (m variables).
  Returns a list of (kind, detail)."""
  np = G.np()
  out = []
  h = 1e-5
  dirs = directions(rng, m)
  for ci, c in enumerate(cons):
    if 'jac' not in c:
      continue
    try:
      J = np.asarray(c['jac'](x), dtype=float)
    except Exception as e:
      out.append(('jac-raises', '%s: constraints[%d].jac raised %s: %s' % (label, ci, type(e).__name__, str(e)[:100])))
      continue
    if J.reshape(-1).size != m:
      out.append(('jac-shape', '%s: constraints[%d].jac has %d entries (shape %s) for %d flow variables' % (label, ci, J.size, J.shape, m)))
      continue
    J = J.reshape(-1)
    f = lambda y: G.scalar(c['fun'](y))
    for (k, dvec) in dirs:
      if dvec is None:
        dvec = np.zeros(m); dvec[k] = 1.0
      a = (f(x + h*dvec) - f(x - h*dvec))/(2*h)
      b = (f(x + 8*h*dvec) - f(x - 8*h*dvec))/(16*h)
      if abs(a - b) > 2e-6*max(1, abs(a)):
        continue      # a kink inside the stencil: not a point where the property speaks
      g = float(J.dot(dvec))
      if abs(g - a) > 2e-6*max(1, abs(a)):
        where = ('variable %d' % k) if k is not None else 'a dense direction'
        out.append(('jacobian', '%s: constraints[%d] (%s): jac . d = %.9g but the finite difference of fun along d is %.9g (%s of %d) at x=%s'
                    % (label, ci, c['type'], g, a, where, m, np.round(x, 6).tolist())))
        break
  return out


class C06(Prop):
  id = 'C06'
  lean_module = 'DK.Props.C06'
  uses_t1 = True      # T1v regenerates DK/Gen/Vec.lean from the current source before the bridge is audited
  bridge = ['DK.BridgeVec.Device_constraints_jac0', 'DK.BridgeVec.Device_constraints_jac1', 'DK.BridgeVec.SDevice_constraints_jac0',
            'DK.BridgeVec.SDevice_constraints_jac1', 'DK.BridgeVec.SDevice_constraints_jac4', 'DK.BridgeVec.SDevice_constraints_soc']   # T1v: the exported `jac` closures
  theorems = ['DK.C06.device_jac_affine', 'DK.C06.device_jac_isGrad', 'DK.C06.cbound_jac_support',
              'DK.C06.sdevice_jac_isGrad', 'DK.C06.soc_jac_support', 'DK.C06.soc_jac_affine', 'DK.C06.leaf_jac_isGrad',
              'DK.C06.toM_isMGrad', 'DK.C06.toM_jac_support', 'DK.C06.overConduits_jac_tiled', 'DK.C06.overConduits_isMGrad',
              'DK.C06.sbound_jac_affine', 'DK.C06.sbound_jac_support', 'DK.C06.ratio_jac_affine', 'DK.C06.ratio_jac_support',
              'DK.C06.lift_isMGrad', 'DK.C06.lift_jac_support', 'DK.C06.lift_ok', 'DK.C06.ownCons_isMGrad',
              'DK.C06.ofLeaf_isMGrad', 'DK.C06.ofMF_isMGrad', 'DK.C06.tree_cons_isMGrad', 'DK.C06.shipped_tree_isMGrad']
  rule = ('leaf cases: every atomic class x cumulative-bound form x storage variants x ADevice user constraints (as C03); tree cases: random '
          'asymmetric trees (depth 1..3, fan-out 1..3, children with different row counts) with multi-flow adaptors (1..3 conduits, wrapped '
          'device with cumulative bounds / user constraints; 40 % around a charge-only or discharge-only storage, mostly lossy, or a thermal device) and two-ratio sets (eq / ineq), aggregate bounds (equality and range), '
          'sub-balanced sets; two probe matrices each (zeros included for T2). non-trivial: the tree has >= 2 rows and some constraint with a '
          'Jacobian reads >= 2 variables')
  sizes = {'quick': 700, 'thorough': 6000}
  assumptions = ['oracle: central finite differences (h=1e-5 and 8e-5; entries where the two disagree are kinks and skipped) along every '
                 'coordinate when R*n <= 16, else 6 coordinates + 10 dense random directions; lossy-storage rows are moved off 0 first',
                 'T2 compares (type, has-Jacobian, value, flat Jacobian) per constraint at the probes as a multiset: each model row is paired with the nearest unused implementation row of the same length']

  def __init__(self):
    self.hist = {}

  def bump(self, k):
    self.hist[k] = self.hist.get(k, 0) + 1

  def cases(self, rng, tier, count):
    out = []
    for i in range(count):
      if rng.random() < 0.35:
        d, tag = G.gen_cons_leaf(rng, tier)
        if os.environ.get('VERIF_C06_OOR') and d['cbs'] and d['cls'] != 'CDevice2' and d['cbs'][-1][3] == d['n'] and d['_py'].get('cform') == '4tuples':
          # off by default (reported as a finding): a slice end beyond the horizon is accepted by the constructor and by
          # `fun` (Python slices clip), but `jac` raises (np.zeros of a negative length)
          d['cbs'][-1][3] = d['n'] + rng.randint(1, 2)
        lb = [C.F(x) for x in d['lb']]; hb = [C.F(x) for x in d['hb']]
        probes = [[C.fs(v) for v in gen.gen_flow(rng, lb, hb, m)] for m in ('interior', 'mixed')]
        out.append({'kind': 'leaf', 'dev': d, 'probes': probes, '_shape': rng.choice(['flat', 'row']), 'tag': tag, 'oseed': rng.randrange(1 << 30)})
      else:
        t, n = gen.gen_tree(rng, tier, want_mf=rng.random() < 0.7)
        for b in gen.tree_leaves(t):
          if b['k'] == 'mf' and rng.random() < 0.4:
            b['dev'] = one_way_device(rng, tier, n)        # an adaptor around a charge-only / discharge-only storage, or a thermal device
          d = b['dev']
          if d['cls'] == 'SDevice' and rng.random() < 0.5:
            d['prm']['rate_clip'] = list(rng.choice(PAIR_CLIPS))
          if b['k'] == 'mf' and d['cls'] != 'CDevice2' and rng.random() < 0.5:
            lb = [C.F(x) for x in d['lb']]; hb = [C.F(x) for x in d['hb']]
            rows, pyform, _ = G.gen_cbound_form(rng, n, lb, hb)
            d['cbs'] = [[C.fs(r[0]), C.fs(r[1]), r[2], r[3]] for r in rows]; d['_py']['cform'] = pyform
        probes = [gen.tree_flow(rng, t, n, m) for m in ('interior', 'mixed')]
        out.append({'kind': 'tree', 'tree': t, 'n': n, 'probes': probes, 'oseed': rng.randrange(1 << 30)})
    G.prefetch([self.line(c) for c in out])
    return out

  def line(self, case):
    if case['kind'] == 'leaf':
      return {'op': 'cons.leaf', 'dev': case['dev'], 'probes': case['probes'], 'jac': True}
    return {'op': 'cons.tree', 'tree': case['tree'], 'n': case['n'], 'probes': case['probes'], 'jac': True}

  def ops(self, case):
    line = self.line(case)
    mrows = G.model_rows(line)
    if case['kind'] == 'leaf':
      dev = G.build_dev(case['dev'], 'dev')
      P = [build.arr(x) for x in case['probes']]
      if case.get('_shape') == 'row':
        P = [x.reshape(1, -1) for x in P]
      return [Op(line, lambda: G.align_rows(mrows, G.impl_rows(dev.constraints, P, True)), 1e-9, 'leaf constraint Jacobians')]
    dev = build.build_tree(case['tree'])
    P = [build.arr(x).reshape(-1) for x in case['probes']]
    return [Op(line, lambda: G.align_rows(mrows, G.impl_rows(dev.constraints, P, True)), 1e-9, 'tree constraint Jacobians')]

  def oracle(self, case):
    np = G.np()
    rng = random.Random(case.get('oseed', 0))
    fails = []
    if case['kind'] == 'leaf':
      d = case['dev']; n = d['n']
      dev = G.build_dev(d, 'dev')
      lossy = d['cls'] == 'SDevice' and d['prm'].get('efficiency', '1') != '1'
      self.bump('leaf:' + d['cls'])
      for x in case['probes']:
        xa = build.arr(x).astype(float)      # (integer-typed probe arrays would truncate the move off the kink)
        if lossy:
          xa = off_kink(xa, range(n))
        if case.get('_shape') == 'row':
          xa = xa.reshape(1, -1)
        cons = dev.constraints
        # finite differences perturb a flat copy; give the constraint the shape it was called with
        shp = xa.shape
        wrapped = [dict(c, fun=(lambda y, f=c['fun']: f(y.reshape(shp))), **({'jac': (lambda y, j=c['jac']: j(y.reshape(shp)))} if 'jac' in c else {})) for c in cons]
        for kind, detail in check_jacobians(wrapped, xa.reshape(-1), n, rng, '%s n=%d cbounds=%s' % (d['cls'], n, d.get('cbs'))):
          fails.append({'key': {'cls': d['cls'], 'kind': kind}, 'detail': detail})
        if fails:
          break
      return fails
    t = case['tree']; n = case['n']
    dev = build.build_tree(t)
    R = gen.tree_rows(t)
    self.bump('tree:rows=%d' % min(R, 8))
    if gen.tree_has(t, 'mf'):
      self.bump('tree:mf')
    if any(b['k'] == 'mf' and b.get('ratios') for b in gen.tree_leaves(t)):
      self.bump('tree:ratio')
    idx = [r*n + i for r in lossy_rows(t, n) for i in range(n)]
    mfl = mf_lossy_blocks(t, n)
    if mfl:
      self.bump('tree:mf-around-lossy-storage')
    if any(b['k'] == 'mf' and b['dev']['cls'] == 'TDevice' for b in gen.tree_leaves(t)):
      self.bump('tree:mf-around-thermal')
    label = type(dev).__name__
    for S in case['probes']:
      x = off_sum_kink(off_kink(build.arr(S).reshape(-1).astype(float), idx), n, mfl)
      for kind, detail in check_jacobians(dev.constraints, x, R*n, rng, '%s (%d rows x %d slots)' % (label, R, n)):
        fails.append({'key': {'cls': label, 'kind': kind}, 'detail': detail})
      if fails:
        break
    return fails

  def nontrivial(self, case):
    if case['kind'] != 'tree':
      return False
    t = case['tree']; n = case['n']
    if gen.tree_rows(t) < 2:
      return False
    def reads2(u):
      if u['k'] == 'node':
        return (u.get('sb') is not None and gen.tree_rows(u) >= 2) or any(reads2(c) for c in u['ch'])
      d = u['dev']
      if u['k'] == 'mf' and len(u['flows']) >= 2:
        return True
      return (d['cls'] == 'SDevice' and n >= 2) or any(min(int(c[3]), n) - int(c[2]) >= 2 for c in (d.get('cbs') or []))
    return reads2(t)

  def canon(self, case):
    import json
    return json.dumps({k: v for k, v in case.items() if k not in ('oseed', 'tag', '_shape')}, sort_keys=True, default=str)

  def extra_evidence(self):
    return {'input_distribution': dict(sorted(self.hist.items()))}


PROP = C06()
