"""C06 — every supplied constraint Jacobian is the gradient of its constraint function."""
import os, random
from fractions import Fraction
from .. import common as C, gen, build
from ..check import Prop, Op
from .. import gen_cons as G
from .. import gen_sets


def lossy_rows(t, n):
  """row indices of the tree that belong to a lossy storage device (their flow must stay off 0 for finite differences)."""
  rows, r = [], 0
  for b in gen.tree_leaves(t):
    k = 1 if b['k'] == 'leaf' else len(b['flows'])
    if b['k'] == 'leaf' and b['dev']['cls'] == 'SDevice' and b['dev']['prm'].get('efficiency', '1') != '1':
      rows += list(range(r, r + k))
    r += k
  return rows


PAIR_CLIPS = [rc for rc, form in G.RATE_CLIPS if rc is not None and form == 'pair']


def one_way_device(rng, tier, n):
  """a device a multi-flow adaptor accepts (all flows of one sign) whose constraint Jacobians are worth wrapping:
  a storage that only charges (bounds (0, hb)) or only discharges ((lb, 0)), lossy most of the time so that its Jacobian
  depends on the flow, or a thermal device."""
  if rng.random() < 0.25:
    d = gen.gen_leaf(rng, tier, ['TDevice'], n=n)
    return d
  d = gen.gen_leaf(rng, tier, ['SDevice'], n=n)
  mag = [C.dy(rng, Fraction(1, 2), 4) for _ in range(n)]
  if rng.random() < 0.6:
    d['lb'] = ['0']*n; d['hb'] = [C.fs(m) for m in mag]
  else:
    d['lb'] = [C.fs(-m) for m in mag]; d['hb'] = ['0']*n
  d['_py']['bform'] = 'table'
  d['cbs'] = []; d['_py']['cform'] = None
  if rng.random() < 0.7:
    d['prm']['efficiency'] = rng.choice(['1/2', '3/4', '7/8'])
  return d


def mf_lossy_blocks(t, n):
  """(first row, number of conduits, sign) of every adaptor around a lossy storage: its kink is where a conduit SUM is 0."""
  out, r = [], 0
  for b in gen.tree_leaves(t):
    k = 1 if b['k'] == 'leaf' else len(b['flows'])
    d = b['dev']
    if b['k'] == 'mf' and d['cls'] == 'SDevice' and d['prm'].get('efficiency', '1') != '1':
      out.append((r, k, -1.0 if any(C.F(v) < 0 for v in d['lb']) else 1.0))
    r += k
  return out


def off_sum_kink(x, n, blocks):
  """move the first conduit so that no conduit sum of a wrapped lossy storage is within 1e-3 of zero."""
  x = x.copy()
  for (r0, k, sign) in blocks:
    for i in range(n):
      tot = sum(x[(r0 + r)*n + i] for r in range(k))
      if abs(tot) < 1e-3:
        x[r0*n + i] += sign*0.125
  return x


def off_kink(x, idx):
  """move the listed entries that are within 1e-3 of zero to +-1/8."""
  x = x.copy()
  for k in idx:
    if abs(x[k]) < 1e-3:
      x[k] = 0.125 if x[k] >= 0 else -0.125
  return x


def directions(rng, m):
  np = G.np()
  if m <= 16:
    return [(k, None) for k in range(m)]
  ds = [(k, None) for k in rng.sample(range(m), 6)]
  for _ in range(10):
    ds.append((None, np.array([rng.uniform(-1, 1) for _ in range(m)])))
  return ds


def check_jacobians(cons, x, m, rng, label, x_eval=None, fd=True):
  """finite differences of every `fun` against its `jac` at the flat float flow x (m variables).  With `x_eval` (the same
  flow as an INTEGER-typed array) the Jacobian is evaluated there, must equal the Jacobian at the float copy (metamorphic: the
  dtype of the flow array must not matter), and is the one compared with the finite differences (skipped when `fd` is False
  because the integer flow sits on a storage kink).  Returns a list of (kind, detail)."""
  np = G.np()
  out = []
  h = 1e-5
  dirs = directions(rng, m)
  # every Jacobian of the list is asked for BEFORE any of them is converted or copied: results handed back through a shared
  # buffer would all show the last one
  raw = {}
  for ci, c in enumerate(cons):
    if 'jac' not in c:
      continue
    try:
      raw[ci] = (c['jac'](x if x_eval is None else x_eval), c['jac'](x) if x_eval is not None else None)
    except Exception as e:
      raw[ci] = e
  for ci, c in enumerate(cons):
    if ci not in raw:
      continue
    if isinstance(raw[ci], Exception):
      e = raw[ci]
      out.append(('jac-raises', '%s: constraints[%d].jac raised %s: %s' % (label, ci, type(e).__name__, str(e)[:100])))
      continue
    try:
      J = np.array(raw[ci][0], dtype=float)
      Jf = np.array(raw[ci][1], dtype=float) if x_eval is not None else J
    except Exception as e:
      out.append(('jac-raises', '%s: constraints[%d].jac returned something that is not an array: %s' % (label, ci, str(e)[:100])))
      continue
    if J.reshape(-1).size != m:
      out.append(('jac-shape', '%s: constraints[%d].jac has %d entries (shape %s) for %d flow variables' % (label, ci, J.size, J.shape, m)))
      continue
    J = J.reshape(-1)
    if x_eval is not None and (Jf.size != m or np.abs(Jf.reshape(-1) - J).max() > 1e-12):
      k = int(np.argmax(np.abs(Jf.reshape(-1) - J))) if Jf.size == m else -1
      out.append(('jac-int-flow', '%s: constraints[%d] (%s): jac at the integer-typed flow %s differs from jac at the same flow as float: entry %d is %.9g vs %.9g'
                  % (label, ci, c['type'], np.asarray(x_eval).reshape(-1).tolist(), k, J[k], Jf.reshape(-1)[k] if Jf.size == m else float('nan'))))
      continue
    if not fd:
      continue
    f = lambda y: G.scalar(c['fun'](y))
    for (k, dvec) in dirs:
      if dvec is None:
        dvec = np.zeros(m); dvec[k] = 1.0
      a = (f(x + h*dvec) - f(x - h*dvec))/(2*h)
      b = (f(x + 8*h*dvec) - f(x - 8*h*dvec))/(16*h)
      if abs(a - b) > 2e-6*max(1, abs(a)):
        continue      # a kink inside the stencil: not a point where the property speaks
      g = float(J.dot(dvec))
      if abs(g - a) > 2e-6*max(1, abs(a)):
        where = ('variable %d' % k) if k is not None else 'a dense direction'
        out.append(('jacobian', '%s: constraints[%d] (%s): jac . d = %.9g but the finite difference of fun along d is %.9g (%s of %d) at x=%s'
                    % (label, ci, c['type'], g, a, where, m, np.round(x, 6).tolist())))
        break
  return out


class C06(Prop):
  id = 'C06'
  lean_module = 'DK.Props.C06'
  uses_t1 = True      # T1v regenerates DK/Gen/Vec.lean from the current source before the bridge is audited
  bridge = ['DK.BridgeVec.Device_constraints_jac0', 'DK.BridgeVec.Device_constraints_jac1', 'DK.BridgeVec.SDevice_constraints_jac0',
            'DK.BridgeVec.SDevice_constraints_jac1', 'DK.BridgeVec.SDevice_constraints_jac4', 'DK.BridgeVec.SDevice_constraints_soc'] + ['DK.BridgeSets.Device_constraints', 'DK.BridgeSets.SDevice_constraints',
               'DK.BridgeSets.MFDeviceSet_constraints', 'DK.BridgeSets.MFDeviceSet_constraints_ofMF', 'DK.BridgeSets.TwoRatioMFDeviceSet_constraints']   # T1v: the exported `jac` closures; T1s: the whole lists of leaves and adaptors
  theorems = ['DK.C06.device_jac_affine', 'DK.C06.device_jac_isGrad', 'DK.C06.cbound_jac_support',
              'DK.C06.sdevice_jac_isGrad', 'DK.C06.soc_jac_support', 'DK.C06.soc_jac_affine', 'DK.C06.leaf_jac_isGrad',
              'DK.C06.toM_isMGrad', 'DK.C06.toM_jac_support', 'DK.C06.overConduits_jac_tiled', 'DK.C06.overConduits_isMGrad',
              'DK.C06.sbound_jac_affine', 'DK.C06.sbound_jac_support', 'DK.C06.ratio_jac_affine', 'DK.C06.ratio_jac_support',
              'DK.C06.lift_isMGrad', 'DK.C06.lift_jac_support', 'DK.C06.lift_ok', 'DK.C06.ownCons_isMGrad',
              'DK.C06.ofLeaf_isMGrad', 'DK.C06.ofMF_isMGrad', 'DK.C06.tree_cons_isMGrad', 'DK.C06.shipped_tree_isMGrad']
  rule = ('leaf cases: every atomic class (plus the unmodelled WindowDevice, and ADevices with a quadratic user constraint whose Jacobian depends on the flow: oracle only) x cumulative-bound form x storage variants x ADevice user constraints (as C03); tree cases: random '
          'asymmetric trees (depth 1..3, fan-out 1..3, children with different row counts) with multi-flow adaptors (1..3 conduits, wrapped '
          'device with cumulative bounds / user constraints; 40 % around a charge-only or discharge-only storage, mostly lossy, or a thermal device) and two-ratio sets (eq / ineq, ratios of either sign), aggregate bounds (equality and range), '
          'sub-balanced sets; two-ratio vector handed over as list / tuple / int ndarray / float ndarray; two dyadic probe matrices (zeros included for T2; the second one just outside the box, on the other side of zero, for an adaptor around a lossy one-way storage) plus one all-integer '
          'probe passed as an INTEGER-typed array; flows presented flat or (R, n) / (n,) or (1, n); .constraints read once or twice. non-trivial: the tree has >= 2 rows and some constraint with a '
          'Jacobian reads >= 2 variables')
  sizes = {'quick': 700, 'thorough': 4000}
  assumptions = ['oracle: central finite differences (h=1e-5 and 8e-5; entries where the two disagree are kinks and skipped) along every '
                 'coordinate when R*n <= 16, else 6 coordinates + 10 dense random directions; lossy-storage rows are moved off 0 first',
                 'oracle: every Jacobian of a list is asked for before any is converted (shared buffers), and a list already asked at one flow must answer at another like a freshly read list (memoisation)',
                 'oracle glue checks: first and second read of .constraints are each checked by finite differences; the Jacobian at an integer-typed flow must equal the '
                 'Jacobian at the same flow as float (and the finite differences, unless that flow sits on a storage kink); caller-owned arrays (ratios, aggregate bounds) must be unchanged afterwards',
                 'T2 compares (type, has-Jacobian, value, flat Jacobian) per constraint at the probes as a multiset: each model row is paired with the nearest unused implementation row of the same length']

  def __init__(self):
    self.hist = {}

  def bump(self, k):
    self.hist[k] = self.hist.get(k, 0) + 1

  def cases(self, rng, tier, count):
    out = []
    for i in range(count):
      if rng.random() < 0.35:
        d, tag = G.gen_cons_leaf(rng, tier)
        if os.environ.get('VERIF_C06_OOR') and d['cbs'] and d['cls'] != 'CDevice2' and d['cbs'][-1][3] == d['n'] and d['_py'].get('cform') == '4tuples':
          # off by default (reported as a finding): a slice end beyond the horizon is accepted by the constructor and by
          # `fun` (Python slices clip), but `jac` raises (np.zeros of a negative length)
          d['cbs'][-1][3] = d['n'] + rng.randint(1, 2)
        lb = [C.F(x) for x in d['lb']]; hb = [C.F(x) for x in d['hb']]
        probes = [[C.fs(v) for v in gen.gen_flow(rng, lb, hb, m)] for m in ('interior', 'mixed')]
        lossy = d['cls'] == 'SDevice' and d['prm'].get('efficiency', '1') != '1'
        ip = [str(v) for v in G.int_flow(rng, lb, hb, range(d['n']) if lossy else ())]
        case = {'kind': 'leaf', 'dev': d, 'probes': probes, 'iprobe': ip, '_shape': rng.choice(['flat', 'row']), '_reads': rng.choice([1, 2]),
                'tag': tag, 'oseed': rng.randrange(1 << 30)}
        if d['cls'] == 'ADevice' and rng.random() < 0.4:
          d['ucons'] = G.gen_ucons(rng, d['n'], lb, hb, quad=True)      # a user Jacobian that depends on the flow
        if d['cls'] == 'WindowDevice' or G.has_quad(d):
          case['oracle_only'] = True                                  # no model of the class / of the quadratic constraint
        if any(u.get('_noflat') is not None for u in (d.get('ucons') or [])):
          case['_shape'] = 'flat'
        out.append(case)
      else:
        t, n = gen.gen_tree(rng, tier, want_mf=rng.random() < 0.7)
        oracle_only = False
        for b in gen.tree_leaves(t):
          if b['k'] == 'mf' and rng.random() < 0.4:
            b['dev'] = one_way_device(rng, tier, n)        # an adaptor around a charge-only / discharge-only storage, or a thermal device
          d = b['dev']
          if d['cls'] == 'SDevice' and rng.random() < 0.5:
            d['prm']['rate_clip'] = list(rng.choice(PAIR_CLIPS))
          if b['k'] == 'mf' and d['cls'] != 'CDevice2' and rng.random() < 0.5:
            lb = [C.F(x) for x in d['lb']]; hb = [C.F(x) for x in d['hb']]
            rows, pyform, _ = G.gen_cbound_form(rng, n, lb, hb)
            d['cbs'] = [[C.fs(r[0]), C.fs(r[1]), r[2], r[3]] for r in rows]; d['_py']['cform'] = pyform
          if b['k'] == 'mf' and b.get('ratios'):
            gen_sets.set_ratios(rng, b)          # either sign, some not dyadic, every sequence form (`_rform`)
            if rng.random() < 0.25:
              b['ratios'] = [str(rng.randint(1, 3)), str(rng.randint(1, 8))]     # integer-valued, as in the sample scenarios ([1, 8])
              b['_rform'] = rng.choice(gen_sets.RATIO_FORMS + (['uint-ndarray']*3 if G.family('uint_ratios') else []))
          if d['cls'] == 'ADevice':
            lb = [C.F(x) for x in d['lb']]; hb = [C.F(x) for x in d['hb']]
            if 'ucons' in d or rng.random() < 0.3:
              quad = rng.random() < 0.3
              d['ucons'] = [u for u in G.gen_ucons(rng, n, lb, hb, quad=quad) if u.get('_noflat') is None]
              oracle_only = oracle_only or quad
        probes = [gen.tree_flow(rng, t, n, m) for m in ('interior', 'mixed')]
        # flows are not only the feasible ones: where an adaptor wraps a lossy one-way storage, the second probe puts the conduit
        # sum just OUTSIDE the box on the other side of zero (a charge-only storage asked to discharge a little, and vice versa)
        for (r0, k, sign) in mf_lossy_blocks(t, n):
          for i in range(n):
            others = sum((C.F(probes[1][r0 + r][i]) for r in range(1, k)), C.F(0))
            probes[1][r0][i] = C.fs(-others - C.F(sign)*Fraction(1, 4))
        blb, bhb = gen.tree_box(t, n)
        R = gen.tree_rows(t)
        flat = G.int_flow(rng, blb, bhb, set(r*n + i for r in lossy_rows(t, n) for i in range(n)))
        ip = [[str(v) for v in flat[r*n:(r + 1)*n]] for r in range(R)]
        out.append({'kind': 'tree', 'tree': t, 'n': n, 'probes': probes, 'iprobe': ip, '_shape': rng.choice(['flat', 'flat', 'matrix']),
                    '_reads': rng.choice([1, 2]), 'oseed': rng.randrange(1 << 30)})
        if oracle_only:
          out[-1]['oracle_only'] = True
    G.prefetch([self.line(c) for c in out if not c.get('oracle_only')])
    return out

  def line(self, case):
    probes = list(case['probes']) + ([case['iprobe']] if case.get('iprobe') else [])
    if case['kind'] == 'leaf':
      return {'op': 'cons.leaf', 'dev': case['dev'], 'probes': probes, 'jac': True}
    return {'op': 'cons.tree', 'tree': case['tree'], 'n': case['n'], 'probes': probes, 'jac': True}

  def shaper(self, case):
    """the shape the caller presents a flow in: a leaf takes (n,) or its declared (1, n); a set takes the flat vector SLSQP uses or (R, n)."""
    if case['kind'] == 'leaf':
      return (lambda y: y.reshape(1, -1)) if case.get('_shape') == 'row' else (lambda y: y.reshape(-1))
    R, n = gen.tree_rows(case['tree']), case['n']
    return (lambda y: y.reshape(R, n)) if case.get('_shape') == 'matrix' else (lambda y: y.reshape(-1))

  def impl_probes(self, case):
    np = G.np()
    sh = self.shaper(case)
    P = [sh(build.arr(x)) for x in case['probes']]
    if case.get('iprobe'):
      P.append(sh(np.array(build.jf(case['iprobe']), dtype=float).astype(int)))      # INTEGER-typed, always
    return P

  def ops(self, case):
    if case.get('oracle_only'):
      return []
    line = self.line(case)
    mrows = G.model_rows(line)
    P = self.impl_probes(case)
    dev = G.build_dev(case['dev'], 'dev') if case['kind'] == 'leaf' else G.build_tree(case['tree'])
    def impl():
      cons = dev.constraints
      if case.get('_reads') == 2:
        cons = dev.constraints          # the list a second read returns must be the same list
      return G.align_rows(mrows, G.impl_rows(cons, P, True))
    return [Op(line, impl, 1e-9, '%s constraint Jacobians%s' % (case['kind'], ' (second read)' if case.get('_reads') == 2 else ''))]

  def oracle(self, case):
    np = G.np()
    rng = random.Random(case.get('oseed', 0))
    fails = []
    sh = self.shaper(case)
    owned = []
    suffix = ''
    if case['kind'] == 'leaf':
      d = case['dev']; n = m = d['n']
      try:
        dev = G.build_dev(d, 'dev')
      except Exception as e:
        return [{'key': {'cls': d['cls'], 'kind': 'construction-raises'}, 'detail': '%s n=%d cbounds=%s (%s rows): constructing the device raised %s: %s'
                 % (d['cls'], n, d.get('cbs'), d.get('_py', {}).get('crows', 'tuple'), type(e).__name__, str(e)[:160])}]
      lossy = d['cls'] == 'SDevice' and d['prm'].get('efficiency', '1') != '1'
      self.bump('leaf:' + d['cls'])
      cls = d['cls']
      label = '%s n=%d cbounds=%s' % (cls, n, d.get('cbs'))
      fix = (lambda x: off_kink(x, range(n))) if lossy else (lambda x: x)
    else:
      t = case['tree']; n = case['n']
      dev = G.build_tree(t, owned)
      R = gen.tree_rows(t); m = R*n
      self.bump('tree:rows=%d' % min(R, 8))
      if gen.tree_has(t, 'mf'):
        self.bump('tree:mf')
      for b in gen.tree_leaves(t):
        if b['k'] == 'mf' and b.get('ratios'):
          self.bump('tree:ratio:%s:%s' % (b.get('_rform', 'list'), 'signed' if any(x.startswith('-') for x in b['ratios']) else 'positive'))
      idx = [r*n + i for r in lossy_rows(t, n) for i in range(n)]
      mfl = mf_lossy_blocks(t, n)
      if mfl:
        self.bump('tree:mf-around-lossy-storage')
      if any(b['k'] == 'mf' and b['dev']['cls'] == 'TDevice' for b in gen.tree_leaves(t)):
        self.bump('tree:mf-around-thermal')
      cls = type(dev).__name__
      label = '%s (%d rows x %d slots)' % (cls, R, n)
      if any(b.get('_rform') == 'uint-ndarray' for b in gen.tree_leaves(t)):
        suffix = '-uint-ratios'      # family uint_ratios (a defect of the unchanged tree): its own failure kind, so that a known-finding entry can be narrow
      fix = lambda x: off_sum_kink(off_kink(x, idx), n, mfl)
    snap = [a.copy() for _, a in owned]
    kindof = lambda kind: kind + (suffix if kind == 'jacobian' else '')
    # the finite differences perturb a flat float copy; every constraint is called with the shape (and, for the integer probe, the dtype) the caller uses
    wrap = lambda cons: [dict(c, fun=(lambda y, f=c['fun']: f(sh(y))), **({'jac': (lambda y, j=c['jac']: j(sh(y)))} if 'jac' in c else {})) for c in cons]
    reads = [dev.constraints, dev.constraints]
    if len(reads[0]) != len(reads[1]):
      fails.append({'key': {'cls': cls, 'kind': 'second-read'}, 'detail': '%s: .constraints has %d entries on the first read and %d on the second' % (label, len(reads[0]), len(reads[1]))})
    for pi, S in enumerate(case['probes']):
      if fails:
        break
      x = fix(build.arr(S).reshape(-1).astype(float))
      for kind, detail in check_jacobians(wrap(reads[pi % 2]), x, m, rng, '%s, read %d of .constraints' % (label, pi % 2 + 1)):
        fails.append({'key': {'cls': cls, 'kind': kindof(kind)}, 'detail': detail})
    if len(case['probes']) >= 2 and not fails:
      # a list that has already been asked at the first probe must answer at the second one like a freshly read list does
      x1 = fix(build.arr(case['probes'][1]).reshape(-1).astype(float))
      for ci, (c0, c1) in enumerate(zip(wrap(reads[0]), wrap(dev.constraints))):
        if 'jac' in c0 and 'jac' in c1:
          try:
            j0 = np.array(c0['jac'](x1), dtype=float).reshape(-1); j1 = np.array(c1['jac'](x1), dtype=float).reshape(-1)
          except Exception:
            continue
          if j0.shape != j1.shape or np.abs(j0 - j1).max() > 1e-12:
            fails.append({'key': {'cls': cls, 'kind': 'jac-stale'},
                          'detail': '%s: constraints[%d].jac, already asked at x0=%s, returns %s at x1=%s where a freshly read list returns %s'
                                    % (label, ci, np.round(fix(build.arr(case['probes'][0]).reshape(-1).astype(float)), 6).tolist(), np.round(j0, 9).tolist(), np.round(x1, 6).tolist(), np.round(j1, 9).tolist())})
            break
    if case.get('iprobe') and not fails:
      xi = np.array(build.jf(case['iprobe']), dtype=float).reshape(-1).astype(int)
      xf = xi.astype(float)
      on_kink = bool(np.abs(fix(xf) - xf).max() > 0) if m else False
      self.bump('int-probe:' + ('metamorphic-only' if on_kink else 'fd+metamorphic'))
      for kind, detail in check_jacobians(wrap(reads[1]), xf, m, rng, '%s, read 2 of .constraints' % label, x_eval=xi, fd=not on_kink):
        fails.append({'key': {'cls': cls, 'kind': kindof(kind)}, 'detail': detail})
    for (name, a), before in zip(owned, snap):
      if a.shape != before.shape or not np.array_equal(a, before):
        fails.append({'key': {'cls': cls, 'kind': 'caller-array-mutated'},
                      'detail': '%s: the caller\'s array passed as %s was %s before and is %s after reading .constraints' % (label, name, before.tolist(), a.tolist())})
        break
    return fails[:1] if fails else fails

  def nontrivial(self, case):
    if case['kind'] != 'tree':
      return False
    t = case['tree']; n = case['n']
    if gen.tree_rows(t) < 2:
      return False
    def reads2(u):
      if u['k'] == 'node':
        return (u.get('sb') is not None and gen.tree_rows(u) >= 2) or any(reads2(c) for c in u['ch'])
      d = u['dev']
      if u['k'] == 'mf' and len(u['flows']) >= 2:
        return True
      return (d['cls'] == 'SDevice' and n >= 2) or any(min(int(c[3]), n) - int(c[2]) >= 2 for c in (d.get('cbs') or []))
    return reads2(t)

  def canon(self, case):
    import json
    return json.dumps({k: v for k, v in case.items() if k not in ('oseed', 'tag', '_shape', '_reads')}, sort_keys=True, default=str)

  def extra_evidence(self):
    return {'input_distribution': dict(sorted(self.hist.items()))}


PROP = C06()
