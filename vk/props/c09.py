"""C09 — storage and thermal state follow the documented first-order recurrences.

T2: utils.soc / utils.base_soc / SDevice.charge_at / the constraints' inner soc(r, i) (read off the
`fun` of the SoC constraints) / all storage constraint values / TDevice.t_base / TDevice.r2t against the
Lean model (DK.soc, baseSoc, chargeAt, socDot, Leaf.cons, tBase, r2t) at exact rationals.
Oracle: the recurrence of the property text as a plain loop over exact fractions, never the model."""
import json
from fractions import Fraction
from .. import common as C, gen, build
from ..common import F, fs, dy
from ..check import Prop, Op

SUS_S = ['1', '1', '1/2', '3/4', '7/8', '1/4', '1/16', '15/16', '1/64']            # storage: (0, 1]
EFF_S = ['1', '1', '1/2', '3/4', '7/8', '1/4', '15/16', '1/64']                    # storage: (0, 1]
SUS_T = ['1', '1/2', '3/4', '7/8', '0', '1/4', '1/16', '15/16']                    # thermal: [0, 1]
EFF_T = ['1', '-1', '1/2', '-1/2', '2', '-2', '3', '1/4', '-3/4', '5/4', '-5/4']  # thermal: non-zero, both sides of 1, cooling


# the storage constraints' inner soc(r, i) computes `e**np.sign(r)` on the caller's array: with an integer efficiency (efficiency=1)
# and an INTEGER-typed flow with a negative entry numpy raises (open finding, same class as e476d7b).  The oracle exercises that
# path; the T2 ops hand the constraint `fun`s a float copy of the flow until this is True.
T2_INT_CONSTRAINT_FLOWS = True


def np():
  import numpy
  return numpy


def mixed_flow(rng, lb, hb, oob=0.0):
  """a flow with mixed signs and exact zeros; in bounds unless `oob`."""
  s = []
  for a, b in zip(lb, hb):
    q = rng.random()
    if q < 0.2 and a <= 0 <= b:
      x = F(0)
    elif q < 0.3:
      x = a
    elif q < 0.4:
      x = b
    else:
      x = a + (b - a)*Fraction(rng.randint(0, 16), 16)
    if rng.random() < oob:
      x = x + dy(rng, -2, 2)
    s.append(x)
  return s


def free_vec(rng, n, lo=-4, hi=4, zeros=0.2, bits=2):
  return [F(0) if rng.random() < zeros else dy(rng, lo, hi, bits) for _ in range(n)]


def gen_sdev(rng, tier):
  d = gen.gen_leaf(rng, tier, ['SDevice'])
  n = d['n']
  if rng.random() < 0.5:   # independent two-way bounds per slot, some one-sided, some closed
    lb = [-dy(rng, 0, 4) for _ in range(n)]; hb = [dy(rng, 0, 4) for _ in range(n)]
    if d['cbs']:
      d['cbs'] = []; d['_py']['cform'] = None
    d['lb'] = [fs(x) for x in lb]; d['hb'] = [fs(x) for x in hb]
    d['_py']['bform'] = 'table'
  p = d['prm']
  p['sustainment'] = rng.choice(SUS_S)
  p['efficiency'] = rng.choice(EFF_S)
  p['start'] = rng.choice(['0', '1', '1/2', fs(dy(rng, 0, 1, 3))])
  p['capacity'] = fs(dy(rng, Fraction(1, 4), 12))
  p['reserve'] = rng.choice(['0', '1', fs(dy(rng, 0, 1))])
  if rng.random() < 0.35:
    clip = lambda: None if rng.random() < 0.3 else fs(dy(rng, 1, 3))
    rc = [clip(), clip()]
    if rc != [None, None]:
      p['rate_clip'] = rc
  lbf = [F(x) for x in d['lb']]; hbf = [F(x) for x in d['hb']]
  r = mixed_flow(rng, lbf, hbf, oob=0.1 if rng.random() < 0.2 else 0.0)
  return {'kind': 'sdev', 'dev': d, 'r': [fs(x) for x in r], '_shape': rng.choice(['flat', 'flat', 'row'])}


def gen_tdev(rng, tier):
  d = gen.gen_leaf(rng, tier, ['TDevice'])
  n = d['n']
  q = rng.random()
  if q < 0.6:      # two-way bounds: the recurrence is stated for any real consumption
    lb = [-dy(rng, 0, 4) for _ in range(n)]; hb = [dy(rng, 0, 4) for _ in range(n)]
  elif q < 0.8:    # producer-like
    hb = [-dy(rng, 0, 2) for _ in range(n)]; lb = [x - dy(rng, 0, 3) for x in hb]
  else:
    lb = [F(x) for x in d['lb']]; hb = [F(x) for x in d['hb']]
  d['lb'] = [fs(x) for x in lb]; d['hb'] = [fs(x) for x in hb]
  d['_py']['bform'] = 'table'
  p = d['prm']
  p['sustainment'] = rng.choice(SUS_T)
  p['efficiency'] = rng.choice(EFF_T)
  p['t_init'] = fs(dy(rng, -10, 25)) if rng.random() < 0.8 else '0'
  mode = rng.choice(['mixed', 'mixed', 'neg', 'zero', 'pos'])
  te = []
  for _ in range(n):
    if mode == 'zero' or (mode == 'mixed' and rng.random() < 0.25):
      te.append(F(0))
    elif mode == 'neg':
      te.append(dy(rng, -12, 0, 1))
    elif mode == 'pos':
      te.append(dy(rng, 0, 30, 1))
    else:
      te.append(dy(rng, -12, 30, 1))
  q2 = rng.random()
  if q2 < 0.25:      # non-dyadic decimals: a rounding / precision-reducing edit of the stored temperatures must show
    te = [x + Fraction(rng.choice([1, 7, 13, 37, 49, 73, 99, 123]), 1000)*rng.choice([1, -1]) if x != 0 else x for x in te]
    if p['t_init'] != '0':
      p['t_init'] = fs(F(p['t_init']) + Fraction(rng.choice([3, 17, 41, 77]), 1000))
  elif q2 < 0.32:    # magnitudes far outside any plausible climate: the recurrence is stated for any real external temperature
    te = [x*rng.choice([25, 40, -30]) if rng.random() < 0.5 else x for x in te]
  p['t_external'] = [fs(x) for x in te]
  r = mixed_flow(rng, lb, hb, oob=0.1 if rng.random() < 0.2 else 0.0)
  return {'kind': 'tdev', 'dev': d, 'r': [fs(x) for x in r], '_shape': rng.choice(['flat', 'flat', 'row'])}


def gen_soc(rng, tier):
  n = gen.pick_n(rng, tier)
  r = free_vec(rng, n)
  mode = rng.random()
  if mode < 0.1:
    r = [abs(x) for x in r]
  elif mode < 0.2:
    r = [-abs(x) for x in r]
  return {'kind': 'soc', 'r': [fs(x) for x in r], 's': rng.choice(SUS_S + SUS_T), 'e': rng.choice(EFF_S + EFF_T)}


def gen_base(rng, tier):
  return {'kind': 'base', 'b': fs(dy(rng, -10, 25)) if rng.random() < 0.85 else '0', 's': rng.choice(SUS_S + SUS_T), 'n': gen.pick_n(rng, tier)}


# ------------------------------------------------------------------ integer-typed callers (`ints`)
INT_SUS_T = ['0', '1', '1', '1/2', '3/4']
INT_EFF = ['1', '1', '1', '-1', '2', '-2', '3']


def ints(rng, n, lo, hi, zeros=0.2):
  return [F(0) if rng.random() < zeros else F(rng.randint(lo, hi)) for _ in range(n)]


def gen_int_tdev(rng, tier):
  """everything integer-valued and handed to the library as INTEGER-typed data (np int arrays, Python ints):
  integer external temperatures incl. negatives and zero, integer flows of both signs, integer t_init, efficiency 1."""
  n = gen.pick_n(rng, tier)
  q = rng.random()
  lb = [F(-rng.randint(0, 4)) for _ in range(n)] if q < 0.7 else [F(0)]*n
  hb = [F(rng.randint(0, 4)) for _ in range(n)]
  mode = rng.choice(['mixed', 'mixed', 'neg', 'zero'])
  te = [F(0) if mode == 'zero' else F(rng.randint(-12, -1 if mode == 'neg' else 30)) for _ in range(n)]
  if mode == 'mixed' and n > 1:
    te[rng.randrange(n)] = F(0); te[rng.randrange(n)] = F(-rng.randint(1, 12))
  d = {'cls': 'TDevice', 'n': n, 'lb': [fs(x) for x in lb], 'hb': [fs(x) for x in hb], 'cbs': [], '_py': {'bform': 'table', 'cform': None},
       'prm': {'sustainment': rng.choice(INT_SUS_T), 'efficiency': rng.choice(INT_EFF), 't_init': str(rng.randint(-10, 25)),
               't_optimal': str(rng.randint(15, 25)), 't_range': str(rng.randint(0, 6)), 't_external': [fs(x) for x in te],
               'c': str(rng.randint(0, 3))}}
  r = [F(rng.randint(int(a), int(b))) for a, b in zip(lb, hb)]
  return {'kind': 'tdev', 'dev': d, 'r': [fs(x) for x in r], 'ints': True, '_shape': rng.choice(['flat', 'flat', 'row'])}


def gen_int_sdev(rng, tier):
  n = gen.pick_n(rng, tier)
  m = rng.randint(1, 4)
  d = {'cls': 'SDevice', 'n': n, 'lb': [str(-m)]*n, 'hb': [str(m)]*n, 'cbs': [], '_py': {'bform': rng.choice(['scalar', 'table']), 'cform': None},
       'prm': {'c1': '1', 'c2': '0', 'c3': str(rng.randint(0, 2)), 'capacity': str(rng.randint(1, 12)), 'damage_depth': rng.choice(['0', '1']),
               'start': rng.choice(['0', '1']), 'reserve': '0', 'efficiency': '1', 'sustainment': rng.choice(['1', '1', '1/2'])}}
  r = [F(rng.randint(-m, m)) for _ in range(n)]
  return {'kind': 'sdev', 'dev': d, 'r': [fs(x) for x in r], 'ints': True, '_shape': 'flat'}


def gen_int_soc(rng, tier):
  n = gen.pick_n(rng, tier)
  return {'kind': 'soc', 'r': [fs(x) for x in ints(rng, n, -6, 6)], 's': rng.choice(INT_SUS_T), 'e': rng.choice(INT_EFF), 'ints': True}


# ------------------------------------------------------------------ assignment after construction (`set`)
def gen_set_sdev(rng, tier):
  """build the storage device, THEN assign one or two parameters through the public setters: the state the
  constraints bound must still be the state charge_at reports, for the NEW parameters."""
  case = gen_sdev(rng, tier)
  p = case['dev']['prm']
  st = {}
  for k in rng.sample(['sustainment', 'sustainment', 'efficiency', 'start', 'capacity'], rng.randint(1, 2)):
    if k == 'sustainment':
      st[k] = rng.choice([x for x in SUS_S if x != p[k]])
    elif k == 'efficiency':
      st[k] = rng.choice([x for x in EFF_S if x != p[k]])
    elif k == 'start':
      st[k] = rng.choice([x for x in ['0', '1', '1/2', '1/4', '3/4'] if x != p[k]])
    else:
      st[k] = fs(F(p[k]) + dy(rng, Fraction(1, 4), 4))
  case['set'] = st
  return case


# ------------------------------------------------------------------ histories (`hist`): a call on one device, then states of others
def gen_hist(rng, tier):
  """evaluate cost / deriv / hess of one storage device, THEN compute the state of the same device and of NEW storage and
  thermal devices (and utils.soc) with the same (sustainment, horizon): nothing a device computes may change what another
  one reports (the decay weights are one lru-cached matrix per (sustainment, n) shared by every device of the process)."""
  warm = gen_sdev(rng, tier)
  while warm['dev']['n'] > 6:
    warm = gen_sdev(rng, tier)
  d = warm['dev']; n = d['n']; p = d['prm']
  p['efficiency'] = rng.choice(['1/2', '3/4', '7/8', '1/4', '1'])
  p['c3'] = rng.choice(['1', '2', '0'])
  p.pop('rate_clip', None)
  sus = p['sustainment']
  lbf = [F(x) for x in d['lb']]; hbf = [F(x) for x in d['hb']]
  then = [{'kind': 'sdev', 'same': True, 'r': [fs(x) for x in mixed_flow(rng, lbf, hbf)]}]
  other = gen_sdev(rng, tier)
  while other['dev']['n'] != n:
    other = gen_sdev(rng, tier)
  other['dev']['prm']['sustainment'] = sus
  then.append(other)
  th = gen_tdev(rng, tier)
  while th['dev']['n'] != n:
    th = gen_tdev(rng, tier)
  th['dev']['prm']['sustainment'] = sus
  then.append(th)
  then.append({'kind': 'soc', 'r': [fs(x) for x in free_vec(rng, n)], 's': sus, 'e': rng.choice(EFF_S + EFF_T)})
  calls = rng.sample(['deriv', 'deriv', 'cost', 'hess'], rng.randint(1, 3)) if n <= 3 else rng.sample(['deriv', 'deriv', 'cost'], rng.randint(1, 2))
  if 'deriv' not in calls and rng.random() < 0.7:
    calls.append('deriv')
  return {'kind': 'hist', 'warm': warm, 'calls': calls, 'then': then}


def fresh_caches():
  """every case starts from empty library caches, so a verdict never depends on which cases ran before it (replayable)."""
  C.repo()
  from device_kit import utils
  for f in (getattr(utils, 'sustainment_matrix', None), getattr(utils, 'power_matrix', None)):
    if hasattr(f, 'cache_clear'):
      f.cache_clear()


def do_warm(case):
  """the first part of a history: build the storage device and call the listed methods at its flow."""
  w = case['warm']
  dev = make_dev(w)
  r = flat_arr(w).astype(float)
  for c in case['calls']:
    if c == 'deriv': dev.deriv(r, 0)
    elif c == 'cost': dev.cost(r, 0)
    elif c == 'hess': dev.hess(r, 0)
  return dev


def as_num(x, want_int):
  v = C.pf(x)
  return int(v) if (want_int and float(v).is_integer()) else v


def make_dev(case):
  """the Python object of a case: built from the description, integer-typed where `ints`, then the `set` assignments."""
  d = case['dev']
  if case.get('ints'):
    dk = C.repo(); n_ = np(); p = d['prm']; I = lambda k: as_num(p[k], True)
    b = build.py_bounds(d)
    if d['cls'] == 'TDevice':
      te = n_.array([int(F(x)) for x in p['t_external']], dtype=int)
      dev = dk.TDevice('tdevice', d['n'], b, I('sustainment'), I('efficiency'), I('t_init'), I('t_optimal'), I('t_range'), te, c=I('c'))
    else:
      dev = dk.SDevice('sdevice', d['n'], b, None, **{k: I(k) for k in p if k != 'rate_clip'})
  else:
    dev = build.build_leaf(d)
  for k, v in case.get('set', {}).items():
    setattr(dev, k, C.pf(v))
  return dev


def model_dev(case):
  """the description the model (and the oracle) reads: parameters after the `set` assignments."""
  d = case['dev']
  if not case.get('set'):
    return d
  e = dict(d); e['prm'] = dict(d['prm']); e['prm'].update(case['set'])
  return e


# ------------------------------------------------------------------ the documented recurrences (oracle)
def storage_loop(r, s, e, start):
  """state after slot i = s*state(i-1) + r_i*e (charging) | r_i/e (discharging), from `start`."""
  out, x = [], start
  for ri in r:
    x = s*x + (ri*e if ri > 0 else (ri/e if ri < 0 else 0))
    out.append(x)
  return out


def thermal_loop(r, s, e, t_init, te):
  """T(i) = s*T(i-1) + (1-s)*TE(i) + e*r(i), T(-1) = t_init."""
  out, t = [], t_init
  for ri, tei in zip(r, te):
    t = s*t + (1 - s)*tei + e*ri
    out.append(t)
  return out


def worst(got, want):
  """index and size of the largest deviation relative to the scale of the data, or None."""
  n_ = np()
  got = n_.array(got, dtype=float).reshape(-1)
  w = n_.array([float(x) for x in want])
  if got.shape != w.shape:
    return -1, float('inf')
  scale = max(1.0, float(n_.max(n_.abs(w)))) if w.size else 1.0
  err = n_.abs(got - w)/scale
  err = n_.where(n_.isfinite(err), err, n_.inf)
  i = int(n_.argmax(err))
  return (i, float(err[i])) if err[i] > 1e-9 else None


def flat_arr(case):
  if case.get('ints'):
    return np().array([int(F(x)) for x in case['r']], dtype=int)
  return build.arr(case['r'])


def r_arr(case):
  a = flat_arr(case)
  return a.reshape(1, -1) if case.get('_shape') == 'row' else a


class C09(Prop):
  id = 'C09'
  lean_module = 'DK.Props.C09'
  uses_t1 = True      # T1v regenerates DK/Gen/Vec.lean from the current source before the bridge is audited
  bridge_vec = ['DK.BridgeVec.utils_power_matrix', 'DK.BridgeVec.utils_sustainment_matrix', 'DK.BridgeVec.utils_base_soc',
                'DK.BridgeVec.utils_soc', 'DK.BridgeVec.SDevice_base', 'DK.BridgeVec.SDevice_charge_at',
                'DK.BridgeVec.SDevice_charge_at_lossless', 'DK.BridgeVec.SDevice_constraints_soc',
                'DK.BridgeVec.TDevice_make_t_base', 'DK.BridgeVec.TDevice_t_base', 'DK.BridgeVec.TDevice_r2t']      # T1v: vector method bodies (vk/translate_vec.py, DK/Lemmas/BridgeVec.lean)
  bridge = bridge_vec
  theorems = {'DK.Props.C09': ['DK.C09.soc_zero', 'DK.C09.soc_succ', 'DK.C09.effPow_charge', 'DK.C09.effPow_discharge', 'DK.C09.flow_zero',
                               'DK.C09.chargeAt_zero', 'DK.C09.chargeAt_succ', 'DK.C09.socDot_eq_chargeAt',
                               'DK.C09.r2t_zero', 'DK.C09.r2t_succ', 'DK.C09.tBase_eq_r2t_zero_flow'],
              # the recurrence determines the reported state: uniqueness, causality, monotonicity, lossless closed form, affinity
              'DK.Props.C09b': ['DK.C09.effFlow_sign', 'DK.C09.effFlow_mono', 'DK.C09.chargeAt_isStorageState', 'DK.C09.chargeAt_unique',
                                'DK.C09.chargeAt_causal', 'DK.C09.chargeAt_mono', 'DK.C09.chargeAt_lossless', 'DK.C09.chargeAt_rest',
                                'DK.C09.r2t_isThermalState', 'DK.C09.r2t_unique', 'DK.C09.r2t_causal', 'DK.C09.r2t_affine',
                                'DK.C09.r2t_shift']}
  rule = ('utils.soc / base_soc on free vectors; SDevice (sustainment, efficiency in (0,1] incl. 1 and 1/64, start 0..1, optional '
          'cbounds and rate clipping) and TDevice (sustainment in [0,1], efficiency of both signs and both sides of 1, zero / negative '
          'external temperatures, two-way bounds) x n in 1.. x flows with mixed signs and exact zeros; non-trivial: mixed-sign flow and '
          '(sustainment < 1 or efficiency != 1), thermal additionally some external temperature <= 0.  Plus an all-integer family handed to '
          'the library as INTEGER-typed data (int arrays / Python ints: integer external temperatures incl. negatives and zero, integer flows, '
          'integer t_init, efficiency 1, sustainment 0 / 1) and a setter family (storage device built, then sustainment / efficiency / start / '
          'capacity assigned: charge_at vs the state the constraints bound vs the recurrence for the NEW parameters); every storage constraint '
          'fun / jac on the flat flow, its (1,n) row, integer-typed, and through a one-child DeviceSet; histories: cost / deriv / hess of one '
          'storage device, then the state of the same and of NEW storage / thermal devices with the same (sustainment, n)')
  sizes = {'quick': 800, 'thorough': 12000}
  assumptions = ['oracle: the documented recurrence as a Python loop over exact fractions, compared at 1e-9 of the data scale']

  def __init__(self):
    self.hist = {}

  def cases(self, rng, tier, count):
    out = []
    for _ in range(count):
      q = rng.random()
      if q < 0.30: out.append(gen_sdev(rng, tier))
      elif q < 0.38: out.append(gen_set_sdev(rng, tier))
      elif q < 0.66: out.append(gen_tdev(rng, tier))
      elif q < 0.76: out.append(gen_int_tdev(rng, tier))
      elif q < 0.79: out.append(gen_int_sdev(rng, tier))
      elif q < 0.83: out.append(gen_int_soc(rng, tier))
      elif q < 0.91: out.append(gen_soc(rng, tier))
      elif q < 0.95: out.append(gen_hist(rng, tier))
      else: out.append(gen_base(rng, tier))
    return out

  # ---------------------------------------------------------------- T2
  def ops(self, case):
    if case['kind'] == 'hist':
      self.hist['hist'] = self.hist.get('hist', 0) + 1
      cell = []
      def warm():              # once per history, from empty caches
        if not cell:
          fresh_caches(); cell.append(do_warm(case))
        return cell[0]
      out = []
      for sub in case['then']:
        sc = dict(case['warm'], r=sub['r']) if sub.get('same') else sub
        for op in self._ops(sc, (lambda: warm()) if sub.get('same') else None):
          op.impl = (lambda f: lambda: (warm(), f())[1])(op.impl)
          op.what = 'after %s of a storage device: %s' % ('/'.join(case['calls']), op.what)
          out.append(op)
      return out
    out = self._ops(case)
    for op in out:
      op.impl = (lambda f: lambda: (fresh_caches(), f())[1])(op.impl)
    return out

  def _ops(self, case, dev0=None):
    dk = C.repo()
    from device_kit import utils
    k = case['kind']
    self.hist[k] = self.hist.get(k, 0) + 1
    if k == 'soc':
      r, s, e = self.soc_args(case)
      return [Op({'op': 'state.soc', 'r': case['r'], 's': case['s'], 'e': case['e']}, lambda: utils.soc(r, s, e), 1e-9, 'utils.soc')]
    if k == 'base':
      b = C.pf(case['b']); s = C.pf(case['s']); n = case['n']
      return [Op({'op': 'state.base_soc', 'b': case['b'], 's': case['s'], 'n': n}, lambda: utils.base_soc(b, s, n), 1e-9, 'utils.base_soc')]
    d = model_dev(case); n = d['n']      # the model sees the parameters AFTER the `set` assignments
    for key in ('ints', 'set'):
      if case.get(key): self.hist[key] = self.hist.get(key, 0) + 1
    cell = []
    def dev():                           # built inside the thunks: a constructor that raises is an implementation answer
      if not cell: cell.append(dev0() if dev0 else make_dev(case))
      return cell[0]
    r = r_arr(case); rf = flat_arr(case)
    if k == 'sdev':
      ncb = len(d['cbs']) if d['_py'].get('cform') else 0
      rc = rf if T2_INT_CONSTRAINT_FLOWS else build.arr(case['r']).astype(float)
      def inner():
        cons = dev().constraints
        return [cons[2*ncb + 2*i]['fun'](rc) for i in range(n)]
      return [
        Op({'op': 'state.charge_at', 'dev': d, 'r': case['r']}, lambda: dev().charge_at(rf), 1e-9, 'SDevice.charge_at'),
        Op({'op': 'state.soc_dot', 'dev': d, 'r': case['r']}, inner, 1e-9, 'inner soc(r,i) of the SoC constraints'),
        Op({'op': 'state.cons_vals', 'dev': self.cons_dev(d), 'r': case['r'], 'sorted': True},
           lambda: sorted(float(c['fun'](rc)) for c in dev().constraints), 1e-9, 'storage constraint values (sorted)'),
      ]
    if k == 'tdev':
      return [
        Op({'op': 'state.t_base', 'dev': d}, lambda: dev().t_base, 1e-9, 'TDevice.t_base'),
        Op({'op': 'state.r2t', 'dev': d, 'r': case['r']}, lambda: dev().r2t(r), 1e-9, 'TDevice.r2t'),
      ]
    raise ValueError(k)

  @staticmethod
  def soc_args(case):
    if case.get('ints'):
      return [int(F(x)) for x in case['r']], as_num(case['s'], True), as_num(case['e'], True)
    return build.arr(case['r']), C.pf(case['s']), C.pf(case['e'])

  @staticmethod
  def cons_dev(d):
    """the model reads cumulative bounds from `cbs`; the Python device has them only when a form was chosen."""
    if d['_py'].get('cform'):
      return d
    e = dict(d); e['cbs'] = []
    return e

  # ---------------------------------------------------------------- oracle
  def oracle(self, case):
    fresh_caches()
    if case['kind'] != 'hist':
      return self._oracle(case)
    try:
      wdev = do_warm(case)
    except Exception as ex:
      return [{'key': {'cls': 'SDevice', 'kind': 'raises', 'exc': type(ex).__name__},
               'detail': 'SDevice: %s raises %s(%s); %s' % ('/'.join(case['calls']), type(ex).__name__, ex, json_short(case['warm']))}]
    for sub in case['then']:
      sc = dict(case['warm'], r=sub['r']) if sub.get('same') else sub
      fs_ = self._oracle(sc, wdev if sub.get('same') else None)
      if fs_:
        f = fs_[0]
        f['key'] = dict(f['key'], history=True)
        f['detail'] = 'HISTORY: after %s at r=%s of the storage device %s, the state of %s no longer follows the recurrence.  %s' % (
          '/'.join(case['calls']), case['warm']['r'], json.dumps(strip_private_(case['warm']['dev']['prm'])),
          'the same device' if sub.get('same') else 'a NEW %s with the same (sustainment, n)' % sub.get('dev', {}).get('cls', 'utils.soc call'), f['detail'])
        return [f]
    return []

  def _oracle(self, case, dev0=None):
    C.repo()
    from device_kit import utils
    k = case['kind']
    fails = []
    def bad(cls, kind, what, got, want, w):
      i, err = w
      g = np().array(got, dtype=float).reshape(-1)
      fails.append({'key': {'cls': cls, 'kind': kind},
                    'detail': '%s: %s[%d] = %s but the documented recurrence gives %s (relative deviation %.3g); input %s' % (
                      cls, what, i, (g[i] if 0 <= i < g.size else 'shape %s' % (g.shape,)), (float(want[i]) if 0 <= i < len(want) else '?'), err,
                      json_short(case))})
    if k == 'soc':
      r = [F(x) for x in case['r']]; s = F(case['s']); e = F(case['e'])
      want = storage_loop(r, s, e, F(0))
      try:
        got = utils.soc(*self.soc_args(case))
      except Exception as ex:
        return [{'key': {'cls': 'utils', 'kind': 'raises', 'exc': type(ex).__name__},
                 'detail': 'utils.soc raises %s(%s) on a well-formed input; %s' % (type(ex).__name__, ex, json_short(case))}]
      w = worst(got, want)
      if w: bad('utils', 'recurrence', 'soc(r, s, e)', got, want, w)
      return fails
    if k == 'base':
      b = F(case['b']); s = F(case['s']); n = case['n']
      want = [b*s**(i + 1) for i in range(n)]
      got = utils.base_soc(float(b), float(s), n)
      w = worst(got, want)
      if w: bad('utils', 'recurrence', 'base_soc(b, s, n)', got, want, w)
      return fails
    d = model_dev(case); n = d['n']; p = d['prm']     # documented state for the parameters after the `set` assignments
    r = [F(x) for x in case['r']]; rf = flat_arr(case)
    try:
      dev = dev0 if dev0 is not None else make_dev(case)
      if k == 'tdev':
        dev.r2t(r_arr(case))
      else:
        dev.charge_at(rf)
    except Exception as ex:
      return [{'key': {'cls': d['cls'], 'kind': 'raises', 'exc': type(ex).__name__},
               'detail': '%s: construction / state evaluation raises %s(%s) for accepted parameters and a well-formed flow; %s' % (
                 d['cls'], type(ex).__name__, ex, json_short(case))}]
    if k == 'sdev':
      s = F(p['sustainment']); e = F(p['efficiency']); cap = F(p['capacity'])
      want = storage_loop(r, s, e, F(p['start'])*cap)
      got = dev.charge_at(rf)   # charge_at takes flat vectors only (shape handling is C10's subject)
      w = worst(got, want)
      if w: bad('SDevice', 'recurrence', 'charge_at(r)', got, want, w)
      cons = dev.constraints
      ncb = len(d['cbs']) if d['_py'].get('cform') else 0
      rc = p.get('rate_clip', [None, None])
      expect = 2*ncb + 2*n + (n if rc[0] else 0) + (n if rc[1] else 0) + 1
      if len(cons) != expect:
        fails.append({'key': {'cls': 'SDevice', 'kind': 'constraint-count'}, 'detail': 'SDevice has %d constraints, expected %d; %s' % (len(cons), expect, json_short(case))})
        return fails
      # the documented value of every storage-specific constraint, in the order the source emits them
      lbf = [F(x) for x in d['lb']]; hbf = [F(x) for x in d['hb']]
      wv, what = [], []
      for i in range(n):
        wv += [want[i], cap - want[i]]; what += ['SoC >= 0 constraint (slot %d)' % i, 'SoC <= capacity constraint (slot %d)' % i]
      if rc[0]:
        wv += [r[i] - F(rc[0])*lbf[i]*want[i]/cap for i in range(n)]; what += ['discharge-rate clip constraint (slot %d)' % i for i in range(n)]
      if rc[1]:
        wv += [F(rc[1])*hbf[i]*(1 - want[i]/cap) - r[i] for i in range(n)]; what += ['charge-rate clip constraint (slot %d)' % i for i in range(n)]
      wv.append(want[n - 1] - F(p['reserve'])*cap); what.append('end-of-window reserve constraint')
      scons = cons[2*ncb:]
      # the same logical flow in every form a caller hands over: flat (n,), the (1, n) row DeviceSet passes to a child, integer-typed
      forms = [('flat', rf), ('row (1,n)', rf.reshape(1, -1))]
      if rf.dtype.kind == 'f' and all(x.denominator == 1 for x in r):
        ri = np().array([int(x) for x in r], dtype=int)
        forms += [('integer-typed flat', ri), ('integer-typed row (1,n)', ri.reshape(1, -1))]
      elif rf.dtype.kind != 'f':
        forms += [('float flat', rf.astype(float))]
      jac0 = None
      for name, a in forms:
        try:
          gv = [float(np().array(c['fun'](a), dtype=float).reshape(-1)[0]) for c in scons]
          jv = [np().array(c['jac'](a), dtype=float).reshape(-1) if 'jac' in c else None for c in scons]
        except Exception as ex:
          fails.append({'key': {'cls': 'SDevice', 'kind': 'constraint-raises', 'exc': type(ex).__name__, 'ints': bool(case.get('ints')), 'form': name},
                        'detail': 'SDevice: a storage constraint `fun` / `jac` raises %s(%s) on the %s form of a flow charge_at accepts (dtype %s, efficiency %r); %s' % (
                          type(ex).__name__, ex, name, a.dtype, dev.efficiency, json_short(case))})
          return fails
        w = worst(gv, wv)
        if w:
          i, err = w
          fails.append({'key': {'cls': 'SDevice', 'kind': 'constraint-state', 'form': name.split(' ')[-2] if 'row' in name else 'flat'},
                        'detail': 'SDevice: %s evaluated on the %s flow = %s but the state charge_at reports / the recurrence gives %s (relative deviation %.3g); input %s' % (
                          what[i] if 0 <= i < len(what) else 'constraint list', name, gv[i] if 0 <= i < len(gv) else '?', float(wv[i]) if 0 <= i < len(wv) else '?', err, json_short(case))})
          return fails
        if jac0 is None:
          jac0 = jv
        else:
          for q, (j0, j1) in enumerate(zip(jac0, jv)):
            if j0 is not None and (j1 is None or j0.shape != j1.shape or not np().allclose(j0, j1, rtol=1e-9, atol=1e-12)):
              fails.append({'key': {'cls': 'SDevice', 'kind': 'constraint-jac-form'},
                            'detail': 'SDevice: Jacobian of the %s differs between the flat flow (%s) and its %s form (%s); input %s' % (
                              what[q], j0.tolist(), name, None if j1 is None else j1.tolist(), json_short(case))})
              return fails
      # ... and through a one-child DeviceSet (which slices a (1, n) row out of its flow matrix for the child)
      if not case.get('set'):
        try:
          dk = C.repo()
          ds = dk.DeviceSet('set', [dev])
          dcons = ds.constraints
          for name, a in forms[:2]:
            gv = [float(np().array(c['fun'](a), dtype=float).reshape(-1)[0]) for c in dcons[2*ncb:2*ncb + len(scons)]]
            w = worst(gv, wv)
            if w:
              i, err = w
              fails.append({'key': {'cls': 'SDevice', 'kind': 'constraint-state', 'form': 'deviceset'},
                            'detail': 'SDevice inside a one-child DeviceSet: %s evaluated on the %s flow = %s but the state charge_at reports / the recurrence gives %s; input %s' % (
                              what[i] if 0 <= i < len(what) else 'constraint list', name, gv[i] if 0 <= i < len(gv) else '?', float(wv[i]) if 0 <= i < len(wv) else '?', json_short(case))})
              return fails
        except Exception as ex:
          fails.append({'key': {'cls': 'SDevice', 'kind': 'deviceset-raises', 'exc': type(ex).__name__},
                        'detail': 'one-child DeviceSet over the storage device: constraints raise %s(%s); %s' % (type(ex).__name__, ex, json_short(case))})
      return fails
    if k == 'tdev':
      s = F(p['sustainment']); e = F(p['efficiency']); te = [F(x) for x in p['t_external']]; t0 = F(p['t_init'])
      want = thermal_loop(r, s, e, t0, te)
      got = dev.r2t(r_arr(case))
      w = worst(got, want)
      if w: bad('TDevice', 'recurrence', 'r2t(r)', got, want, w)
      want0 = thermal_loop([F(0)]*n, s, e, t0, te)
      w = worst(dev.t_base, want0)
      if w: bad('TDevice', 'recurrence-base', 't_base', dev.t_base, want0, w)
      return fails
    raise ValueError(k)

  def nontrivial(self, case):
    k = case['kind']
    if k == 'hist':
      return F(case['warm']['dev']['prm']['efficiency']) < 1 and 'deriv' in case['calls']
    if k == 'base':
      return F(case['s']) not in (0, 1) and F(case['b']) != 0 and case['n'] >= 2
    r = [F(x) for x in case['r']]
    mixed = any(x > 0 for x in r) and any(x < 0 for x in r)
    if k == 'soc':
      return mixed and (F(case['s']) < 1 or F(case['e']) != 1)
    p = case['dev']['prm']
    lossy = F(p['sustainment']) < 1 or F(p['efficiency']) != 1
    if k == 'tdev':
      return mixed and lossy and any(F(x) <= 0 for x in p['t_external'])
    return mixed and lossy

  def extra_evidence(self):
    return {'case_kinds': dict(self.hist)}


def strip_private_(x):
  from ..check import strip_private
  return strip_private(x)


def json_short(case):
  import json
  return json.dumps(C_strip(case), sort_keys=True)[:700]


def C_strip(x):
  from ..check import strip_private
  return strip_private(x)


PROP = C09()
