"""C17 — the multi-flow adaptor is a pure re-expression of the wrapped device."""
import json, math
from fractions import Fraction
from .. import common as C, gen, build, gen_sets as G
from ..check import Prop, Op
from .c04 import mat, fmat, impl_cons, impl_verdict, scalar, np

TOL = 1e-9
CLASSES = G.MF_CLASSES + ['SDevice']
SOLVE_CLASSES = ['Device', 'PVDevice', 'CDevice', 'CDevice2', 'IDevice', 'IDevice2', 'GDevice']


def close(a, b, tol=TOL):
  a = np().asarray(a, dtype=float).reshape(-1); b = np().asarray(b, dtype=float).reshape(-1)
  if a.shape != b.shape:
    return False
  return bool((np().abs(a - b) <= tol*np().maximum(1, np().maximum(np().abs(a), np().abs(b)))).all())


def in_box(bounds, x, tol=TOL):
  b = np().asarray(bounds, dtype=float).reshape(-1, 2); x = np().asarray(x, dtype=float).reshape(-1)
  return bool(((x >= b[:, 0] - tol) & (x <= b[:, 1] + tol)).all())


def conduit_spec(d, rows, n):
  """every conduit entry has the device's direction and lies in the conduit bounds (exact)."""
  lb = [Fraction(v) for v in d['lb']]; hb = [Fraction(v) for v in d['hb']]
  neg = any(v < 0 for v in lb)
  for r in rows:
    for i in range(n):
      if neg and not (lb[i] <= r[i] <= 0): return False
      if not neg and not (0 <= r[i] <= hb[i]): return False
  return True


class C17(Prop):
  id = 'C17'
  lean_module = 'DK.Props.C17'
  uses_t1 = True      # T1s regenerates DK/Gen/Sets/*.lean from the current source before the bridge is audited
  bridge_sets = ['DK.BridgeSets.MFDeviceSet_cost', 'DK.BridgeSets.MFDeviceSet_deriv', 'DK.BridgeSets.MFDeviceSet_hess',
                 'DK.BridgeSets.MFDeviceSet_project', 'DK.BridgeSets.MFDeviceSet_init_bounds',
                 'DK.BridgeSets.MFDeviceSet_constraints', 'DK.BridgeSets.MFDeviceSet_constraints_ofMF',
                 'DK.BridgeSets.TwoRatioMFDeviceSet_constraints']      # T1s: set-level glue (vk/translate_sets.py, DK/Lemmas/BridgeSets/*.lean)
  bridge = bridge_sets
  theorems = ['DK.C17.oneDir_iff', 'DK.C17.mf_cost', 'DK.C17.mf_cost_price', 'DK.C17.mf_deriv', 'DK.C17.mf_deriv_isMGrad',
              'DK.C17.mf_feasible_iff', 'DK.C17.conduit_direction', 'DK.C17.mf_surjective', 'DK.C17.mf_ratio_surjective',
              'DK.C17.mf_pairs_eq', 'DK.C17.mf_cost_image_eq', 'DK.C17.mf_min_eq', 'DK.C17.mf_argmin', 'DK.C04.mf_cons_sat_iff']
  rule = ('adaptor over every one-directional atomic class (consumers and producers; Device, PVDevice, CDevice, CDevice2, IDevice, IDevice2, '
          'GDevice, TDevice, ADevice with user constraints, charge-only / discharge-only SDevice), with and without cumulative bounds x 1-7 '
          'conduits (two-ratio sets when 2) x horizon n = 1,2,3,.. (8 quick, 31 thorough) x conduit matrices: split of a wrapped-feasible flow, '
          'equal split, in conduit box, one entry with the wrong direction / beyond a bound, arbitrary x scalar / per-slot / per-conduit prices; '
          'WindowDevice wrapped in 8 % of the cases, oracle only (not modelled); a re-read family: adaptor.constraints, assign device.cbounds, adaptor.constraints again; '
          'non-trivial: >= 2 conduits and the wrapped device has cumulative bounds or constraints')
  sizes = {'quick': 260, 'thorough': 2200}
  assumptions = ['the wrapped device is one-directional (the constructor raises otherwise); k >= 1 conduits',
                 'glue variants (oracle): Fortran-ordered / strided / integer-typed conduit matrices (integer dtype only where the wrapped device itself is dtype-insensitive at the total flow), (1,n) row prices, Fortran-ordered price matrices, for cost / deriv / hess (closed-form classes) / constraint values / constraint Jacobians; caller arrays unchanged; hess(S) = wrapped hess at the total flow',
                 'a handful of real solves per run (6 % of the cases, smooth convex wrapped classes, ftol 1e-10, vk/scipy_guard.safe_to_solve): minimum cost of the adaptor = minimum cost of the wrapped device at the same per-slot price within 1e-5; an OptimizationException of either side, or a gap that is only an early stop of the optimiser, is not reported (C05)',
                 'projection: the oracle requires shape, conduit bounds and slot totals = wrapped projection of the totals (not an equal split)',
                 'oracle tolerances: 1e-9 relative on costs / marginal costs, 1e-9 absolute slack on membership (1e-7 for the equal split, which divides by k)']

  def __init__(self):
    self.hist = {'cls': {}, 'k': {}, 'n': {}, 'ratio': 0, 'with_constraints': 0, 'producer': 0, 'feasible_probes': 0, 'infeasible_probes': 0,
                 'equal_splits_checked': 0}

  # ------------------------------------------------------------ cases
  def cases(self, rng, tier, count):
    out = []
    for _ in range(count):
      n = gen.pick_n(rng, tier)
      window = rng.random() < 0.08
      if window:
        t = gen_window_mf(rng, tier, n)
      else:
        t = G.gen_mf(rng, tier, n, 'm1', kmax=7, classes=CLASSES, p_ratio=0.25)
      d = t['dev']; k = len(t['flows'])
      lbx, hbx = gen.tree_box(t, n)
      x = G.wrapped_flow(rng, d, n)
      mats = []
      if t.get('ratios'):
        r0, r1 = Fraction(t['ratios'][0]), Fraction(t['ratios'][1])
        den = (r0 + r1) if r0 + r1 != 0 else Fraction(1)
        v = [Fraction(round(xi/den*8), 8) for xi in x]
        mats.append([[vi*r1 for vi in v], [vi*r0 for vi in v]])
        if t.get('ctype') == 'ineq':                 # both sides of the ratio half-space
          dlt = C.dy(rng, 0, 1) + Fraction(1, 4)
          mats.append([[a + dlt if a >= 0 else a for a in mats[0][0]], list(mats[0][1])])
          mats.append([list(mats[0][0]), [a + dlt if a >= 0 else a for a in mats[0][1]]])
      mats.append(G.split(rng, x, k))
      # in-box total flows that break exactly one wrapped constraint (one per constraint where found): only that constraint
      # stands between the conduit matrix and feasibility
      lbw = [Fraction(v) for v in d['lb']]; hbw = [Fraction(v) for v in d['hb']]
      seen = set()
      for _ in range(24):
        y = gen.gen_flow(rng, lbw, hbw, rng.choice(['interior', 'mixed', 'lower', 'upper']))
        bad = [j for j, (_, ok) in enumerate(G.dev_clauses(d, y, n, '')) if not ok]
        if len(bad) == 1 and bad[0] not in seen and len(seen) < 3:
          seen.add(bad[0]); mats.append(G.split(rng, y, k))
      mats.append([[xi/Fraction(1 << (k - 1).bit_length()) for xi in x] for _ in range(k)] if k & (k - 1) == 0 else G.split(rng, x, k))
      flat = gen.gen_flow(rng, lbx, hbx)
      base = [list(flat[r*n:(r + 1)*n]) for r in range(k)]
      mats.append(base)
      P = [list(r) for r in mats[0]]
      r, i = rng.randrange(k), rng.randrange(n)
      P[r][i] = -P[r][i] if P[r][i] != 0 and rng.random() < 0.5 else P[r][i] + rng.choice([-1, 1])*rng.choice([Fraction(1, 4), 1, 8])
      mats.append(P)
      mats.append([[C.dy(rng, -5, 5) for _ in range(n)] for _ in range(k)])
      # all-integer flows inside the conduit bounds where they contain an integer (passed with an integer dtype by the oracle)
      mats.append([[Fraction(rng.randint(math.ceil(lbx[r*n + i]), math.floor(hbx[r*n + i]))) if math.ceil(lbx[r*n + i]) <= math.floor(hbx[r*n + i])
                    else Fraction(round(lbx[r*n + i])) for i in range(n)] for r in range(k)])
      out.append({'tree': t, 'n': n, 'probes': [[[C.fs(v) for v in row] for row in M] for M in mats],
                  'P': gen.gen_price_mat(rng, k, n), 'x': [C.fs(v) for v in x], '_flat': rng.random() < 0.5,
                  'oracle_only': window, 'reread': rng.randrange(3), 'solve': rng.random() < 0.06})
    return out

  # ------------------------------------------------------------ T2
  def ops(self, case):
    t, n = case['tree'], case['n']
    d = t['dev']; k = len(t['flows'])
    h = self.hist
    h['cls'][d['cls']] = h['cls'].get(d['cls'], 0) + 1; h['k'][k] = h['k'].get(k, 0) + 1; h['n'][n] = h['n'].get(n, 0) + 1
    h['ratio'] += 1 if t.get('ratios') else 0
    h['with_constraints'] += 1 if (d.get('cbs') or d.get('ucons') or d['cls'] == 'SDevice') else 0
    h['producer'] += 1 if any(Fraction(v) < 0 for v in d['lb']) else 0
    if case.get('oracle_only'):
      return []                       # WindowDevice has no model: oracle only
    obj = make_adaptor(build_wrapped(d, t['id']), t)
    p = build.price(case['P'])
    ops = [Op({'op': 'tree.rows', 'tree': t, 'n': n}, lambda: obj.shape[0], TOL, 'rows'),
           Op({'op': 'tree.bounds', 'tree': t, 'n': n}, lambda: obj.bounds, TOL, 'conduit bounds')]
    # the exact-rational thermal / storage models recompute the whole chain per (conduit, slot): keep their share of the run small
    heavy = d['cls'] in ('TDevice', 'SDevice')      # O(n^2) recurrences per entry, exact rationals
    big_thermal = heavy and n > 12
    t2_probes = case['probes'][:2] if (heavy and (k*n > 24 or n > 12)) else case['probes']
    for P in t2_probes:
      S = mat(P)
      Sx = S.reshape(-1) if case.get('_flat') else S
      ops.append(Op({'op': 'tree.cost', 'tree': t, 'n': n, 'S': P, 'P': case['P']}, (lambda Sx=Sx: obj.cost(Sx, p)), TOL, 'cost (absolute)'))
      ops.append(Op({'op': 'tree.cost', 'tree': t, 'n': n, 'S': P, 'P': '0'}, (lambda Sx=Sx: obj.cost(Sx, 0)), TOL, 'cost at zero price'))
      if not big_thermal:      # (the oracle still compares the marginal cost with the wrapped device's at every horizon)
        ops.append(Op({'op': 'tree.deriv', 'tree': t, 'n': n, 'S': P, 'P': case['P']}, (lambda Sx=Sx: obj.deriv(Sx, p)), TOL, 'marginal cost'))
      ops.append(Op({'op': 'sets.cons', 'tree': t, 'n': n, 'S': P}, (lambda Sx=Sx: impl_cons(obj, Sx)), TOL, 'constraints as a multiset of (type, value)'))
    return ops

  # ------------------------------------------------------------ oracle
  def oracle(self, case):
    t, n = case['tree'], case['n']
    d = t['dev']; k = len(t['flows'])
    cls = d['cls']
    who = '%s over %s, %d conduits, n=%d' % ('TwoRatioMFDeviceSet' if t.get('ratios') else 'MFDeviceSet', cls, k, n)
    try:
      obj = make_adaptor(build_wrapped(d, t['id']), t)
    except Exception as e:
      return [{'key': {'cls': cls, 'kind': 'construct', 'exc': type(e).__name__},
               'detail': '%s cannot be constructed: %s: %s; wrapped bounds lb=%s hb=%s' % (who, type(e).__name__, str(e)[:160], d['lb'], d['hb'])}]
    dev = build_wrapped(d, t['id'])     # an independent instance of the wrapped device
    p = build.price(case['P'])
    pm = p*np().ones((k, n))
    fails = []
    def ratio_ok(Fm):
      if not t.get('ratios'):
        return True
      r0, r1 = Fraction(t['ratios'][0]), Fraction(t['ratios'][1])
      return all(G.holds(t.get('ctype', 'eq'), Fm[0][i]*r0 - Fm[1][i]*r1) for i in range(n))
    try:
      bx = np().asarray(obj.bounds, dtype=float)
      if bx.shape != (k*n, 2):
        return [{'key': {'cls': cls, 'kind': 'bounds-shape'}, 'detail': '%s: bounds has shape %s, expected %s' % (who, bx.shape, (k*n, 2))}]
      lb = [Fraction(v) for v in d['lb']]; hb = [Fraction(v) for v in d['hb']]
      neg = any(v < 0 for v in lb)
      want = np().array([[float(lb[i]), 0.0] if neg else [0.0, float(hb[i])] for _ in range(k) for i in range(n)])
      if not close(bx, want):
        j = int(np().argmax(np().abs(bx - want).sum(axis=1)))
        return [{'key': {'cls': cls, 'kind': 'conduit-bounds'},
                 'detail': '%s: conduit %d slot %d has bounds %s; documented %s (device direction %s; wrapped lb=%s hb=%s)' % (
                   who, j // n, j % n, bx[j].tolist(), want[j].tolist(), 'producer (low, 0)' if neg else 'consumer (0, high)', d['lb'], d['hb'])}]
      for P in case['probes']:
        S = mat(P); cs = S.sum(axis=0)
        if cls == 'WindowDevice' and abs(cs.sum()) < 1e-12:
          continue                     # known C10 finding (centre of mass of a zero total): not this property
        # cost: nothing but the wrapped cost of the total flow (+ the numeraire term)
        c0, w0 = scalar(obj.cost(S, 0)), scalar(dev.cost(cs, 0))
        if not close(c0, w0):
          fails.append({'key': {'cls': cls, 'kind': 'cost'}, 'detail': '%s: cost(S, 0) = %.10g but the wrapped cost of the total flow is %.10g at S=%s' % (who, c0, w0, json.dumps(P))}); break
        cp = scalar(obj.cost(S, p))
        if not close(cp, w0 + float((S*pm).sum())):
          fails.append({'key': {'cls': cls, 'kind': 'cost-price'}, 'detail': '%s: cost(S, P) = %.10g, expected wrapped cost + sum(S*P) = %.10g at S=%s P=%s' % (who, cp, w0 + float((S*pm).sum()), json.dumps(P), json.dumps(case['P']))}); break
        g = np().asarray(obj.deriv(S, p), dtype=float)
        wg = np().asarray(dev.deriv(cs, 0), dtype=float).reshape(-1)
        if g.shape != (k, n) or not all(close(g[r], wg + pm[r]) for r in range(k)):
          fails.append({'key': {'cls': cls, 'kind': 'deriv'}, 'detail': '%s: deriv(S, P) = %s but wrapped marginal cost at the total flow is %s (+ row prices) at S=%s P=%s' % (who, g.tolist(), wg.tolist(), json.dumps(P), json.dumps(case['P']))}); break
        # a flat flow vector and the shaped matrix are the same input
        Sf = S.reshape(-1)
        if not (close(scalar(obj.cost(Sf, p)), cp) and close(obj.deriv(Sf, p), g) and close([v for _, v in impl_cons(obj, Sf)], [v for _, v in impl_cons(obj, S)])):
          fails.append({'key': {'cls': cls, 'kind': 'flat-vs-shaped'}, 'detail': '%s: cost / deriv / constraint values differ between the flat and the shaped form of S=%s' % (who, json.dumps(P))}); break
        # feasibility: adaptor box + constraints  <=>  conduit direction/bounds AND total flow feasible for the wrapped device (AND ratio)
        got_c, worst = impl_verdict(obj.constraints, S)
        got = in_box(bx, S) and got_c
        dev_ok = in_box(dev.bounds, cs) and impl_verdict(dev.constraints, cs)[0]
        spec = conduit_spec(d, fmat(P), n) and dev_ok and ratio_ok(fmat(P))
        self.hist['feasible_probes' if spec else 'infeasible_probes'] += 1
        if got != spec:
          fails.append({'key': {'cls': cls, 'kind': 'feasible-set'},
                        'detail': '%s: conduit matrix %s is %s for the adaptor (bounds box %s, constraints %s) but conduit direction/bounds %s, total flow %s for the wrapped device%s; lb=%s hb=%s cbs=%s' % (
                          who, json.dumps(P), 'feasible' if got else 'infeasible', 'ok' if in_box(bx, S) else 'violated', 'ok' if got_c else 'violated #%d %s %.6g' % worst,
                          'ok' if conduit_spec(d, fmat(P), n) else 'violated', 'feasible' if dev_ok else 'infeasible',
                          '' if not t.get('ratios') else ', ratio %s %s %s' % (t['ratios'], t.get('ctype'), 'ok' if ratio_ok(fmat(P)) else 'violated'),
                          d['lb'], d['hb'], d.get('cbs'))}); break
        # glue: the same matrix in another array form (memory order, strides, integer dtype), row-shaped prices; inputs untouched
        f = self.forms(case, obj, dev, S, p, P, who)
        if f:
          fails.append(f); break
        # device-level projection: a flow of the adaptor's shape, inside the conduit bounds, whose slot totals are the wrapped
        # projection of the slot totals; an input already inside all bounds keeps its totals
        pr = np().asarray(obj.project(S), dtype=float)
        wp = np().asarray(dev.project(cs), dtype=float).reshape(-1)
        why = None
        if pr.shape != (k, n): why = 'has shape %s' % (pr.shape,)
        elif not close(pr.sum(axis=0), wp, 1e-7): why = 'has slot totals %s, the wrapped projection of the totals is %s' % (pr.sum(axis=0).tolist(), wp.tolist())
        elif not in_box(bx, pr, 1e-7): why = 'leaves the conduit bounds'
        elif in_box(bx, S) and in_box(dev.bounds, cs) and not close(pr.sum(axis=0), cs, 1e-7): why = 'changes the slot totals %s of an input inside all bounds' % cs.tolist()
        if why:
          fails.append({'key': {'cls': cls, 'kind': 'project'}, 'detail': '%s: project(S) = %s %s; S=%s' % (who, pr.tolist(), why, json.dumps(P))}); break
      if fails:
        return fails
      # surjectivity: the equal split of a feasible wrapped flow is feasible and costs the same
      x = np().array([C.pf(v) for v in case['x']])
      if in_box(dev.bounds, x, 0) and impl_verdict(dev.constraints, x)[0] and not t.get('ratios') and not (cls == 'WindowDevice' and abs(x.sum()) < 1e-12):
        self.hist['equal_splits_checked'] += 1
        E = np().tile(x/k, (k, 1))
        okc, worst = impl_verdict_tol(obj.constraints, E, 1e-7)
        if not (in_box(bx, E, 1e-7) and okc):
          fails.append({'key': {'cls': cls, 'kind': 'equal-split'},
                        'detail': '%s: the flow %s is feasible for the wrapped device but its equal split over %d conduits is not feasible for the adaptor (%s)' % (
                          who, case['x'], k, 'bounds' if okc else 'constraint #%d %s %.6g' % worst)})
        elif not close(scalar(obj.cost(E, 0)), scalar(dev.cost(x, 0)), 1e-7):
          fails.append({'key': {'cls': cls, 'kind': 'equal-split-cost'},
                        'detail': '%s: equal split of %s costs %.10g, the wrapped device %.10g' % (who, case['x'], scalar(obj.cost(E, 0)), scalar(dev.cost(x, 0)))})
      if fails:
        return fails
      fails += self.reread(case, who, ratio_ok)
      if not fails and case.get('solve'):
        fails += self.solve_check(case, who)
    except Exception as e:
      import traceback
      fails.append({'key': {'cls': cls, 'kind': 'raised', 'exc': type(e).__name__}, 'detail': '%s: %s: %s | %s' % (who, type(e).__name__, str(e)[:200], traceback.format_exc()[-300:])})
    return fails

  def forms(self, case, obj, dev, S, p, P, who):
    n_ = np()
    t = case['tree']; cls = t['dev']['cls']; k, n = S.shape
    keepS = S.copy(); keepp = n_.array(p, dtype=float, copy=True)
    hess_ok = cls not in ('SDevice', 'TDevice', 'WindowDevice') and not (cls == 'ADevice' and gen.fn_has(t['dev']['prm']['f'], 'demand'))
    def observe(X, q):
      cons = obj.constraints
      out = {'cost': scalar(obj.cost(X, q)), 'deriv': n_.asarray(obj.deriv(X, q), dtype=float),
             'cons': [scalar(c['fun'](X)) for c in cons],
             'jac': [n_.asarray(c['jac'](X), dtype=float).reshape(-1) for c in cons if 'jac' in c]}
      if hess_ok:
        out['hess'] = n_.asarray(obj.hess(X), dtype=float)
      return out
    def differs(a, b):
      if not close(a['cost'], b['cost']): return 'cost %.10g vs %.10g' % (a['cost'], b['cost'])
      if a['deriv'].shape != b['deriv'].shape or not close(a['deriv'], b['deriv']): return 'deriv %s vs %s' % (a['deriv'].tolist(), b['deriv'].tolist())
      if not close(a['cons'], b['cons']): return 'constraint values %s vs %s' % (a['cons'], b['cons'])
      if len(a['jac']) != len(b['jac']) or not all(close(x, y) for x, y in zip(a['jac'], b['jac'])): return 'constraint Jacobians'
      if 'hess' in a and (a['hess'].shape != b['hess'].shape or not close(a['hess'], b['hess'])): return 'hess %s vs %s' % (a['hess'].tolist(), b['hess'].tolist())
      return None
    base = observe(S, p)
    if hess_ok:
      wh = n_.asarray(dev.hess(S.sum(axis=0), 0), dtype=float)
      if base['hess'].shape != wh.shape or not close(base['hess'], wh):
        return {'key': {'cls': cls, 'kind': 'hess'}, 'detail': '%s: hess(S) = %s but the wrapped Hessian at the total flow is %s; S=%s' % (who, base['hess'].tolist(), wh.tolist(), json.dumps(P))}
    variants = [('Fortran-ordered array', n_.asfortranarray(S), p)]
    big = n_.zeros((2*k, n)); big[::2] = S
    variants.append(('strided (non-contiguous) view', big[::2], p))
    if n_.ndim(p) == 1:
      variants.append(('price as a (1, n) row', S, n_.asarray(p).reshape(1, n)))
    if n_.ndim(p) == 2:
      variants.append(('Fortran-ordered price matrix', S, n_.asfortranarray(p)))
    if (S == n_.round(S)).all():
      Si = S.astype(n_.int64); ci = Si.sum(axis=0); cf = S.sum(axis=0)
      try:   # only when the wrapped device itself does not care about the dtype of the total flow (else it is the leaf's business)
        leaf_same = close(scalar(dev.cost(ci, 0)), scalar(dev.cost(cf, 0))) and close(dev.deriv(ci, 0), dev.deriv(cf, 0)) and \
                    close([scalar(c['fun'](ci)) for c in dev.constraints], [scalar(c['fun'](cf)) for c in dev.constraints])
      except Exception:
        leaf_same = False
      if leaf_same:
        variants.append(('integer dtype', Si, p))
        variants.append(('integer dtype, integer zero price', Si, 0))
    for name, X, q in variants:
      Xk = n_.array(X, copy=True)
      try:
        got = observe(X, q)
        ref = base if q is p or n_.ndim(q) > 0 else observe(S, 0.0)
      except Exception as e:
        return {'key': {'cls': cls, 'kind': 'input-form', 'form': name, 'exc': type(e).__name__},
                'detail': '%s: %s (%s) when the conduit matrix %s is passed as: %s' % (who, type(e).__name__, str(e)[:120], json.dumps(P), name)}
      self.hist['input_forms'] = self.hist.get('input_forms', 0) + 1
      why = differs(got, ref)
      if why:
        return {'key': {'cls': cls, 'kind': 'input-form', 'form': name},
                'detail': '%s: the same conduit matrix %s passed as: %s gives a different result than as a float C-ordered array: %s (price %s)' % (who, json.dumps(P), name, why, json.dumps(case['P']))}
      if not (n_.asarray(X) == Xk).all():
        return {'key': {'cls': cls, 'kind': 'mutates-input', 'form': name}, 'detail': '%s: the caller\'s conduit matrix (%s) was modified' % (who, name)}
    if not (S == keepS).all() or not (n_.asarray(p, dtype=float) == keepp).all():
      return {'key': {'cls': cls, 'kind': 'mutates-input'}, 'detail': '%s: the caller\'s flow / price array was modified, S=%s' % (who, json.dumps(P))}
    return None

  def solve_check(self, case, who):
    """a real solve of the adaptor and of the wrapped device at the same per-slot price: same minimum cost (1e-5).
    A gap that is only the optimiser stopping early on one side (both optima transfer to the other side at their own
    cost) is counted, not reported: C05 owns the optimiser."""
    n_ = np()
    t, n = case['tree'], case['n']
    d = t['dev']; k = len(t['flows']); cls = d['cls']
    if cls not in SOLVE_CLASSES or t.get('ratios'):
      return []
    from device_kit.solve import solve, OptimizationException
    from .. import scipy_guard as SG
    pv = n_.asarray(build.price(case['P']), dtype=float)
    pv = n_.full(n, float(pv)) if pv.ndim == 0 else (pv[0] if pv.ndim == 2 else pv)
    dev = build_wrapped(d, t['id']); obj = make_adaptor(build_wrapped(d, t['id']), t)
    if not (SG.safe_to_solve(dev) and SG.safe_to_solve(obj)):
      return []
    opts = {'ftol': 1e-10, 'maxiter': 2000}
    try:
      sw, _ = solve(dev, pv, solver_options=opts)
    except OptimizationException:
      return []
    try:
      sa, _ = solve(obj, pv, solver_options=opts)
    except OptimizationException:
      return []
    except Exception as e:
      return [{'key': {'cls': cls, 'kind': 'solve-raised', 'exc': type(e).__name__},
               'detail': '%s: solve(adaptor, p=%s) raised %s: %s while solve(wrapped device) succeeds' % (who, pv.tolist(), type(e).__name__, str(e)[:160])}]
    self.hist['solves'] = self.hist.get('solves', 0) + 1
    sw = n_.asarray(sw, dtype=float).reshape(-1); sa = n_.asarray(sa, dtype=float).reshape(k, n)
    cw, ca = scalar(dev.cost(sw, pv)), scalar(obj.cost(sa, pv))
    if abs(ca - cw) <= 1e-5*max(1.0, abs(cw)):
      self.hist['solves_agree'] = self.hist.get('solves_agree', 0) + 1
      return []
    # transfer each optimum to the other side
    cs = sa.sum(axis=0); E = n_.tile(sw/k, (k, 1))
    ta, tw = scalar(dev.cost(cs, pv)), scalar(obj.cost(E, pv))
    cs_ok = in_box(dev.bounds, cs, 1e-6) and impl_verdict_tol(dev.constraints, cs, 1e-6)[0]
    E_ok = in_box(obj.bounds, E, 1e-6) and impl_verdict_tol(obj.constraints, E, 1e-6)[0]
    if cs_ok and E_ok and close(ta, ca, 1e-7) and close(tw, cw, 1e-7):
      self.hist['solver_gap_only'] = self.hist.get('solver_gap_only', 0) + 1
      return []
    return [{'key': {'cls': cls, 'kind': 'solve-min-cost'},
             'detail': ('%s: at per-slot price %s the adaptor solves to cost %.8g (flows %s) and the wrapped device to %.8g (flow %s); the adaptor optimum\'s total is %s for '
                        'the wrapped device at cost %.8g, the equal split of the wrapped optimum is %s for the adaptor at cost %.8g') % (
                          who, pv.tolist(), ca, sa.tolist(), cw, sw.tolist(), 'feasible' if cs_ok else 'INFEASIBLE', ta, 'feasible' if E_ok else 'INFEASIBLE', tw)}]

  def reread(self, case, who, ratio_ok):
    """read adaptor.constraints, re-assign the wrapped device's cumulative bounds through its setter, read again: the adaptor
    must follow the wrapped device's CURRENT constraints (a pure re-expression keeps no copy of them)."""
    t, n = case['tree'], case['n']
    d = t['dev']; k = len(t['flows']); cls = d['cls']
    lb = [Fraction(v) for v in d['lb']]; hb = [Fraction(v) for v in d['hb']]
    lo, hi = sum(lb, Fraction(0)), sum(hb, Fraction(0))
    if hi <= lo:
      return []
    w = hi - lo
    newcb = [(lo + w*Fraction(3, 8), lo + w*Fraction(5, 8)), (lo + w/2, hi + 1), (lo - 1, lo + w/4)][case.get('reread', 0) % 3]
    inner = build_wrapped(d, t['id'])
    obj = make_adaptor(inner, t)
    first = obj.constraints
    n_first = len(first)
    try:
      inner.cbounds = (float(newcb[0]), float(newcb[1]))
    except Exception:
      return []                          # the wrapped class refuses the assignment: nothing to re-read
    self.hist['rereads'] = self.hist.get('rereads', 0) + 1
    second = obj.constraints
    bx = np().asarray(obj.bounds, dtype=float)
    xs = [[a + (b - a)*f for a, b in zip(lb, hb)] for f in (Fraction(1, 2), Fraction(0), Fraction(1), Fraction(1, 4))]
    probes = [[[xi/k for xi in x] for _ in range(k)] for x in xs] + [fmat(P) for P in case['probes'][:3]]
    for Fm in probes:
      S = np().array([[float(v) for v in row] for row in Fm]); cs = S.sum(axis=0)
      got_c, worst = impl_verdict_tol(second, S, 1e-7)
      got = in_box(bx, S, 1e-7) and got_c
      dev_ok = in_box(inner.bounds, cs, 1e-7) and impl_verdict_tol(inner.constraints, cs, 1e-7)[0]
      spec = conduit_spec(d, Fm, n) and dev_ok and ratio_ok(Fm)
      if got != spec:
        return [{'key': {'cls': cls, 'kind': 'reread-after-setter'},
                 'detail': ('%s: after reading adaptor.constraints (%d entries) and assigning device.cbounds = (%s, %s) the adaptor (%d entries) says the conduit matrix %s is %s, '
                            'but its total %s is %s for the wrapped device as it is now (old cbs=%s)') % (
                              who, n_first, newcb[0], newcb[1], len(second), [[str(v) for v in row] for row in Fm], 'feasible' if got else 'infeasible',
                              cs.tolist(), 'feasible' if dev_ok else 'infeasible', d.get('cbs'))}]
    return []

  def nontrivial(self, case):
    t = case['tree']; d = t['dev']
    return len(t['flows']) >= 2 and bool(d.get('cbs') or d.get('ucons') or d['cls'] == 'SDevice')

  def extra_evidence(self):
    return {'input_distribution': self.hist}


def build_wrapped(d, ident):
  """the wrapped device from its description (WindowDevice has no model, hence no entry in build.py)."""
  if d['cls'] == 'WindowDevice':
    dk = C.repo()
    return dk.WindowDevice(ident, d['n'], build.py_bounds(d), C.pf(d['prm']['w']), build.py_cbounds(d), c=C.pf(d['prm']['c']))
  return build.build_block_device(d, ident)


def make_adaptor(dev, t):
  dk = C.repo()
  if t.get('ratios'):
    return dk.TwoRatioMFDeviceSet(dev, list(t['flows']), G.py_ratios(t), t.get('ctype', 'eq'))
  return dk.MFDeviceSet(dev, list(t['flows']))


def gen_window_mf(rng, tier, n):
  """an adaptor over a WindowDevice (oracle only): a consumer or producer with a non-zero total flow."""
  sign = rng.choice(['+', '-'])
  for _ in range(20):
    lb, hb = gen.gen_bounds(rng, n, sign=sign, zero_width=0.1)
    if sum(hb, Fraction(0)) != sum(lb, Fraction(0)):
      break
  d = {'cls': 'WindowDevice', 'n': n, 'lb': [C.fs(v) for v in lb], 'hb': [C.fs(v) for v in hb], 'cbs': [],
       'prm': {'w': C.fs(C.dy(rng, 0, n)), 'c': C.fs(C.dy(rng, 0, 2))}, '_py': {'bform': 'table', 'cform': None}}
  if rng.random() < 0.5:
    cbs, form = gen.gen_cbounds(rng, n, lb, hb)
    d['cbs'] = [[C.fs(c[0]), C.fs(c[1]), c[2], c[3]] for c in cbs]
    d['_py']['cform'] = '4tuples'
  k = rng.randint(1, 6)
  t = {'k': 'mf', 'id': 'w1', 'dev': d, 'flows': G.FLOW_NAMES[:k], 'ratios': None}
  if k == 2 and rng.random() < 0.25:
    G.set_ratios(rng, t)
  return t


def impl_verdict_tol(cons, S, tol):
  worst = None
  for k, c in enumerate(cons):
    v = scalar(c['fun'](S))
    ok = abs(v) <= tol if c['type'] == 'eq' else v >= -tol
    if not ok and worst is None:
      worst = (k, c['type'], v)
  return worst is None, worst


PROP = C17()
