"""C07 — shipped device costs are convex over their bounds box.

T2 (validation of the model the convexity theorems are about): leaf.dcost / leaf.deriv at both flows of
the pair and at one mixture.  Oracle (implementation only): chord inequality at several mixing weights and
gradient monotonicity on random in-box pairs, at parameters on and next to every validator threshold.

Generator branches (field `branch`):
  std            accepted parameters of the documented-convex region (incl. its boundary values)
  corner:IDevice.b_lt1   exponent b in (0,1): accepted by the validator, CONCAVE (DK.C07.idevice_not_convex_small_b)
  corner:SDevice.c1_0    c1 = 0 < c2: accepted by the setters, indefinite (DK.C07.sdevice_quadratic_not_convex)
  probe:*        parameters just OUTSIDE a validator threshold; the constructor must reject them (then the
                 case is vacuous); if a loosened validator accepts them the convexity oracle judges the device
"""
import json
from fractions import Fraction
from .. import common as C, gen, build
from ..common import F, fs, dy
from ..check import Prop, Op, strip_private
from ..leafcommon import np, has_curve

CLASSES = ['Device', 'PVDevice', 'CDevice', 'CDevice2', 'CDevice2', 'IDevice', 'IDevice', 'IDevice2', 'IDevice2', 'GDevice', 'GDevice',
           'SDevice', 'SDevice', 'SDevice', 'TDevice', 'TDevice', 'ADevice', 'ADevice']
P_CORNER_IDEV = 0.04
P_CORNER_SDEV = 0.04
P_PROBE = 0.10
P_SET0 = 0.10      # built with another value -> deriv -> setter
P_ALIAS = 0.07     # caller-owned parameter arrays edited in place after construction
L = lambda v: [fs(x) for x in v]


# ------------------------------------------------------------------ convex polynomial repair
def curvature_need(cs, lo, hi):
  """the smallest t^2 coefficient c2 for which the polynomial (highest degree first; cs[-3] ignored) is convex on [lo, hi].
  Exact up to degree 4 (p'' - 2 c2 is at most a quadratic: its minimum over the interval is at an end or at the vertex);
  degree >= 5: the sufficient bound sum_{k>=3} k(k-1)|c_k| R^(k-2) / 2, R = max(|lo|, |hi|)."""
  cs = [F(c) for c in cs]; lo, hi = F(lo), F(hi)
  deg = len(cs) - 1
  if deg <= 2:
    return None
  c3 = cs[-4]; c4 = cs[-5] if deg >= 4 else F(0)
  if deg <= 4:
    r = lambda t: 12*c4*t*t + 6*c3*t
    pts = [lo, hi]
    if c4 > 0 and lo < -c3/(4*c4) < hi:
      pts.append(-c3/(4*c4))
    return -min(r(t) for t in pts)/2
  R = max(abs(lo), abs(hi))
  return sum((k*(k - 1)*abs(cs[deg - k])*R**(k - 2) for k in range(3, deg + 1)), F(0))/2


def convexify(cs, lo, hi, tight=False):
  """coefficients (highest degree first) made convex on [lo, hi] by raising the t^2 coefficient (`tight`: set to the smallest convex value)."""
  cs = [F(c) for c in cs]
  need = curvature_need(cs, lo, hi)
  if need is None:
    return cs
  if cs[-3] < need or tight:
    cs[-3] = need
  return cs


def convex_fn(f, lb, hb):
  """walk a gen.gen_fn description and restrict it to the convex sub-family (in place)."""
  k = f['k']
  if k == 'add':
    convex_fn(f['f'], lb, hb); convex_fn(f['g'], lb, hb)
  elif k == 'reflect':
    convex_fn(f['f'], [-x for x in hb], [-x for x in lb])
  elif k == 'append':
    at = f['at']
    convex_fn(f['f'], lb[:at], hb[:at]); convex_fn(f['g'], lb[at:], hb[at:])
  elif k == 'poly':
    off = f['off'] if isinstance(f['off'], list) else [f['off']]*len(f['cs'])
    f['cs'] = [L(convexify(row, lb[i] + F(off[i]), hb[i] + F(off[i]))) for i, row in enumerate(f['cs'])]
  elif k == 'demand':
    # f(max x) is convex when f is convex and non-decreasing on [max lb, max hb]
    cs = [F(c) for c in f['cs']][-3:]      # the convex family keeps the quadratic part of a higher-degree inner curve
    lo = max(lb)
    if len(cs) == 3:
      if cs[1] < -2*cs[0]*lo:
        cs[1] = -2*cs[0]*lo
    elif len(cs) == 2 and cs[0] < 0:
      cs[0] = -cs[0]
    f['cs'] = L(cs)
  return f


# ------------------------------------------------------------------ parameters at and around the validator thresholds
def prm_idevice(rng, n, corner):
  a = gen.svec(rng, n, lambda: rng.choice([F(0), F(0), F(1), Fraction(1, 2), dy(rng, 0, 1), dy(rng, 1, 2)]))
  c = gen.svec(rng, n, lambda: rng.choice([F(0), F(1), dy(rng, 0, 2, 3), dy(rng, 0, 2)]))
  ge1 = ['1', '1', '2', '2', '3', '4', '65/64', '5/4', '3/2', '5/2']
  lt1 = ['1/64', '1/4', '1/2', '3/4', '63/64']
  bnd = []
  if corner:
    if rng.random() < 0.5:
      b = rng.choice(lt1)
    else:
      b = [rng.choice(ge1 + lt1) for _ in range(n)]
      b[rng.randrange(n)] = rng.choice(lt1)
    bnd.append('b<1')
  else:
    q = rng.random()
    if q < 0.35:
      b = rng.choice(ge1)
    elif q < 0.6:
      b = rng.choice(['1', '2', '3', '4'])
    else:
      b = [rng.choice(ge1) for _ in range(n)]
    if '1' in (b if isinstance(b, list) else [b]): bnd.append('b=1')
    if '65/64' in (b if isinstance(b, list) else [b]): bnd.append('b=1+')
  return {'a': a, 'b': b, 'c': c}, bnd


def prm_hlq(rng, n, vector_ok):
  bnd = []
  if vector_ok and rng.random() < 0.5:
    pls = [dy(rng, -3, 0) for _ in range(n)]
    phs = []
    for x in pls:
      q = rng.random()
      phs.append(x if q < 0.3 else (F(0) if q < 0.45 else dy(rng, x, 0)))
    if any(a == b for a, b in zip(pls, phs)): bnd.append('p_l=p_h')
    return {'p_l': L(pls), 'p_h': L(phs)}, bnd
  pl = dy(rng, -3, 0); q = rng.random()
  ph = pl if q < 0.3 else (F(0) if q < 0.45 else dy(rng, pl, 0))
  if pl == ph: bnd.append('p_l=p_h')
  return {'p_l': fs(pl), 'p_h': fs(ph)}, bnd


def prm_sdevice(rng, n, corner):
  bnd = []
  if corner:
    c1 = F(0); c2 = rng.choice([Fraction(1, 64), Fraction(1, 2), F(1), dy(rng, Fraction(1, 4), 2)])
    bnd.append('c1=0<c2')
  else:
    c1 = rng.choice([dy(rng, Fraction(1, 4), 2), dy(rng, Fraction(1, 4), 2), F(1), Fraction(1, 64), F(0)])
    q = rng.random()
    if c1 == 0:
      c2 = F(0); bnd.append('c1=c2=0')
    elif q < 0.3:
      c2 = c1; bnd.append('c2=c1')
    elif q < 0.55:
      c2 = c1 - Fraction(1, 64); bnd.append('c2=c1-')
    elif q < 0.7:
      c2 = F(0)
    else:
      c2 = dy(rng, 0, c1)
  eff = rng.choice(['1', '1', '1/2', '3/4', '7/8', '63/64', '1/64'])
  if eff == '1': bnd.append('eff=1')
  if eff == '63/64': bnd.append('eff=1-')
  p = {'c1': fs(c1), 'c2': fs(c2), 'capacity': fs(dy(rng, 1, 12)), 'efficiency': eff,
       'sustainment': rng.choice(['1', '1', '1/2', '3/4', '7/8', '1/64']), 'reserve': '0'}
  if rng.random() < (0.3 if corner else 0.6):   # shortfall term active: damage depth above any reachable state of charge
    p.update({'c3': fs(rng.choice([dy(rng, Fraction(1, 4), 2), F(1), F(4)])), 'damage_depth': rng.choice(['1', '1', '3/4']),
              'start': rng.choice(['0', '0', '1/4', '1/2'])})
    bnd.append('shortfall-active')
  else:
    p.update({'c3': fs(dy(rng, 0, 2)) if rng.random() < (0.2 if corner else 0.5) else '0', 'damage_depth': fs(dy(rng, 0, 1)), 'start': fs(dy(rng, 0, 1))})
  return p, bnd


def prm_tdevice(rng, n):
  bnd = []
  tr = fs(dy(rng, 0, 6)) if rng.random() < 0.85 else '0'
  if tr == '0': bnd.append('t_range=0')
  sus = rng.choice(['1', '1/2', '3/4', '7/8', '0', '1/4'])
  if sus in ('0', '1'): bnd.append('sustainment=' + sus)
  return {'sustainment': sus, 'efficiency': fs(rng.choice([1, -1])*rng.choice([Fraction(1, 4), F(1), dy(rng, Fraction(1, 4), 3)])),
          't_init': fs(dy(rng, -5, 25)), 't_optimal': fs(dy(rng, 15, 25)), 't_range': tr,
          't_external': L([dy(rng, -8, 30, 1) for _ in range(n)]), 'c': gen.svec(rng, n, lambda: rng.choice([F(0), dy(rng, 0, 3)]), 0.4)}, bnd


def two_way_bounds(rng, n):
  lb = [-dy(rng, 0, 4) for _ in range(n)]; hb = [dy(rng, 0, 4) for _ in range(n)]
  return lb, hb


def gen_dev(rng, tier, cls, corner=False):
  """a device of the documented-convex family (or one of the two known corners)."""
  # the exact-rational model of the storage / thermal cost is O(n^3) with large numerators: n <= 12 there
  kw = {'n': rng.choice([1, 2, 3, 4, 5, 6, 7, 8, 9, 12])} if (tier == 'thorough' and cls in ('SDevice', 'TDevice')) else {}
  d = gen.gen_leaf(rng, tier, [cls], **kw)
  n = d['n']; bnd = []
  lb = [F(x) for x in d['lb']]; hb = [F(x) for x in d['hb']]
  if cls == 'IDevice':
    d['prm'], bnd = prm_idevice(rng, n, corner)
  elif cls == 'IDevice2':
    d['prm'], bnd = prm_hlq(rng, n, True)
  elif cls == 'CDevice2':
    d['prm'], bnd = prm_hlq(rng, n, False)
  elif cls == 'SDevice':
    if n == 1 and rng.random() < 0.7:   # the flip-flop term needs neighbours
      return gen_dev(rng, tier, cls, corner)
    keep = d['prm']
    d['prm'], bnd = prm_sdevice(rng, n, corner)
    if rng.random() < 0.25 and not corner:
      d['prm']['reserve'] = keep.get('reserve', '0')
  elif cls == 'TDevice':
    if rng.random() < 0.5:   # any direction: the temperature map is affine in the flow
      lb, hb = two_way_bounds(rng, n)
      d['lb'], d['hb'] = L(lb), L(hb); d['_py']['bform'] = 'table'
    d['prm'], bnd = prm_tdevice(rng, n)
  elif cls == 'GDevice':
    if rng.random() < 0.4:      # degree 4-5, signed lower-order coefficients, repaired to be convex on the generated range
      from .. import gen_fnx
      d['prm']['cost_coeffs'] = gen_fnx.rich_coeffs(rng, n, lb, hb, convex=True); bnd.append('degree>=4')
    cc = d['prm']['cost_coeffs']
    if isinstance(cc[0], list):
      d['prm']['cost_coeffs'] = [L(convexify(row, -hb[i], -lb[i])) for i, row in enumerate(cc)]
    else:
      d['prm']['cost_coeffs'] = L(convexify(cc, -max(hb), -min(lb)))
  elif cls == 'ADevice':
    convex_fn(d['prm']['f'], lb, hb)
  if any(a == b for a, b in zip(d['lb'], d['hb'])): bnd.append('zero-width slot')
  return d, bnd


PROBES = ['IDevice2.p_l>p_h', 'IDevice2.p_l>p_h', 'CDevice2.p_l>p_h', 'CDevice2.p_l>p_h', 'SDevice.eff>1', 'SDevice.eff>1', 'SDevice.c2>c1', 'SDevice.c2>c1',
          'TDevice.c<0', 'IDevice.c<0', 'IDevice.b<=0', 'SDevice.c3<0', 'SDevice.c2<0', 'SDevice.c1<0', 'IDevice.c[k]<0', 'IDevice.a[k]<0', 'TDevice.c[k]<0']
# the parameters whose validators compare them with EACH OTHER: the check may live in either setter, so the probes (and the valid cases)
# are built with both keyword orders and, for the probes, also by assignment through the setters in both orders
ROUTED = {'IDevice2': ['p_l', 'p_h'], 'CDevice2': ['p_l', 'p_h'], 'SDevice': ['c1', 'c2']}


def gen_route(rng, cls, probe):
  order = list(ROUTED[cls]); rng.shuffle(order)
  if probe and rng.random() < 0.4:
    base = {'p_l': '-4', 'p_h': '0'} if cls != 'SDevice' else {'c1': '4', 'c2': '0'}
    return {'via': 'setters', 'order': order, 'base': base}
  return {'via': 'kwargs', 'order': order}


def build_routed(d, route):
  """the device of `d` with the mutually constrained parameters handed over in the keyword order `route['order']`, or
  (via 'setters') constructed with the harmless `base` values and then assigned through the public setters in that order."""
  dk = C.repo(); cls = d['cls']; n = d['n']; p = d['prm']
  b, cb = build.py_bounds(d), build.py_cbounds(d)
  val = lambda k, src: build.fv(src[k]) if cls == 'IDevice2' else C.pf(src[k])
  first = route['base'] if route['via'] == 'setters' else p
  kw = {k: val(k, first) for k in route['order']}
  if cls == 'SDevice':
    kw.update({k: C.pf(v) for k, v in p.items() if k not in kw and k != 'rate_clip'})
    dev = dk.SDevice('sdevice', n, b, cb, **kw)
  elif cls == 'IDevice2':
    dev = dk.IDevice2('idevice2', n, b, cb, **kw)
  else:
    dev = dk.CDevice2('cdevice2', n, b, cb, **kw)
  if route['via'] == 'setters':
    for k in route['order']:
      setattr(dev, k, val(k, p))
  return dev


def gen_probe(rng, tier, name):
  """parameters just outside a validator threshold (the constructor is expected to raise ValueError)."""
  cls = name.split('.')[0]
  while True:
    d, bnd = gen_dev(rng, tier, cls)
    n = d['n']
    if not (cls == 'SDevice' and n < 3) and any(a != b for a, b in zip(d['lb'], d['hb'])):
      break
  p = d['prm']
  live = [i for i in range(n) if d['lb'][i] != d['hb'][i]]
  if name.endswith('p_l>p_h'):
    if cls == 'IDevice2' and rng.random() < 0.7:   # vector case: one slot inverted
      pls = [dy(rng, -3, Fraction(-1, 4)) for _ in range(n)]; phs = [dy(rng, x, 0) for x in pls]
      k = rng.choice(live); phs[k] = pls[k] - rng.choice([Fraction(1, 64), F(1), F(2)])
      p['p_l'], p['p_h'] = L(pls), L(phs)
    elif rng.random() < 0.5:
      pl = dy(rng, -2, Fraction(-1, 4)); p['p_l'] = fs(pl); p['p_h'] = fs(pl - rng.choice([Fraction(1, 64), F(1), F(2)]))
    else:            # each value is acceptable next to the class DEFAULT of the other one (p_l = -1, p_h = 0)
      ph = dy(rng, -1, Fraction(-1, 8), 3); p['p_h'] = fs(ph); p['p_l'] = fs(ph + rng.choice([Fraction(1, 64), -ph/2, -ph]))
  elif name in ('SDevice.c3<0', 'SDevice.c2<0', 'SDevice.c1<0'):
    k = name[8:10]
    p.update({'c1': rng.choice(['1/64', '1/4', '1']), 'c2': '0', 'c3': rng.choice(['1', '2']), 'damage_depth': '1', 'start': '0', 'efficiency': rng.choice(['1', '3/4'])})
    p[k] = fs(-rng.choice([Fraction(1, 64), Fraction(1, 2), F(1), F(4)]))
  elif name in ('IDevice.c[k]<0', 'IDevice.a[k]<0', 'TDevice.c[k]<0'):      # a vector with ONE bad entry
    k = name.split('.')[1][0]; j = rng.choice(live)
    v = [F(x) for x in (p[k] if isinstance(p[k], list) else [p[k]]*n)]
    v = [x if x > 0 else Fraction(1, 2) for x in v]
    v[j] = -rng.choice([Fraction(1, 64), Fraction(1, 2), F(1), F(2)])
    p[k] = L(v)
    if cls == 'TDevice':
      p['t_range'] = fs(dy(rng, 1, 6))
    elif not b_is_int(d):
      p['b'] = rng.choice(['2', '3'])
  elif name == 'SDevice.eff>1':
    p.update({'efficiency': rng.choice(['65/64', '5/4', '3/2', '2', '2']), 'c1': rng.choice(['1/64', '1/4', '1']), 'c2': '0',
              'c3': rng.choice(['1', '2', '4']), 'damage_depth': '1', 'start': rng.choice(['0', '1/4']), 'capacity': fs(dy(rng, 6, 12))})
  elif name == 'SDevice.c2>c1':
    if rng.random() < 0.5:
      c1 = dy(rng, Fraction(1, 4), 2); p['c1'] = fs(c1); p['c2'] = fs(c1 + rng.choice([Fraction(1, 64), F(1), c1]))
    else:            # c2 is acceptable next to the class default c1 = 1
      c1 = rng.choice([Fraction(1, 8), Fraction(1, 4), Fraction(1, 2)]); p['c1'] = fs(c1); p['c2'] = fs(rng.choice([c1 + Fraction(1, 64), Fraction(3, 4), F(1)]))
  elif name == 'TDevice.c<0':
    p['c'] = fs(-dy(rng, Fraction(1, 4), 3)); p['t_range'] = fs(dy(rng, 1, 6))
  elif name == 'IDevice.c<0':
    p['c'] = fs(-dy(rng, Fraction(1, 4), 2)); p['b'] = rng.choice(['2', '3/2', '3'])
  elif name == 'IDevice.b<=0':
    p['b'] = rng.choice(['0', '-1', '-1/2']); p['c'] = fs(dy(rng, Fraction(1, 4), 2)); p['a'] = rng.choice(['1/4', '1/2'])
  return d, ['outside:' + name]


# ------------------------------------------------------------------ glue variants: assignment after construction, caller-owned arrays
SETTABLE = {'SDevice': ['sustainment', 'sustainment', 'sustainment', 'efficiency', 'c3', 'capacity', 'start', 'damage_depth'], 'CDevice': ['a', 'b']}
# (IDevice / IDevice2 / CDevice2 / TDevice keep the cost object built at construction: their stale-after-setter behaviour is C11's open finding)


def gen_set0(rng, tier):
  """the device is BUILT with another value of one scalar parameter, asked for its marginal cost once, then the parameter is
  assigned through its public setter: the accepted parameterisation is the final one and its cost / marginal cost must be
  convex / monotone."""
  cls = rng.choice(['SDevice', 'SDevice', 'SDevice', 'CDevice'])
  d, bnd = gen_dev(rng, tier, cls)
  while cls == 'SDevice' and d['n'] < 3 and rng.random() < 0.8:
    d, bnd = gen_dev(rng, tier, cls)
  p = d['prm']
  if cls == 'SDevice':
    # the deep-discharge term active in SOME slots only: shallow damage depth, (nearly) full start
    p.update({'c3': rng.choice(['2', '4', '10']), 'c1': rng.choice(['1/64', '1/4', '1']), 'damage_depth': rng.choice(['1/8', '1/8', '1/4', '1/2']),
              'start': rng.choice(['1/2', '3/4', '1', '1']), 'capacity': fs(dy(rng, 4, 12))})
    if F(p['c2']) > F(p['c1']):
      p['c2'] = p['c1']
  k = rng.choice(SETTABLE[cls])
  if cls == 'CDevice':
    v0 = fs(dy(rng, -3, 0)) if k == 'a' else fs(dy(rng, -2, 2))
  elif k == 'sustainment':
    v0 = rng.choice(['1', '1/2', '3/4', '7/8', '1/4'])
  elif k == 'efficiency':
    v0 = rng.choice(['1', '1/2', '3/4', '7/8'])
  elif k == 'c3':
    v0 = rng.choice(['0', '1', '3'])
  elif k == 'capacity':
    v0 = fs(F(p['capacity']) + dy(rng, Fraction(1, 2), 6))
  else:
    v0 = rng.choice(['0', '1/4', '1/2', '3/4', '1'])
  return d, bnd + ['set0:' + k], ({k: v0} if v0 != p[k] else None)


ALIAS_PARAMS = {'IDevice': ['a', 'b', 'c'], 'IDevice2': ['p_l', 'p_h'], 'GDevice': ['cost_coeffs'], 'TDevice': ['t_external', 'c'], 'CDevice2': [], 'SDevice': []}


def gen_alias(rng, tier):
  """vector parameters and bounds are handed over as numpy arrays the CALLER keeps; after construction the caller edits one of
  its arrays in place.  The accepted device must be unaffected (compare with a fresh twin built from the original values)."""
  cls = rng.choice(['IDevice', 'IDevice2', 'IDevice2', 'GDevice', 'TDevice', 'CDevice2', 'SDevice'])
  while True:
    d, bnd = gen_dev(rng, tier, cls)
    if b_is_int(d):
      break
  n = d['n']; p = d['prm']
  for k in ALIAS_PARAMS[cls]:
    if k != 'cost_coeffs' and not isinstance(p[k], list):
      p[k] = [p[k]]*n            # the same values, per slot
  names = ALIAS_PARAMS[cls] + (['bounds'] if (d['_py'].get('bform') == 'table' or n == 2) else ['lb', 'hb'])
  k = rng.choice(ALIAS_PARAMS[cls]*3 + names)
  op = {'p_h': ('add', '-7'), 'p_l': ('add', '-7'), 'b': ('add', '1'), 'a': ('mul', '0'), 't_external': ('add', '10')}.get(k, rng.choice([('mul', '-1'), ('add', '3')]))
  d['_py']['bform'] = 'table' if 'bounds' in names else 'pair'
  return d, bnd + ['alias:' + k], {'param': k, 'op': op[0], 'v': op[1]}


def alias_build(d):
  """the device of `d` with every vector parameter / the bounds given as numpy arrays; returns (device, {name: that array})."""
  n_ = np(); dk = C.repo(); p = d['prm']; cls = d['cls']; n = d['n']
  bufs = {}
  def A(name, v):
    bufs[name] = n_.array(build.jf(v), dtype=float)
    return bufs[name]
  V = lambda name: A(name, p[name]) if isinstance(p[name], list) else C.pf(p[name])
  if d['_py'].get('bform') == 'table' or n == 2:
    b = A('bounds', [[lo, hi] for lo, hi in zip(d['lb'], d['hb'])])
  else:
    b = (A('lb', d['lb']), A('hb', d['hb']))
  cb = build.py_cbounds(d)
  if cls == 'IDevice':
    dev = dk.IDevice('idevice', n, b, cb, a=V('a'), b=V('b'), c=V('c'))
  elif cls == 'IDevice2':
    dev = dk.IDevice2('idevice2', n, b, cb, p_l=V('p_l'), p_h=V('p_h'))
  elif cls == 'CDevice2':
    dev = dk.CDevice2('cdevice2', n, b, cb, p_l=C.pf(p['p_l']), p_h=C.pf(p['p_h']))
  elif cls == 'GDevice':
    dev = dk.GDevice('gdevice', n, b, cb, cost_coeffs=A('cost_coeffs', p['cost_coeffs']))
  elif cls == 'SDevice':
    dev = dk.SDevice('sdevice', n, b, cb, **{k: C.pf(v) for k, v in p.items() if k != 'rate_clip'})
  elif cls == 'TDevice':
    dev = dk.TDevice('tdevice', n, b, C.pf(p['sustainment']), C.pf(p['efficiency']), C.pf(p['t_init']), C.pf(p['t_optimal']), C.pf(p['t_range']),
                     A('t_external', p['t_external']), c=V('c'), cbounds=cb)
  else:
    raise ValueError('no aliasing builder for ' + cls)
  return dev, bufs


def gen_pair(rng, d):
  lb = [F(x) for x in d['lb']]; hb = [F(x) for x in d['hb']]
  for _ in range(8):
    x = gen.gen_flow(rng, lb, hb, rng.choice(['interior', 'mixed', 'mixed', 'lower', 'upper']))
    y = gen.gen_flow(rng, lb, hb, rng.choice(['interior', 'mixed', 'mixed', 'lower', 'upper']))
    if x != y:
      break
  m = rng.randint(1, 6)
  th = ['1/2', '1/4', '3/4', fs(Fraction(rng.randint(1, (1 << m) - 1), 1 << m))]
  return L(x), L(y), th


def b_is_int(d):
  if d['cls'] != 'IDevice':
    return True
  b = d['prm']['b']
  return all(F(x).denominator == 1 for x in (b if isinstance(b, list) else [b]))


def fail_key(d, case):
  key = {'cls': d['cls'], 'kind': 'nonconvex'}
  p = d['prm']
  if d['cls'] == 'IDevice':
    b = p['b'] if isinstance(p['b'], list) else [p['b']]
    key['b'] = 'lt1' if any(0 < F(x) < 1 for x in b) and all(F(x) > 0 for x in b) else 'ge1'
  if d['cls'] == 'SDevice':
    key['c1'] = '0' if (F(p['c1']) == 0 and F(p['c2']) > 0) else 'ge_c2'
  if case.get('branch', 'std').startswith('probe:'):
    key['probe'] = case['branch'][6:]
  return key


class C07(Prop):
  id = 'C07'
  lean_module = 'DK.Props.C07'
  theorems = {'DK.Props.C07': ['DK.C07.device_convex', 'DK.C07.cdevice_convex', 'DK.C07.idevice2_convex', 'DK.C07.idevice_convex',
              'DK.C07.idevice_not_convex_small_b', 'DK.C07.gdevice_convex', 'DK.C07.cdevice2_convex', 'DK.C07.tdevice_convex',
              'DK.C07.sdevice_quadratic_convex', 'DK.C07.sdevice_quadratic_not_convex', 'DK.C07.sdevice_convex',
              'DK.C07.first_order_certificate', 'DK.C07.convexOnBox_iff'],
              'DK.Props.Link': ['DK.Link.accepted_convexAcc', 'DK.Link.accepted_convexAcc_closed', 'DK.Link.sdevice_convexAcc_iff', 'DK.Link.sdevice_corner_open', 'DK.Link.idevice_corner_open', 'DK.Link.reach_convexAcc', 'DK.Link.accepted_leaf_summary', 'DK.Link.reach_summary'],
              'DK.Props.C07mono': ['DK.C07mono.grad_ineq', 'DK.C07mono.grad_monotone', 'DK.C07mono.segment_deriv_monotone', 'DK.C07mono.leaf_deriv_monotone', 'DK.C07mono.leaf_segment_deriv_monotone'],
              'DK.Props.C07tree': ['DK.C07tree.tree_cost_convex', 'DK.C07tree.tree_cost_convex_feasible', 'DK.C07tree.leaf_cost_convex', 'DK.C07tree.leaf_cost_convex_univ', 'DK.C07tree.ofLeaf_convex', 'DK.C07tree.ofMF_convex', 'DK.C07tree.ofMF_convex_global', 'DK.C07tree.ofMF_convex_feasible', 'DK.C07tree.ofMF_not_convex_on_box', 'DK.C07tree.tree_cons_affine', 'DK.C07tree.tree_cons_convexSat', 'DK.C07tree.feasible_convex', 'DK.C07tree.feasible_convex_affine', 'DK.C07tree.feasible_convex_of_blocks', 'DK.C07tree.sdeviceCons_affine', 'DK.C07tree.sdevice_convex_part', 'DK.C07tree.socHi_not_convexSat', 'DK.C07tree.clipHi_not_convexSat', 'DK.C07tree.sdevice_feasible_not_convex', 'DK.C07tree.sublevel_convex', 'DK.C07tree.local_is_global', 'DK.C07tree.local_is_global_of_local', 'DK.C07tree.tree_sublevel_convex', 'DK.C07tree.tree_local_is_global']}
  rule = ('pairs of in-bounds flows x 4 mixing weights (1/2, 1/4, 3/4, random dyadic) for every convex-documented class at parameters on '
          'and next to the validator thresholds (b = 1, 1+1/64, non-integer b; p_l = p_h; c2 = c1, c1-1/64; efficiency 1, 63/64, 1/64; '
          'active shortfall term; t_range = 0; zero-width slots; convex generator / ADevice polynomials; thermal in any direction), plus '
          'the two accepted non-convex corners and probes just outside each validator; non-trivial: distinct pair differing in a '
          'non-zero-width slot, a non-linear cost and a validator-boundary parameter.  Glue variants: storage / CDevice built with another value of one '
          'parameter, asked for deriv, then re-assigned through the setter (chord + monotone marginal cost on that object, T2 against the final '
          'description); vector parameters / bounds handed over as caller-owned numpy arrays that the caller edits in place afterwards (cost / deriv / '
          'bounds vs a fresh twin built from the original values; oracle only)')
  sizes = {'quick': 1500, 'thorough': 40000}
  assumptions = ['oracle tolerance 1e-9 x max(1, |cost|, |deriv|.|x-y|); non-integer exponents are outside the rational model (oracle only)',
                 'cases whose constructor raises ValueError are vacuous for C07 (counted in rejected_by_validator)']

  def __init__(self):
    self.stat = {}

  def bump(self, k):
    self.stat[k] = self.stat.get(k, 0) + 1

  def cases(self, rng, tier, count):
    out = []
    for _ in range(count):
      q = rng.random(); extra = {}
      if q < P_CORNER_IDEV:                       # ---- known non-convex corner 1 (kept apart from everything else)
        d, bnd = gen_dev(rng, tier, 'IDevice', corner=True); branch = 'corner:IDevice.b_lt1'
      elif q < P_CORNER_IDEV + P_CORNER_SDEV:     # ---- known non-convex corner 2
        d, bnd = gen_dev(rng, tier, 'SDevice', corner=True); branch = 'corner:SDevice.c1_0'
      elif q < P_CORNER_IDEV + P_CORNER_SDEV + P_PROBE:
        name = rng.choice(PROBES)
        d, bnd = gen_probe(rng, tier, name); branch = 'probe:' + name
        if name in ('IDevice2.p_l>p_h', 'CDevice2.p_l>p_h', 'SDevice.c2>c1'):
          extra['route'] = gen_route(rng, d['cls'], True)
        extra['more'] = [list(gen_pair(rng, d)[:2]) for _ in range(5)]      # an accepted probe is judged on more pairs
      elif q < P_CORNER_IDEV + P_CORNER_SDEV + P_PROBE + P_SET0:
        d, bnd, set0 = gen_set0(rng, tier); branch = 'std'
        if set0: extra['set0'] = set0
      elif q < P_CORNER_IDEV + P_CORNER_SDEV + P_PROBE + P_SET0 + P_ALIAS:
        d, bnd, al = gen_alias(rng, tier); branch = 'std'
        extra['alias'] = al
      else:
        d, bnd = gen_dev(rng, tier, rng.choice(CLASSES)); branch = 'std'
        if d['cls'] in ROUTED and rng.random() < 0.5:
          extra['route'] = gen_route(rng, d['cls'], False)
      x, y, th = gen_pair(rng, d)
      out.append(dict({'dev': d, 'x': x, 'y': y, 'p': gen.gen_price(rng, d['n']), 'thetas': th, 'branch': branch, 'bnd': bnd}, **extra))
    return out

  def corpus(self):
    # the Lean witness DK.C07tree.sdevice_feasible_not_convex replayed on the implementation
    d = {'cls': 'SDevice', 'n': 2, 'lb': ['-1', '-1'], 'hb': ['8', '8'], 'cbs': [], '_py': {'bform': 'table', 'cform': None},
         'prm': {'c1': '1', 'c2': '0', 'c3': '0', 'capacity': '4', 'damage_depth': '0', 'start': '1/2', 'reserve': '0', 'efficiency': '1/2', 'sustainment': '1'}}
    return [{'dev': d, 'x': ['4', '0'], 'y': ['-1', '8'], 'p': '0', 'thetas': ['1/2'], 'branch': 'feasible-set', 'bnd': True}]

  def feasible_set_oracle(self, case, dev):
    """C07's consequence: the feasible set (bounds + constraints) is convex.  Two feasible flows whose
    mixture is infeasible are a counterexample."""
    n_ = np()
    def slack(v):
      a = n_.array(v, dtype=float)
      s = min(float((a - dev.lbounds).min()), float((dev.hbounds - a).min()))
      for c in dev.constraints:
        f = float(c['fun'](a))
        s = min(s, f if c['type'] == 'ineq' else -abs(f))
      return s
    x = build.arr(case['x']); y = build.arr(case['y'])
    if slack(x) < -1e-9 or slack(y) < -1e-9:
      return []
    for th in case['thetas']:
      z = build.arr(L(self.mix(case, th)))
      if slack(z) < -1e-6:
        d = case['dev']
        return [{'key': {'cls': d['cls'], 'kind': 'feasible-set-nonconvex', 'lossy': d['prm'].get('efficiency', '1') != '1'},
                 'detail': '%s: flows x=%s and y=%s satisfy the bounds and every constraint, their mixture (theta=%s) %s violates one by %.4g; prm=%s' % (
                   d['cls'], case['x'], case['y'], th, z.tolist(), -slack(z), json.dumps(strip_private(d['prm']))[:300])}]
    return []

  def build(self, case):
    """the device, or None when the constructor rejects the parameters (vacuous)."""
    try:
      if case.get('alias'):
        dev, bufs = alias_build(case['dev'])
        a = case['alias']; buf = bufs[a['param']]
        if a['op'] == 'mul': buf *= C.pf(a['v'])
        else: buf += C.pf(a['v'])
        return dev
      if case.get('set0'):
        d = case['dev']; d0 = dict(d); d0['prm'] = dict(d['prm']); d0['prm'].update(case['set0'])
        try:
          dev = build.build_leaf(d0)
          dev.deriv(build.arr(case['x']).astype(float), 0)
          for k in case['set0']:
            setattr(dev, k, C.pf(d['prm'][k]))
          return dev
        except ValueError:
          pass        # the other value is not accepted together with the rest: plain construction
      if case.get('route'):
        return build_routed(case['dev'], case['route'])
      return build.build_leaf(case['dev'])
    except ValueError:
      return None

  @staticmethod
  def mix(case, th):
    t = F(th)
    return [t*F(a) + (1 - t)*F(b) for a, b in zip(case['x'], case['y'])]

  # ---------------------------------------------------------------- T2
  def ops(self, case):
    d = case['dev']
    if not b_is_int(d) or case.get('alias'):
      return []       # alias cases are metamorphic (fresh twin), oracle only
    dev = self.build(case)
    if dev is None:
      return []
    p = build.price(case['p'])
    x = build.arr(case['x']); y = build.arr(case['y'])
    z = L(self.mix(case, case['thetas'][-1])); za = build.arr(z)
    return [
      Op({'op': 'leaf.dcost', 'dev': d, 's': case['x'], 's0': case['y'], 'p': case['p']}, lambda: dev.cost(x, p) - dev.cost(y, p), 1e-9, 'cost(x) - cost(y)'),
      Op({'op': 'leaf.dcost', 'dev': d, 's': z, 's0': case['y'], 'p': case['p']}, lambda: dev.cost(za, p) - dev.cost(y, p), 1e-9, 'cost(mix) - cost(y)'),
      Op({'op': 'leaf.deriv', 'dev': d, 's': case['x'], 'p': case['p']}, lambda: dev.deriv(x, p), 1e-9, 'deriv(x)'),
      Op({'op': 'leaf.deriv', 'dev': d, 's': case['y'], 'p': case['p']}, lambda: dev.deriv(y, p), 1e-9, 'deriv(y)'),
    ]

  # ---------------------------------------------------------------- oracle
  def oracle(self, case):
    d = case['dev']; branch = case.get('branch', 'std')
    self.bump('branch ' + branch)
    dev = self.build(case)
    route = case.get('route')
    rt = (' [%s in the order %s]' % ('keyword arguments' if route['via'] == 'kwargs' else 'built with %s, then assigned through the setters' % route['base'], route['order'])) if route else ''
    if dev is None:
      self.bump('rejected_by_validator ' + branch)
      if route and not branch.startswith('probe:'):
        try:
          build.build_leaf(d)
          self.bump('VALID configuration rejected in keyword order %s but accepted in the other order (%s; vacuous for C07, C11 business)' % (route['order'], d['cls']))
        except ValueError:
          pass
      return []
    if not branch.startswith('probe:'):
      return self._oracle(case, dev)
    # ---- parameters OUTSIDE the documented-convex region were accepted: search for the chord / monotonicity violation on the case's
    # pair and on five more; found or not, the acceptance itself is reported (the validators are what keeps the models convex)
    self.bump('ACCEPTED outside-validator parameters ' + branch)
    for sub in [case] + [dict(case, x=m[0], y=m[1]) for m in case.get('more', [])]:
      try:
        fs_ = self._oracle(sub, dev)
      except ArithmeticError:
        fs_ = []
      if fs_:
        fs_[0]['detail'] += rt
        return fs_
    return [{'key': {'cls': d['cls'], 'kind': 'accepted-outside-validator', 'probe': branch[6:]},
             'detail': '%s accepts parameters outside the documented-convex region (%s: the validators are what keeps the model convex; the convexity theorems need exactly '
                       'these hypotheses)%s; prm=%s bounds=%s/%s.  No chord violation on the 6 probed pairs (the non-convexity may be small), the acceptance itself is the finding.' % (
                         d['cls'], branch[6:], rt, json.dumps(strip_private(d['prm']))[:300], d['lb'], d['hb'])}]

  def _oracle(self, case, dev):
    n_ = np()
    d = case['dev']; branch = case.get('branch', 'std')
    if d['cls'] == 'SDevice' and branch in ('std', 'feasible-set'):
      fs = self.feasible_set_oracle(case, dev)
      if fs:
        self.bump('feasible-set nonconvex found')
        return fs
      if branch == 'feasible-set':
        return []
    p = build.price(case['p'])
    x = build.arr(case['x']); y = build.arr(case['y'])
    if case.get('set0'):
      self.bump('built with another value, deriv, then setter: ' + '/'.join(case['set0']))
    if case.get('alias'):
      al = case['alias']
      self.bump('caller array edited in place after construction: %s.%s' % (d['cls'], al['param']))
      twin = build.build_leaf(d)
      z = n_.array([float(v) for v in self.mix(case, case['thetas'][-1])])
      diff = None
      try:
        for name, pt in (('x', x), ('y', y), ('mix', z)):
          c0, c1 = float(twin.cost(pt, p)), float(dev.cost(pt, p))
          g0 = n_.array(twin.deriv(pt, p), dtype=float).reshape(-1); g1 = n_.array(dev.deriv(pt, p), dtype=float).reshape(-1)
          if not (abs(c0 - c1) <= 1e-9*max(1.0, abs(c0)) or (n_.isnan(c0) and n_.isnan(c1))):
            diff = 'cost(%s) = %.10g, fresh twin %.10g' % (name, c1, c0); break
          if g0.shape != g1.shape or not n_.allclose(g0, g1, rtol=1e-9, atol=1e-9, equal_nan=True):
            diff = 'deriv(%s) = %s, fresh twin %s' % (name, g1.tolist(), g0.tolist()); break
        if diff is None and not n_.allclose(n_.array(twin.bounds, dtype=float), n_.array(dev.bounds, dtype=float)):
          diff = 'bounds = %s, fresh twin %s' % (n_.array(dev.bounds).tolist(), n_.array(twin.bounds).tolist())
      except Exception as e:
        diff = 'evaluation raises %s(%s) while the fresh twin does not' % (type(e).__name__, e)
      if diff:
        return [{'key': {'cls': d['cls'], 'kind': 'aliasing', 'param': al['param']},
                 'detail': '%s: built with %s given as a numpy array; after the CALLER did `array %s= %s` on its own array the accepted device changed (no validator ran): %s; '
                           'prm=%s bounds=%s/%s x=%s y=%s p=%s' % (d['cls'], al['param'], '*' if al['op'] == 'mul' else '+', al['v'], diff,
                                                              json.dumps(strip_private(d['prm']))[:300], d['lb'], d['hb'], case['x'], case['y'], case['p'])}]
    cx, cy = float(dev.cost(x, p)), float(dev.cost(y, p))
    fails = []
    for th in case['thetas']:
      t = float(F(th))
      z = n_.array([float(v) for v in self.mix(case, th)])
      cz = float(dev.cost(z, p))
      if not all(map(n_.isfinite, (cx, cy, cz))):
        continue
      scale = max(1.0, abs(cx), abs(cy), abs(cz))
      gap = cz - (t*cx + (1 - t)*cy)
      if gap > 1e-9*scale:
        fails.append({'key': fail_key(d, case),
                      'detail': '%s: cost(%s*x+(1-%s)*y, p) = %.12g exceeds the chord %s*%.12g + (1-%s)*%.12g by %.3g; x=%s y=%s p=%s prm=%s bounds=%s/%s [%s]' % (
                        d['cls'], th, th, cz, th, cx, th, cy, gap, case['x'], case['y'], case['p'], json.dumps(strip_private(d['prm']))[:300], d['lb'], d['hb'], branch)})
        break
    dx = x - y
    try:
      gx = n_.array(dev.deriv(x, p), dtype=float).reshape(-1); gy = n_.array(dev.deriv(y, p), dtype=float).reshape(-1)
    except ArithmeticError:      # 0**negative at a bound (b < 1): finiteness is C10's subject, not convexity
      self.bump('deriv undefined (skipped monotonicity) ' + branch)
      gx = gy = n_.zeros(0)
    if gx.shape == dx.shape and gy.shape == dx.shape and n_.isfinite(gx).all() and n_.isfinite(gy).all():
      mono = float((gx - gy).dot(dx))
      nd = float(n_.linalg.norm(dx))
      scale = max(1.0, abs(cx), abs(cy), float(n_.linalg.norm(gx))*nd, float(n_.linalg.norm(gy))*nd)
      if mono < -1e-9*scale:
        k = fail_key(d, case)
        fails.append({'key': k, 'detail': '%s: marginal cost not monotone: (deriv(x)-deriv(y)).(x-y) = %.6g < 0; x=%s y=%s p=%s prm=%s bounds=%s/%s [%s]' % (
          d['cls'], mono, case['x'], case['y'], case['p'], json.dumps(strip_private(d['prm']))[:300], d['lb'], d['hb'], branch)})
    # monotone directional derivative along the segment (DK.C07mono.segment_deriv_monotone): h(tau) = deriv(z_tau).(y - x) must not
    # decrease; the pieces of a piecewise cost (shortfall active in some slots only) change along the segment
    if not fails and gx.shape == dx.shape and has_curve(d) and d['cls'] not in ('Device', 'PVDevice', 'CDevice'):
      taus = [k/8.0 for k in range(9)]
      try:
        hs = [float(n_.array(dev.deriv(y + tau*dx, p), dtype=float).reshape(-1).dot(dx)) for tau in taus]
      except ArithmeticError:
        hs = []
      if hs and all(map(n_.isfinite, hs)):
        scale = max(1.0, max(abs(h) for h in hs))
        for k in range(8):
          if hs[k + 1] < hs[k] - 1e-9*scale:
            fails.append({'key': fail_key(d, case),
                          'detail': '%s: marginal cost not monotone along the segment y + tau (x - y): deriv(z).(x-y) falls from %.10g at tau=%s to %.10g at tau=%s; x=%s y=%s p=%s prm=%s bounds=%s/%s [%s]%s' % (
                            d['cls'], hs[k], taus[k], hs[k + 1], taus[k + 1], case['x'], case['y'], case['p'], json.dumps(strip_private(d['prm']))[:300], d['lb'], d['hb'], branch,
                            (' [built with %s, deriv called once, then re-assigned through the setter]' % case['set0']) if case.get('set0') else '')})
            break
    # local form of the same statement: at the midpoint z the Jacobian of the marginal cost (central differences of deriv over the
    # slots where z is strictly inside the box) must have a positive semidefinite symmetric part; a negative direction v is turned
    # into a concrete in-box pair (z, z + eps v) and judged by the pair inequality itself
    if not fails and gx.shape == dx.shape and has_curve(d) and d['cls'] not in ('Device', 'PVDevice', 'CDevice') and d['n'] <= 12:
      lbv = n_.array([float(F(v)) for v in d['lb']]); hbv = n_.array([float(F(v)) for v in d['hb']])
      z = (x + y)/2.0
      free = [i for i in range(d['n']) if lbv[i] + 1e-3 < z[i] < hbv[i] - 1e-3]
      try:
        if len(free) >= 2:
          J = n_.zeros((len(free), len(free)))
          for b_, j in enumerate(free):
            e = n_.zeros(d['n']); e[j] = 1e-4
            col = (n_.array(dev.deriv(z + e, p), dtype=float).reshape(-1) - n_.array(dev.deriv(z - e, p), dtype=float).reshape(-1))/2e-4
            J[:, b_] = col[free]
          if n_.isfinite(J).all():
            w, V = n_.linalg.eigh((J + J.T)/2)
            if w[0] < -1e-6*max(1.0, float(n_.abs(J).max())):
              v = n_.zeros(d['n']); v[free] = V[:, 0]
              room = min(min((hbv[i] - z[i]) if v[i] > 0 else (z[i] - lbv[i]) for i in free if v[i] != 0), 1.0)
              u = z + 0.5*room*v/max(1e-12, float(n_.abs(v).max()))
              gu = n_.array(dev.deriv(u, p), dtype=float).reshape(-1); gz = n_.array(dev.deriv(z, p), dtype=float).reshape(-1)
              mono = float((gu - gz).dot(u - z)); nd = float(n_.linalg.norm(u - z))
              scale = max(1.0, float(n_.linalg.norm(gu))*nd, float(n_.linalg.norm(gz))*nd)
              if n_.isfinite(mono) and mono < -1e-9*scale:
                fails.append({'key': fail_key(d, case),
                              'detail': '%s: marginal cost not monotone: (deriv(u)-deriv(z)).(u-z) = %.6g < 0 for the in-bounds flows z=%s u=%s (z is the midpoint of x, y; u-z the most negative '
                                        'direction of the symmetrised Jacobian of deriv, eigenvalue %.4g); p=%s prm=%s bounds=%s/%s [%s]%s' % (
                                          d['cls'], mono, z.tolist(), u.tolist(), w[0], case['p'], json.dumps(strip_private(d['prm']))[:300], d['lb'], d['hb'], branch,
                                          (' [built with %s, deriv called once, then re-assigned through the setter]' % case['set0']) if case.get('set0') else '')})
      except ArithmeticError:
        pass
    if fails:
      self.bump('nonconvex found ' + branch)
    return fails[:1]

  def nontrivial(self, case):
    d = case['dev']
    differs = any(a != b and lo != hi for a, b, lo, hi in zip(case['x'], case['y'], d['lb'], d['hb']))
    return differs and has_curve(d) and bool(case.get('bnd')) and not case.get('branch', 'std').startswith('probe:')

  def extra_evidence(self):
    return {'oracle_branch_counts': dict(sorted(self.stat.items()))}


PROP = C07()
